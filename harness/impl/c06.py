"""Implementation runner for C06 / C07 (call-history independence, isolation of classes).

stdin:  {"jobs": [{"salt": str, "ops": [op, ...]}, ...]}
stdout: {"results": [[outcome text, ...], ...]}          one list per job, one text per op

Every job builds its own classes (fresh class objects, names salted with the job's
salt, each in a synthetic module) and executes its operations in order in THIS
interpreter.  Jobs batched into one interpreter never share a class object, a class
name or a nested dataclass (the caller guarantees distinct salts).

Operations (JSON):
  {"op":"define","cid":3,"qn":3,"mod":"a","wiz":true,"base":1|null,"inner":meta|null,
   "own_fields":[[name,"int"|"str"|{"nested":cid},default|null],...]}
  {"op":"bind","cid":3,"meta":meta}
  {"op":"load","cid":3,"attr":bool,"doc":{...}}
  {"op":"dump","attr":bool,"inst":value}
meta  = {"ltr":"CAMEL"|..|null,"dtr":..,"raise":bool|null,"skipdef":bool|null,"rec":bool|null}
        extended (direct predicate only, not in the Coq model): "auto_tags":bool, "tag_key":str,
        "marshal":"TIMESTAMP"|"ISO_FORMAT", "skip_if":{"obj":id,"cond":[name,arg?]},
        "jk2f":{"obj":id,"map":{json key: field}}   - equal "obj" ids denote the SAME Python object
value = null | {"i":int} | {"s":str} | {"b":bool} | {"dt":iso} | {"c":cid,"f":[[name,value],...]}
        | {"sub":{"mixins":[..],"chain":[..],"root":"int"|"str"|"obj"|"list"},"z":int}   (list: items [z, z+1])
value (extended) also {"l":[value,..]} | {"d":[[key,value],..]}
field types: "int" | "str" | {"nested":cid} | extended: "datetime" | "any" | "bool" | "badcond" | "ulit_str" |
        "ulit_int" | "opt_int" | "list_int" | "dict_int" | "catchall" | {"fwd":cid,"qn":qn} (= list['<name>'])"
        (badcond = Annotated[bool, IS_NOT(True)]: a bare Condition, the dump setup of the class raises)

Typed operations (second state machine, coq/model/HistValueModel.v; values carry their EXACT Python type):
  {"op":"xdefine","cid":3,"qn":3,"mod":"a","wiz":bool,"engine":"d"|"v1","case":v1_key_case|null,"ltr":key_transform_with_load|null,
   "fields":[{"n":name,"t":xtype,"d":xvalue (optional default),"al":[load alias,...] (optional)},...]}
  {"op":"xload","cid":3,"attr":bool,"doc":[[key,xvalue],...]}       (a list of pairs: key ORDER is part of the document)
  {"op":"xdump","attr":bool,"cid":3,"f":[[name,xvalue],...]}
  {"op":"xoracle","fn":"iso"|"fromts"|"strp","kind":"datetime"|"date"|"time","v":xvalue,"fmt":str}   (stdlib only; oracle tables of the model)
xtype  = "int"|"float"|"bool"|"str"|"Decimal"|"datetime"|"date"|"time"|"timedelta"|"any"
         | {"pat":objid,"fmt":"%d.%m.%Y","base":"date"|"datetime"|"time"}   = Annotated[base, P] where P is ONE Pattern object
           per (objid, engine) in the job: equal ids denote the SAME annotation object, at whatever position / class it is used
xvalue = {"t":"none"} | {"t":"bool","v":true} | {"t":"int","v":1} | {"t":"float","v":"0x1p+0"} | {"t":"Decimal","v":"1"} |
         {"t":"Fraction","v":"1/1"} | {"t":"str","v":".."} | {"t":"datetime"|"date"|"time","v":iso} | {"t":"timedelta","v":seconds} |
         {"t":"list","v":[xvalue..]}
typed outcome text: v c<cid>(<hexname>=<tv>,..) with tv = N | B0/B1 | I<int> | F<float hex> | M<Decimal str> | Q<fraction> | S<hex> |
         T<datetime iso> | A<date iso> | H<time iso> | W<days>_<seconds>_<micros> | L[..] | D{..} | ?<TypeName> (exact types only:
         a subclass instance prints as ?Name);  j<same syntax> for dumps;  errors as below, ParseError of a typed op carries
         the target type the error names:  eP<qn>:<hexfield>@<TypeName>

Outcome text (same syntax as coq/model/StateShow.v; classes named by cid in values, by
qualname number in errors):
  d | v<inst> | j<json> | eP<qn>:<hexfield> | eD<qn>:<hexfield> | eM<qn>:<hex>+<hex> | eU<qn>:<hexkey> | eV | eX | eA | e?<TypeName>
"""
import sys, os, types, logging, dataclasses
sys.path.insert(0, os.path.dirname(os.path.abspath(__file__)))
from _util import main

logging.disable(logging.CRITICAL)

META_KEYS = [('ltr', 'key_transform_with_load'), ('dtr', 'key_transform_with_dump'),
             ('raise', 'raise_on_unknown_json_key'), ('skipdef', 'skip_defaults'), ('rec', 'recursive'),
             ('auto_tags', 'auto_assign_tags'), ('tag_key', 'tag_key'), ('marshal', 'marshal_date_time_as'),
             ('skip_if', 'skip_if'), ('jk2f', 'json_key_to_field'), ('v1', 'v1'), ('v1_case', 'v1_key_case')]
ANN = {'int': 'int', 'str': 'str', 'datetime': 'datetime', 'any': 'Any', 'bool': 'bool',
       'badcond': 'Annotated[bool, IS_NOT(True)]',
       'ulit_str': "Union[Literal['fast', 'slow'], str]", 'ulit_int': 'Union[Literal[1, 2], int]',
       'opt_int': 'Optional[int]', 'list_int': 'list[int]', 'dict_int': 'dict[str, int]', 'catchall': 'CatchAll'}


def hx(s):
    return s.encode('utf-8').hex()


class Job:
    def __init__(self, salt):
        self.salt = salt
        self.classes = {}      # cid -> class
        self.cid_of = {}       # class -> cid
        self.qn_of_name = {}   # class __qualname__ -> qn
        self.mods = {}
        self.vtypes = {}
        self.shared = {}       # object id -> the one Python object (dict / Condition) it denotes

    def module(self, key):
        if key not in self.mods:
            name = 'dwv_%s_%s' % (self.salt, key)
            m = types.ModuleType(name)
            sys.modules[name] = m
            exec('from dataclasses import dataclass\nfrom datetime import datetime\n'
                 'from typing import Any, Annotated, Union, Literal, Optional\n'
                 'from dataclass_wizard import JSONWizard, IS_NOT, CatchAll\n', m.__dict__)
            self.mods[key] = m
        return self.mods[key]

    def meta_value(self, k, v):
        """Python value of a Meta setting; shared objects are created once per id"""
        if k == 'jk2f':
            if v['obj'] not in self.shared:
                self.shared[v['obj']] = dict(v['map'])
            return self.shared[v['obj']]
        if k == 'skip_if':
            if v['obj'] not in self.shared:
                import dataclass_wizard as dw
                name, *arg = v['cond']
                self.shared[v['obj']] = getattr(dw, name)(*arg)
            return self.shared[v['obj']]
        return v

    def cname(self, qn):
        return 'Q%s_%d' % (self.salt, qn)

    # ---- operations ----
    def define(self, o):
        m = self.module(o.get('mod') or 'm')
        name = self.cname(o['qn'])
        self.qn_of_name[name] = o['qn']
        ns = m.__dict__
        if o.get('base') is not None:
            ns['_B'] = self.classes[o['base']]
            bases = '(_B)'
        elif o['wiz']:
            bases = '(JSONWizard)'
        else:
            bases = ''
        lines = ['@dataclass', 'class %s%s:' % (name, bases)]
        if o.get('inner') is not None:
            lines.append('    class _(JSONWizard.Meta):')
            body = []
            for k, attr in META_KEYS:
                if o['inner'].get(k) is not None:
                    ns['_MV_%s' % k] = self.meta_value(k, o['inner'][k])
                    body.append('        %s = _MV_%s' % (attr, k))
            lines.extend(body or ['        pass'])
        for i, (fname, fty, dflt) in enumerate(o['own_fields']):
            if isinstance(fty, dict) and 'fwd' in fty:
                # forward reference (by name, inside a container) to a class of this module defined LATER
                ann = "list['%s']" % self.cname(fty['qn'])
            elif isinstance(fty, dict):
                ns['_N%d' % i] = self.classes[fty['nested']]
                ann = '_N%d' % i
            else:
                ann = ANN[fty]
            lines.append('    %s: %s%s' % (fname, ann, '' if dflt is None else ' = %r' % (dflt,)))
        if len(lines) == 2:
            lines.append('    pass')
        exec('\n'.join(lines) + '\n', ns)
        cls = ns[name]
        self.classes[o['cid']] = cls
        self.cid_of[cls] = o['cid']

    def bind(self, o):
        from dataclass_wizard import LoadMeta
        kw = {attr: self.meta_value(k, o['meta'][k]) for k, attr in META_KEYS if o['meta'].get(k) is not None}
        LoadMeta(**kw).bind_to(self.classes[o['cid']])

    def vtype(self, t):
        mixins, chain, root = tuple(t.get('mixins') or ()), tuple(t['chain']), t['root']
        key = (mixins, chain, root)
        if key not in self.vtypes:
            if mixins:
                bases = tuple(self.vtype({'mixins': [], 'chain': [m], 'root': 'obj'}) for m in mixins)
                if chain:
                    bases += (self.vtype({'mixins': [], 'chain': list(chain), 'root': root}),)
                elif root != 'obj':
                    bases += ({'int': int, 'str': str, 'list': list}[root],)
            elif not chain:
                raise ValueError('empty type')
            elif len(chain) == 1:
                if root == 'obj':
                    class _O:
                        z = '?'

                        def __str__(self):
                            return 'obj%s' % (self.z,)
                    bases = (_O,)
                else:
                    bases = ({'int': int, 'str': str, 'list': list}[root],)
            else:
                bases = (self.vtype({'mixins': [], 'chain': list(chain[1:]), 'root': root}),)
            name = 'V%s_%s_%s_%s' % (self.salt, 'm'.join(map(str, mixins)), '_'.join(map(str, chain)), root)
            self.vtypes[key] = type(name, bases, {})
        return self.vtypes[key]

    def value(self, v):
        if v is None:
            return None
        if 'i' in v:
            return v['i']
        if 's' in v:
            return v['s']
        if 'b' in v:
            return v['b']
        if 'l' in v:
            return [self.value(x) for x in v['l']]
        if 'd' in v:
            return {k: self.value(x) for k, x in v['d']}
        if 'dt' in v:
            import datetime
            return datetime.datetime.fromisoformat(v['dt'])
        if 'sub' in v:
            t = self.vtype(v['sub'])
            root = v['sub']['root']
            x = t([v['z'], v['z'] + 1]) if root == 'list' else t(str(v['z'])) if root == 'str' else t(v['z']) if root == 'int' else t()
            x.z = v['z']
            return x
        cls = self.classes[v['c']]
        obj = object.__new__(cls)          # like the constructor, without type checks or defaults
        for k, x in v['f']:
            object.__setattr__(obj, k, self.value(x))
        return obj

    # ---- outcome rendering ----
    def show_inst(self, v):
        import datetime
        if v is None:
            return 'n'
        if isinstance(v, bool):
            return 'b%d' % v
        if isinstance(v, int):
            return 'i%d' % v
        if isinstance(v, str):
            return 's' + hx(v)
        if isinstance(v, datetime.datetime):
            return 't' + v.isoformat()
        if isinstance(v, list):
            return 'l[%s]' % ','.join(self.show_inst(x) for x in v)
        if type(v) is dict:
            return 'D{%s}' % ','.join('%s:%s' % (hx(str(k)), self.show_inst(x)) for k, x in v.items())
        if dataclasses.is_dataclass(v) and type(v) in self.cid_of:
            return 'c%d(%s)' % (self.cid_of[type(v)], ','.join(
                '%s=%s' % (hx(f.name), self.show_inst(getattr(v, f.name, '<unset>'))) for f in dataclasses.fields(v)))
        return '?' + type(v).__name__

    def show_json(self, v):
        if v is None:
            return 'n'
        if isinstance(v, bool):
            return 'b%d' % v
        if isinstance(v, list):
            return 'l[%s]' % ','.join(self.show_json(x) for x in v)
        if isinstance(v, int):
            return 'i%d' % v
        if isinstance(v, str):
            return 's' + hx(str.__str__(v))
        if type(v) is dict:
            return '{%s}' % ','.join('%s:%s' % (hx(k), self.show_json(x)) for k, x in v.items())
        return '?' + type(v).__name__

    def show_err(self, e):
        from dataclass_wizard.errors import ParseError, MissingFields, UnknownKeysError, MissingData
        t = type(e)

        def qn(name):
            return str(self.qn_of_name.get(name, '?' + str(name)))
        if t is MissingData:
            return 'eD%s:%s' % (qn(e.class_name), hx(e.field_name or ''))
        if t is ParseError:
            return 'eP%s:%s' % (qn(e.class_name), hx(e.field_name or ''))
        if t is MissingFields:
            return 'eM%s:%s' % (qn(e.class_name), '+'.join(hx(x) for x in e.missing_fields))
        if t is UnknownKeysError:
            k = e.unknown_keys
            return 'eU%s:%s' % (qn(e.class_name), hx(k) if isinstance(k, str) else '?')
        if t is ValueError:
            return 'eV'
        if t is IndexError:
            return 'eX'
        if t is AttributeError:
            return 'eA'
        return 'e?' + t.__name__


    # ---- typed operations (values carry their exact Python type; shared annotation objects) ----
    def xvalue(self, v):
        import datetime, decimal, fractions
        t = v['t']
        if t == 'none':
            return None
        if t in ('bool', 'int', 'str'):
            return v['v']
        if t == 'float':
            return float.fromhex(v['v']) if isinstance(v['v'], str) and 'x' in v['v'] else float(v['v'])
        if t == 'Decimal':
            return decimal.Decimal(v['v'])
        if t == 'Fraction':
            return fractions.Fraction(v['v'])
        if t == 'datetime':
            return datetime.datetime.fromisoformat(v['v'])
        if t == 'date':
            return datetime.date.fromisoformat(v['v'])
        if t == 'time':
            return datetime.time.fromisoformat(v['v'])
        if t == 'timedelta':
            return datetime.timedelta(seconds=v['v'])
        if t == 'list':
            return [self.xvalue(x) for x in v['v']]
        raise ValueError('xvalue %r' % (v,))

    def xshow(self, v):
        import datetime, decimal, fractions
        t = type(v)
        if v is None:
            return 'N'
        if t is bool:
            return 'B%d' % v
        if t is int:
            return 'I%d' % v
        if t is float:
            return 'F' + (v.hex() if v == v and v not in (float('inf'), float('-inf')) else repr(v))
        if t is decimal.Decimal:
            return 'M' + str(v)
        if t is fractions.Fraction:
            return 'Q' + str(v)
        if t is str:
            return 'S' + hx(v)
        if t is datetime.datetime:
            return 'T' + v.isoformat()
        if t is datetime.date:
            return 'A' + v.isoformat()
        if t is datetime.time:
            return 'H' + v.isoformat()
        if t is datetime.timedelta:
            return 'W%d_%d_%d' % (v.days, v.seconds, v.microseconds)
        if t is list:
            return 'L[%s]' % ','.join(self.xshow(x) for x in v)
        if t is dict:
            return 'D{%s}' % ','.join('%s:%s' % (hx(str(k)), self.xshow(x)) for k, x in v.items())
        if dataclasses.is_dataclass(v) and t in self.cid_of:
            return 'c%d(%s)' % (self.cid_of[t], ','.join(
                '%s=%s' % (hx(f.name), self.xshow(getattr(v, f.name, '<unset>'))) for f in dataclasses.fields(v)))
        return '?' + t.__name__

    def xann(self, ns, i, f, engine):
        """annotation source text of a typed field; shared Pattern objects are created once per (id, engine)"""
        t = f['t']
        if isinstance(t, dict):
            key = ('pat', t['pat'], engine)
            if key not in self.shared:
                if engine == 'v1':
                    from dataclass_wizard.v1 import Pattern
                else:
                    from dataclass_wizard import Pattern
                self.shared[key] = Pattern(t['fmt'])
            ns['_P%d' % i] = self.shared[key]
            return 'Annotated[%s, _P%d]' % (t['base'], i)
        return {'any': 'Any'}.get(t, t)

    def xdefine(self, o):
        m = self.module(o.get('mod') or 'm')
        name = self.cname(o['qn'])
        self.qn_of_name[name] = o['qn']
        ns = m.__dict__
        exec('from datetime import date, time, timedelta\nfrom decimal import Decimal\n'
             'from dataclass_wizard import json_field\nfrom dataclass_wizard.v1 import Alias as _V1Alias\n', ns)
        engine = o.get('engine') or 'd'
        lines = ['@dataclass', 'class %s%s:' % (name, '(JSONWizard)' if o.get('wiz') else '')]
        for i, f in enumerate(o['fields']):
            ann = self.xann(ns, i, f, engine)
            rhs = ''
            has_d = 'd' in f and f['d'] is not None
            if has_d:
                ns['_D%d' % i] = self.xvalue(f['d'])
            if f.get('al'):
                ns['_A%d' % i] = tuple(f['al'])
                if engine == 'v1':
                    rhs = ' = _V1Alias(load=_A%d%s)' % (i, ', default=_D%d' % i if has_d else '')
                else:
                    rhs = ' = json_field(_A%d, all=True%s)' % (i, ', default=_D%d' % i if has_d else '')
            elif has_d:
                rhs = ' = _D%d' % i
            lines.append('    %s: %s%s' % (f['n'], ann, rhs))
        if not o['fields']:
            lines.append('    pass')
        exec('\n'.join(lines) + '\n', ns)
        cls = ns[name]
        self.classes[o['cid']] = cls
        self.cid_of[cls] = o['cid']
        kw = {}
        if engine == 'v1':
            kw['v1'] = True
            if o.get('case') is not None:
                kw['v1_key_case'] = o['case']
        elif o.get('ltr') is not None:
            kw['key_transform_with_load'] = o['ltr']
        if o.get('unknown') is not None:
            if engine == 'v1':
                kw['v1_on_unknown_key'] = o['unknown']
            else:
                kw['raise_on_unknown_json_key'] = o['unknown'] == 'RAISE'
        if kw:
            from dataclass_wizard import LoadMeta
            LoadMeta(**kw).bind_to(cls)

    def xinst(self, o):
        cls = self.classes[o['cid']]
        obj = object.__new__(cls)
        for k, x in o['f']:
            object.__setattr__(obj, k, self.xvalue(x))
        return obj

    def xoracle(self, o):
        """STDLIB answers the Coq model takes as oracle tables (the calls type_conv.as_datetime / as_date / as_time and the
        generated pattern_to_dt make; nothing of dataclass_wizard runs here):  o<typed text> | none | e?<Exception>"""
        import datetime
        fn, kind = o['fn'], o['kind']
        cls = {'datetime': datetime.datetime, 'date': datetime.date, 'time': datetime.time}[kind]
        v = self.xvalue(o['v'])
        try:
            if fn == 'iso':
                try:
                    return 'o' + self.xshow(cls.fromisoformat(v if kind == 'date' else v.replace('Z', '+00:00', 1)))
                except Exception:
                    return 'none'
            if fn == 'fromts':
                return 'o' + self.xshow(cls.fromtimestamp(v, tz=datetime.timezone.utc) if kind == 'datetime' else cls.fromtimestamp(v))
            if fn == 'strp':
                try:
                    dt = datetime.datetime.strptime(v, o['fmt'])
                except ValueError:
                    return 'none'
                return 'o' + self.xshow(dt if kind == 'datetime' else dt.date() if kind == 'date' else dt.time())
        except BaseException as e:  # noqa
            return 'e?' + type(e).__name__
        return 'e?op'

    def show_xerr(self, e):
        from dataclass_wizard.errors import ParseError
        s = self.show_err(e)
        if type(e) is ParseError:
            t = getattr(e, 'ann_type', None)
            s += '@' + (getattr(t, '__name__', None) or type(t).__name__)
        return s

    def run_op(self, o):
        from dataclass_wizard import fromdict, asdict
        try:
            k = o['op']
            if k == 'xoracle':
                return self.xoracle(o)
            if k in ('xdefine', 'xload', 'xdump'):
                try:
                    if k == 'xdefine':
                        self.xdefine(o)
                        return 'd'
                    if k == 'xload':
                        cls = self.classes[o['cid']]
                        doc = {kk: self.xvalue(x) for kk, x in o['doc']}
                        r = cls.from_dict(doc) if o.get('attr') else fromdict(cls, doc)
                        return 'v' + self.xshow(r)
                    inst = self.xinst(o)
                    r = inst.to_dict() if o.get('attr') else asdict(inst)
                    return 'j' + self.xshow(r)
                except BaseException as e:  # noqa
                    return self.show_xerr(e)
            if k == 'define':
                self.define(o)
                return 'd'
            if k == 'bind':
                self.bind(o)
                return 'd'
            if k == 'load':
                cls = self.classes[o['cid']]
                r = cls.from_dict(o['doc']) if o['attr'] else fromdict(cls, o['doc'])
                return 'v' + self.show_inst(r)
            if k == 'dump':
                inst = self.value(o['inst'])
                r = inst.to_dict() if o['attr'] else asdict(inst)
                return 'j' + self.show_json(r)
            return 'e?op'
        except BaseException as e:  # noqa
            return self.show_err(e)


def run_job(job):
    j = Job(job['salt'])
    return [j.run_op(o) for o in job['ops']]


def run_forked(job):
    """the job in a forked child of THIS interpreter (library imported, nothing defined, nothing loaded): the
    child's tables, annotation objects and any process-wide memo are pristine, whatever other jobs did"""
    import json
    r, w = os.pipe()
    pid = os.fork()
    if pid == 0:
        code = 1
        try:
            os.close(r)
            data = json.dumps(run_job(job)).encode()
            with os.fdopen(w, 'wb') as f:
                f.write(data)
            code = 0
        finally:
            os._exit(code)
    os.close(w)
    with os.fdopen(r, 'rb') as f:
        data = f.read()
    _, status = os.waitpid(pid, 0)
    if status != 0 or not data:
        raise RuntimeError('forked job %s failed (status %s)' % (job['salt'], status))
    return json.loads(data)


def handler(p):
    """optional key "fork": true runs every job in a forked child of its own (new; default: all jobs in this interpreter)"""
    if p.get('fork'):
        import dataclass_wizard, dataclass_wizard.v1, decimal, fractions, datetime  # noqa: imported BEFORE forking, never used here
        return {'results': [run_forked(job) for job in p['jobs']]}
    return {'results': [run_job(job) for job in p['jobs']]}


if __name__ == '__main__':
    main(handler)
