"""Implementation runner for C06 / C07 (call-history independence, isolation of classes).

stdin:  {"jobs": [{"salt": str, "ops": [op, ...]}, ...]}
stdout: {"results": [[outcome text, ...], ...]}          one list per job, one text per op

Every job builds its own classes (fresh class objects, names salted with the job's
salt, each in a synthetic module) and executes its operations in order in THIS
interpreter.  Jobs batched into one interpreter never share a class object, a class
name or a nested dataclass (the caller guarantees distinct salts).

Operations (JSON):
  {"op":"define","cid":3,"qn":3,"mod":"a","wiz":true,"base":1|null,"inner":meta|null,
   "own_fields":[[name,"int"|"str"|{"nested":cid},default|null],...]}
  {"op":"bind","cid":3,"meta":meta}
  {"op":"load","cid":3,"attr":bool,"doc":{...}}
  {"op":"dump","attr":bool,"inst":value}
meta  = {"ltr":"CAMEL"|..|null,"dtr":..,"raise":bool|null,"skipdef":bool|null,"rec":bool|null}
        extended (direct predicate only, not in the Coq model): "auto_tags":bool, "tag_key":str,
        "marshal":"TIMESTAMP"|"ISO_FORMAT", "skip_if":{"obj":id,"cond":[name,arg?]},
        "jk2f":{"obj":id,"map":{json key: field}}   - equal "obj" ids denote the SAME Python object
value = null | {"i":int} | {"s":str} | {"b":bool} | {"dt":iso} | {"c":cid,"f":[[name,value],...]}
        | {"sub":{"mixins":[..],"chain":[..],"root":"int"|"str"|"obj"|"list"},"z":int}   (list: items [z, z+1])
value (extended) also {"l":[value,..]} | {"d":[[key,value],..]}
field types: "int" | "str" | {"nested":cid} | extended: "datetime" | "any" | "bool" | "badcond" | "ulit_str" |
        "ulit_int" | "opt_int" | "list_int" | "dict_int" | "catchall" | {"fwd":cid,"qn":qn} (= list['<name>'])"
        (badcond = Annotated[bool, IS_NOT(True)]: a bare Condition, the dump setup of the class raises)

Outcome text (same syntax as coq/model/StateShow.v; classes named by cid in values, by
qualname number in errors):
  d | v<inst> | j<json> | eP<qn>:<hexfield> | eD<qn>:<hexfield> | eM<qn>:<hex>+<hex> | eU<qn>:<hexkey> | eV | eX | eA | e?<TypeName>
"""
import sys, os, types, logging, dataclasses
sys.path.insert(0, os.path.dirname(os.path.abspath(__file__)))
from _util import main

logging.disable(logging.CRITICAL)

META_KEYS = [('ltr', 'key_transform_with_load'), ('dtr', 'key_transform_with_dump'),
             ('raise', 'raise_on_unknown_json_key'), ('skipdef', 'skip_defaults'), ('rec', 'recursive'),
             ('auto_tags', 'auto_assign_tags'), ('tag_key', 'tag_key'), ('marshal', 'marshal_date_time_as'),
             ('skip_if', 'skip_if'), ('jk2f', 'json_key_to_field'), ('v1', 'v1'), ('v1_case', 'v1_key_case')]
ANN = {'int': 'int', 'str': 'str', 'datetime': 'datetime', 'any': 'Any', 'bool': 'bool',
       'badcond': 'Annotated[bool, IS_NOT(True)]',
       'ulit_str': "Union[Literal['fast', 'slow'], str]", 'ulit_int': 'Union[Literal[1, 2], int]',
       'opt_int': 'Optional[int]', 'list_int': 'list[int]', 'dict_int': 'dict[str, int]', 'catchall': 'CatchAll'}


def hx(s):
    return s.encode('utf-8').hex()


class Job:
    def __init__(self, salt):
        self.salt = salt
        self.classes = {}      # cid -> class
        self.cid_of = {}       # class -> cid
        self.qn_of_name = {}   # class __qualname__ -> qn
        self.mods = {}
        self.vtypes = {}
        self.shared = {}       # object id -> the one Python object (dict / Condition) it denotes

    def module(self, key):
        if key not in self.mods:
            name = 'dwv_%s_%s' % (self.salt, key)
            m = types.ModuleType(name)
            sys.modules[name] = m
            exec('from dataclasses import dataclass\nfrom datetime import datetime\n'
                 'from typing import Any, Annotated, Union, Literal, Optional\n'
                 'from dataclass_wizard import JSONWizard, IS_NOT, CatchAll\n', m.__dict__)
            self.mods[key] = m
        return self.mods[key]

    def meta_value(self, k, v):
        """Python value of a Meta setting; shared objects are created once per id"""
        if k == 'jk2f':
            if v['obj'] not in self.shared:
                self.shared[v['obj']] = dict(v['map'])
            return self.shared[v['obj']]
        if k == 'skip_if':
            if v['obj'] not in self.shared:
                import dataclass_wizard as dw
                name, *arg = v['cond']
                self.shared[v['obj']] = getattr(dw, name)(*arg)
            return self.shared[v['obj']]
        return v

    def cname(self, qn):
        return 'Q%s_%d' % (self.salt, qn)

    # ---- operations ----
    def define(self, o):
        m = self.module(o.get('mod') or 'm')
        name = self.cname(o['qn'])
        self.qn_of_name[name] = o['qn']
        ns = m.__dict__
        if o.get('base') is not None:
            ns['_B'] = self.classes[o['base']]
            bases = '(_B)'
        elif o['wiz']:
            bases = '(JSONWizard)'
        else:
            bases = ''
        lines = ['@dataclass', 'class %s%s:' % (name, bases)]
        if o.get('inner') is not None:
            lines.append('    class _(JSONWizard.Meta):')
            body = []
            for k, attr in META_KEYS:
                if o['inner'].get(k) is not None:
                    ns['_MV_%s' % k] = self.meta_value(k, o['inner'][k])
                    body.append('        %s = _MV_%s' % (attr, k))
            lines.extend(body or ['        pass'])
        for i, (fname, fty, dflt) in enumerate(o['own_fields']):
            if isinstance(fty, dict) and 'fwd' in fty:
                # forward reference (by name, inside a container) to a class of this module defined LATER
                ann = "list['%s']" % self.cname(fty['qn'])
            elif isinstance(fty, dict):
                ns['_N%d' % i] = self.classes[fty['nested']]
                ann = '_N%d' % i
            else:
                ann = ANN[fty]
            lines.append('    %s: %s%s' % (fname, ann, '' if dflt is None else ' = %r' % (dflt,)))
        if len(lines) == 2:
            lines.append('    pass')
        exec('\n'.join(lines) + '\n', ns)
        cls = ns[name]
        self.classes[o['cid']] = cls
        self.cid_of[cls] = o['cid']

    def bind(self, o):
        from dataclass_wizard import LoadMeta
        kw = {attr: self.meta_value(k, o['meta'][k]) for k, attr in META_KEYS if o['meta'].get(k) is not None}
        LoadMeta(**kw).bind_to(self.classes[o['cid']])

    def vtype(self, t):
        mixins, chain, root = tuple(t.get('mixins') or ()), tuple(t['chain']), t['root']
        key = (mixins, chain, root)
        if key not in self.vtypes:
            if mixins:
                bases = tuple(self.vtype({'mixins': [], 'chain': [m], 'root': 'obj'}) for m in mixins)
                if chain:
                    bases += (self.vtype({'mixins': [], 'chain': list(chain), 'root': root}),)
                elif root != 'obj':
                    bases += ({'int': int, 'str': str, 'list': list}[root],)
            elif not chain:
                raise ValueError('empty type')
            elif len(chain) == 1:
                if root == 'obj':
                    class _O:
                        z = '?'

                        def __str__(self):
                            return 'obj%s' % (self.z,)
                    bases = (_O,)
                else:
                    bases = ({'int': int, 'str': str, 'list': list}[root],)
            else:
                bases = (self.vtype({'mixins': [], 'chain': list(chain[1:]), 'root': root}),)
            name = 'V%s_%s_%s_%s' % (self.salt, 'm'.join(map(str, mixins)), '_'.join(map(str, chain)), root)
            self.vtypes[key] = type(name, bases, {})
        return self.vtypes[key]

    def value(self, v):
        if v is None:
            return None
        if 'i' in v:
            return v['i']
        if 's' in v:
            return v['s']
        if 'b' in v:
            return v['b']
        if 'l' in v:
            return [self.value(x) for x in v['l']]
        if 'd' in v:
            return {k: self.value(x) for k, x in v['d']}
        if 'dt' in v:
            import datetime
            return datetime.datetime.fromisoformat(v['dt'])
        if 'sub' in v:
            t = self.vtype(v['sub'])
            root = v['sub']['root']
            x = t([v['z'], v['z'] + 1]) if root == 'list' else t(str(v['z'])) if root == 'str' else t(v['z']) if root == 'int' else t()
            x.z = v['z']
            return x
        cls = self.classes[v['c']]
        obj = object.__new__(cls)          # like the constructor, without type checks or defaults
        for k, x in v['f']:
            object.__setattr__(obj, k, self.value(x))
        return obj

    # ---- outcome rendering ----
    def show_inst(self, v):
        import datetime
        if v is None:
            return 'n'
        if isinstance(v, bool):
            return 'b%d' % v
        if isinstance(v, int):
            return 'i%d' % v
        if isinstance(v, str):
            return 's' + hx(v)
        if isinstance(v, datetime.datetime):
            return 't' + v.isoformat()
        if isinstance(v, list):
            return 'l[%s]' % ','.join(self.show_inst(x) for x in v)
        if type(v) is dict:
            return 'D{%s}' % ','.join('%s:%s' % (hx(str(k)), self.show_inst(x)) for k, x in v.items())
        if dataclasses.is_dataclass(v) and type(v) in self.cid_of:
            return 'c%d(%s)' % (self.cid_of[type(v)], ','.join(
                '%s=%s' % (hx(f.name), self.show_inst(getattr(v, f.name, '<unset>'))) for f in dataclasses.fields(v)))
        return '?' + type(v).__name__

    def show_json(self, v):
        if v is None:
            return 'n'
        if isinstance(v, bool):
            return 'b%d' % v
        if isinstance(v, list):
            return 'l[%s]' % ','.join(self.show_json(x) for x in v)
        if isinstance(v, int):
            return 'i%d' % v
        if isinstance(v, str):
            return 's' + hx(str.__str__(v))
        if type(v) is dict:
            return '{%s}' % ','.join('%s:%s' % (hx(k), self.show_json(x)) for k, x in v.items())
        return '?' + type(v).__name__

    def show_err(self, e):
        from dataclass_wizard.errors import ParseError, MissingFields, UnknownKeysError, MissingData
        t = type(e)

        def qn(name):
            return str(self.qn_of_name.get(name, '?' + str(name)))
        if t is MissingData:
            return 'eD%s:%s' % (qn(e.class_name), hx(e.field_name or ''))
        if t is ParseError:
            return 'eP%s:%s' % (qn(e.class_name), hx(e.field_name or ''))
        if t is MissingFields:
            return 'eM%s:%s' % (qn(e.class_name), '+'.join(hx(x) for x in e.missing_fields))
        if t is UnknownKeysError:
            k = e.unknown_keys
            return 'eU%s:%s' % (qn(e.class_name), hx(k) if isinstance(k, str) else '?')
        if t is ValueError:
            return 'eV'
        if t is IndexError:
            return 'eX'
        if t is AttributeError:
            return 'eA'
        return 'e?' + t.__name__

    def run_op(self, o):
        from dataclass_wizard import fromdict, asdict
        try:
            k = o['op']
            if k == 'define':
                self.define(o)
                return 'd'
            if k == 'bind':
                self.bind(o)
                return 'd'
            if k == 'load':
                cls = self.classes[o['cid']]
                r = cls.from_dict(o['doc']) if o['attr'] else fromdict(cls, o['doc'])
                return 'v' + self.show_inst(r)
            if k == 'dump':
                inst = self.value(o['inst'])
                r = inst.to_dict() if o['attr'] else asdict(inst)
                return 'j' + self.show_json(r)
            return 'e?op'
        except BaseException as e:  # noqa
            return self.show_err(e)


def handler(p):
    out = []
    for job in p['jobs']:
        j = Job(job['salt'])
        out.append([j.run_op(o) for o in job['ops']])
    return {'results': out}


if __name__ == '__main__':
    main(handler)
