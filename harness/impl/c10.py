"""Implementation runner for C10 (unknown keys).

Payload: {'cases': [ {'cls': <class spec>, 'loads': [doc, doc, ...]} ], 'witness': [...]}
Every case builds its own fresh classes and performs the loads IN ORDER in this interpreter
(the per-class json_to_field cache is shared by the loads of a case: that is the history).

Class spec: {'name', 'engine': 'v0'|'v1', 'raise': bool, 'tag': None | {'tag', 'tag_key'},
             'catch': None | {'name', 'default': bool},
             'fields': [{'name', 'kind': 'int'|'nested', 'default': None|int, 'aliases': [..]|None,
                         'path': [[k1, k2], ...]|None (alternative AliasPaths), 'cls': <class spec (nested)>}]}
(the catch-all field is declared after the required fields, before defaulted ones when it has
no default — see build()).
"""
import sys, os, dataclasses, typing, copy, logging
sys.path.insert(0, os.path.dirname(os.path.abspath(__file__)))
from _util import *

logging.disable(logging.CRITICAL)   # the library warns on every unknown key under the default policy


def py_spelling(sp):
    """a Meta value as the case spells it: {'enum': 'RAISE'} | {'str': s} | {'none': 1} | {'bool': b} | {'int': n}"""
    if 'enum' in sp:
        from dataclass_wizard.v1.enums import KeyAction
        return KeyAction[sp['enum']]
    if 'str' in sp:
        return sp['str']
    if 'bool' in sp:
        return bool(sp['bool'])
    if 'int' in sp:
        return int(sp['int'])
    return None


def op_settings(op):
    kw = dict(op.get('extra') or {})
    if 'action' in op:
        kw['v1_on_unknown_key'] = py_spelling(op['action'])
    if 'raise' in op:
        kw['raise_on_unknown_json_key'] = py_spelling(op['raise'])
    return kw


def declared_fields(spec, registry):
    """(name, type, dataclasses.Field) triples in declaration order: spec['order'] when given, else required fields,
    the CatchAll field without default, defaulted fields, the CatchAll field with default"""
    from dataclass_wizard import CatchAll
    req, opt, by_name = [], [], {}
    for f in spec['fields']:
        if f['kind'] == 'int':
            tp = int
        else:
            tp = build(f['cls'], registry, root=False)
        kw = {}
        if f.get('default') is not None:
            kw['default'] = f['default']
        if spec['engine'] == 'v1' and (f.get('aliases') or f.get('path')):
            from dataclass_wizard.v1 import Alias, AliasPath
            if f.get('path'):
                fld = AliasPath(*['.'.join(p) for p in f['path']], **kw)
            else:
                fld = Alias(*f['aliases'], **kw)
        elif f.get('skip_if') is not None:
            from dataclass_wizard import skip_if_field
            fld = skip_if_field(make_cond(f['skip_if']), **kw)
        else:
            fld = dataclasses.field(**kw)
        (opt if 'default' in kw else req).append((f['name'], tp, fld))
        by_name[f['name']] = (f['name'], tp, fld)
    c = spec.get('catch')
    if c:
        kw = {}
        if c.get('factory'):
            kw['default_factory'] = dict
        elif c['default']:
            kw['default'] = None
        if c.get('skip_if') is not None:
            from dataclass_wizard import skip_if_field
            fld = skip_if_field(make_cond(c['skip_if']), **kw)
        else:
            fld = dataclasses.field(**kw)
        (opt if kw else req).append((c['name'], CatchAll, fld))
        by_name[c['name']] = (c['name'], CatchAll, fld)
    if spec.get('order'):
        return [by_name[n] for n in spec['order']]
    return req + opt


def make_cond(c):
    """{'op': 'EQ', 'val': <JSON value>} -> Condition"""
    import dataclass_wizard as dw
    op = c['op']
    if op in ('IS_TRUTHY', 'IS_FALSY'):
        return getattr(dw, op)()
    return getattr(dw, op)(copy.deepcopy(c['val']))


def build(spec, registry, root=True, bases=()):
    fields = declared_fields(spec, registry)
    binds = spec.get('binds') if root else None
    if binds:
        # the configuration entry points, in order: [JSONPyWizard's implicit DumpMeta], inner Meta, LoadMeta / DumpMeta binds
        from dataclass_wizard import JSONWizard, JSONPyWizard, LoadMeta, DumpMeta
        base = {'plain': None, 'wizard': JSONWizard, 'pywizard': JSONPyWizard}[binds['base']]
        ops = list(binds['ops'])        # in execution order: [implicit (JSONPyWizard)], [inner], load / dump binds
        inner = next((op for op in ops if op['via'] == 'inner'), None)
        if base is not None and inner is not None:
            ops.remove(inner)
            ns = dict(op_settings(inner))
            ns['__qualname__'] = spec['name'] + '._'
            type('_', (JSONWizard.Meta,), ns)            # registers the initializer for the outer class name
        cls = dataclasses.make_dataclass(spec['name'], fields, bases=(base,) if base is not None else ())
        cls.__qualname__ = spec['name']
        registry[spec['name']] = cls
        for op in ops:
            if op['via'] == 'implicit':
                continue                                 # JSONPyWizard's own DumpMeta(key_transform='NONE'), already bound
            (LoadMeta if op['via'] == 'load' else DumpMeta)(**op_settings(op)).bind_to(cls)
        return cls
    cls = dataclasses.make_dataclass(spec['name'], fields, bases=tuple(bases) if root else ())
    cls.__qualname__ = spec['name']
    registry[spec['name']] = cls
    if root:
        from dataclass_wizard import LoadMeta
        mk = {}
        if spec['engine'] == 'v1':
            mk['v1'] = True
            if spec.get('raise'):
                mk['v1_on_unknown_key'] = 'RAISE'
        elif spec.get('raise'):
            mk['raise_on_unknown_json_key'] = True
        if spec.get('tag'):
            mk['tag'] = spec['tag']['tag']
            if spec['tag'].get('tag_key'):
                mk['tag_key'] = spec['tag']['tag_key']
        if mk:
            LoadMeta(**mk).bind_to(cls)
    return cls


def view(inst, spec):
    """canonical view of a loaded instance: every declared field, the catch-all content"""
    if not dataclasses.is_dataclass(inst) or type(inst).__name__ != spec['name']:
        return {'bad': canon(inst)}
    out = {'cls': spec['name'], 'fields': {}, 'catch': None}
    for f in spec['fields']:
        v = getattr(inst, f['name'], '<unset>')
        if f['kind'] == 'nested' and dataclasses.is_dataclass(v):
            out['fields'][f['name']] = view(v, f['cls'])
        else:
            out['fields'][f['name']] = canon(v)
    c = spec.get('catch')
    if c:
        v = getattr(inst, c['name'], '<unset>')
        if v is None:
            out['catch'] = {'default': True}
        elif isinstance(v, dict):
            out['catch'] = {'items': [[k, v[k]] for k in v]}      # raw JSON values, verbatim
        else:
            out['catch'] = {'bad': canon(v)}
    return out


def construct(spec, registry):
    """an instance built directly (no loader involved), every field given explicitly"""
    kw = {}
    for f in spec['fields']:
        kw[f['name']] = construct(f['cls'], registry) if f['kind'] == 'nested' else 5
    c = spec.get('catch')
    if c and not c['default']:
        kw[c['name']] = {}
    return registry[spec['name']](**kw)


def one_load(cls, spec, doc, entry):
    from dataclass_wizard import fromdict, asdict, fromlist
    from dataclass_wizard.errors import UnknownKeysError
    import json
    before = copy.deepcopy(doc)
    try:
        if entry == 'jsonwizard':
            inst = cls.from_dict(doc)
        elif entry == 'from_json':
            inst = cls.from_json(json.dumps(doc))
        elif entry == 'fromlist':
            inst = fromlist(cls, [doc])[0]
        else:
            inst = fromdict(cls, doc)
    except UnknownKeysError as e:
        r = err_info(e)
        uk = e.unknown_keys
        r['unknown_keys'] = [uk] if isinstance(uk, str) else sorted(uk)
        r['unknown_is_str'] = isinstance(uk, str)
        r['input_unchanged'] = (doc == before)
        return r
    except BaseException as e:
        r = err_info(e)
        r['input_unchanged'] = (doc == before)
        return r
    r = {'ok': view(inst, spec), 'input_unchanged': (doc == before)}
    try:
        d = inst.to_dict() if entry in ('jsonwizard', 'from_json') else asdict(inst)
        r['dump'] = d
        json.dumps(d)
    except BaseException as e:
        r['dump_err'] = err_info(e)
    return r


def run_case(case):
    registry = {}
    entry = case.get('entry', 'fromdict')
    try:
        bases = ()
        if entry in ('jsonwizard', 'from_json'):
            from dataclass_wizard import JSONWizard
            bases = (JSONWizard,)
        cls = build(case['cls'], registry, bases=bases)
        pre = case.get('pre') or {}
        if isinstance(pre, str):
            pre = {'dump': pre == 'dump', 'alone': {}}
        for f in case['cls']['fields']:
            if f['kind'] == 'nested' and f['name'] in (pre.get('alone') or {}):
                # history: the nested class is used ALONE first (default engine, its own default policy)
                from dataclass_wizard import fromdict
                try:
                    fromdict(registry[f['cls']['name']], pre['alone'][f['name']])
                except Exception:
                    pass
        if pre.get('dump'):
            # history: the class is DUMPED (instance built by hand) before anything is loaded
            from dataclass_wizard import asdict
            inst = construct(case['cls'], registry)
            inst.to_dict() if bases else asdict(inst)
    except BaseException as e:
        r = err_info(e); r['phase'] = 'setup'
        return [r for _ in case['loads']]
    return [one_load(cls, case['cls'], doc, entry) for doc in case['loads']]


def run_witness(w):
    if w['kind'] == 'F19':
        from dataclass_wizard import JSONWizard
        from dataclass_wizard.v1 import AliasPath

        @dataclasses.dataclass
        class F(JSONWizard):
            class _(JSONWizard.Meta):
                v1 = True
                v1_on_unknown_key = 'RAISE'
            x: int = AliasPath('a.b')
            y: int = AliasPath('a.c')
        r1 = outcome(F.from_dict, {'a': {'b': 1, 'c': 2}, 'zzz': 3})
        r0 = outcome(F.from_dict, {'a': {'b': 1, 'c': 2}})
        return {'accepted_unknown': 'ok' in r1, 'plain_ok': 'ok' in r0, 'r1': r1}
    if w['kind'] == 'F41':
        from dataclass_wizard import fromdict, CatchAll

        @dataclasses.dataclass
        class B:
            my_val: int
            extras: CatchAll = None
        r = outcome(fromdict, B, {'my_val': 1, '<-|CatchAll|->': 5})

        @dataclasses.dataclass
        class A:
            my_val: int
            extras: CatchAll
        try:
            a = fromdict(A, {'my_val': 1, '<-|CatchAll|->': 5})
            dropped = (a.extras != {'<-|CatchAll|->': 5})
        except BaseException as e:
            dropped = True
        # variant c: a class WITHOUT CatchAll that once saw the key (ignore policy) caches marker -> ExplicitNull; the next
        # loader generated for that class (nested under an outer class) crashes with AttributeError
        @dataclasses.dataclass
        class PI:
            a: int

        @dataclasses.dataclass
        class PO:
            inner: PI
        fromdict(PI, {'a': 1, '<-|CatchAll|->': 5})
        r2 = outcome(fromdict, PO, {'inner': {'a': 2}})
        return {'with_default': r, 'no_default_dropped': dropped, 'poisoned': 'ok' not in r2, 'poisoned_outcome': r2}
    if w['kind'] == 'F10alone':
        from dataclass_wizard import fromdict, LoadMeta
        from dataclass_wizard.errors import UnknownKeysError

        @dataclasses.dataclass
        class AInner:
            a: int

        @dataclasses.dataclass
        class AOuter:
            b: int
            inner: AInner
        fromdict(AInner, {'a': 7, 'seen': 3})
        LoadMeta(raise_on_unknown_json_key=True).bind_to(AOuter)
        r_seen = outcome(fromdict, AOuter, {'b': 1, 'inner': {'a': 2, 'seen': 3}})
        r_new = outcome(fromdict, AOuter, {'b': 1, 'inner': {'a': 2, 'bogus': 3}})
        return {'seen_key_accepted': 'ok' in r_seen,
                'unseen_key_rejected': r_new.get('err') == 'UnknownKeysError' and str(r_new.get('class_name')).endswith('AInner')}
    if w['kind'] == 'F91':
        from dataclass_wizard import fromdict, LoadMeta, CatchAll

        @dataclasses.dataclass
        class A91:
            a: int
            b: int = 3
            rest: CatchAll = dataclasses.field(default_factory=dict)
        LoadMeta(v1=True).bind_to(A91)
        r1 = load_outcome(fromdict, A91, {'a': 1, 'zz': 5})
        r2 = load_outcome(fromdict, A91, {'a': 1, 'b': 2})

        @dataclasses.dataclass
        class B91:
            a: int
            rest: CatchAll = dataclasses.field(default_factory=dict)
            b: int = 3
        LoadMeta(v1=True).bind_to(B91)
        r3 = load_outcome(fromdict, B91, {'a': 1, 'b': 2, 'zz': 5})
        return {'mapped_field_changed': 'inst' in r1 and (r1['inst'].b != 3 or r1['inst'].rest != {'zz': 5}),
                'known_doc_rejected': r2.get('err'),
                'factory_first_ok': 'inst' in r3 and r3['inst'].b == 2 and r3['inst'].rest == {'zz': 5}}
    return {'error': 'unknown witness kind'}


def load_outcome(fn, *a):
    from dataclass_wizard.errors import UnknownKeysError
    try:
        return {'inst': fn(*a)}
    except UnknownKeysError as e:
        r = err_info(e)
        uk = e.unknown_keys
        r['unknown_keys'] = [uk] if isinstance(uk, str) else sorted(uk)
        return r
    except BaseException as e:
        return err_info(e)


def run_gen_world(w):
    """region B: ONE class (w['inner']) whose loader is generated several times in this interpreter: alone (root -1) and
    nested under each root of w['roots'] at position plain / list / dict / opt; w['ops'] = [{'root': i, 'docs': [inner docs]}]"""
    import typing
    from dataclass_wizard import fromdict, asdict, LoadMeta
    registry = {}
    out = []
    try:
        inner = w['inner']
        v1 = inner['engine'] == 'v1'
        I = build(inner, registry, root=False)
        if v1:
            LoadMeta(v1=True).bind_to(I)
        roots = []
        for rt in w['roots']:
            tp = {'plain': I, 'list': typing.List[I], 'dict': typing.Dict[str, I], 'opt': typing.Optional[I]}[rt['pos']]
            R = dataclasses.make_dataclass(rt['name'], [('b_val', int), ('inner', tp)])
            R.__qualname__ = rt['name']
            mk = {}
            if v1:
                mk['v1'] = True
                if rt.get('raise'):
                    mk['v1_on_unknown_key'] = 'RAISE'
            elif rt.get('raise'):
                mk['raise_on_unknown_json_key'] = True
            if mk:
                LoadMeta(**mk).bind_to(R)
            roots.append(R)
    except BaseException as e:
        r = err_info(e); r['phase'] = 'setup'
        return [r for _ in w['ops']]
    for op in w['ops']:
        docs = copy.deepcopy(op['docs'])
        if op['root'] < 0:
            r = load_outcome(fromdict, I, docs[0])
            insts = [r['inst']] if 'inst' in r else None
        else:
            rt = w['roots'][op['root']]
            wrapped = {'plain': lambda: docs[0], 'opt': lambda: docs[0], 'list': lambda: list(docs),
                       'dict': lambda: {'k%d' % i: d for i, d in enumerate(docs)}}[rt['pos']]()
            r = load_outcome(fromdict, roots[op['root']], {'b_val': 1, 'inner': wrapped})
            insts = None
            if 'inst' in r:
                x = r['inst'].inner
                insts = [x] if rt['pos'] in ('plain', 'opt') else (list(x) if rt['pos'] == 'list' else list(x.values()))
        if insts is None:
            r['input_unchanged'] = (docs == op['docs'])
            out.append(r)
            continue
        res = {'ok': [view(x, inner) for x in insts], 'input_unchanged': (docs == op['docs']), 'dumps': []}
        for x in insts:
            try:
                res['dumps'].append(asdict(x))
            except BaseException as e:
                res['dumps'].append({'__dump_err__': type(e).__name__})
        out.append(res)
    return out


def run_dump_case(c):
    """region C: one class with a CatchAll field and dump-side settings; load c['doc'], then asdict with each of c['calls']"""
    from dataclass_wizard import fromdict, asdict, LoadMeta, DumpMeta
    registry = {}
    try:
        cls = build(c['cls'], registry, root=False)
        if c['cls']['engine'] == 'v1':
            LoadMeta(v1=True).bind_to(cls)
        mk = {}
        m = c['meta']
        for k in ('skip_if', 'skip_defaults_if'):
            if m.get(k) is not None:
                mk[k] = make_cond(m[k])
        if m.get('skip_defaults') is not None:
            mk['skip_defaults'] = m['skip_defaults']
        if m.get('key_transform') is not None:
            mk['key_transform'] = m['key_transform']
        if mk:
            DumpMeta(**mk).bind_to(cls)
        doc = copy.deepcopy(c['doc'])
        r = load_outcome(fromdict, cls, doc)
    except BaseException as e:
        r = err_info(e); r['phase'] = 'setup'
        return {'load': r, 'calls': []}
    if 'inst' not in r:
        return {'load': r, 'calls': []}
    inst = r['inst']
    out = {'load': {'ok': view(inst, c['cls'])}, 'calls': []}
    for call in c['calls']:
        kw = {}
        if call.get('exclude') is not None:
            kw['exclude'] = list(call['exclude'])
        if call.get('skip_defaults') is not None:
            kw['skip_defaults'] = call['skip_defaults']
        try:
            d = asdict(inst, **kw)
            out['calls'].append({'items': [[k, d[k]] for k in d]})
        except BaseException as e:
            out['calls'].append(err_info(e))
    return out


def handler(p):
    return {'cases': [run_case(c) for c in p.get('cases', [])],
            'witness': [run_witness(w) for w in p.get('witness', [])],
            'gen': [run_gen_world(w) for w in p.get('gen', [])],
            'dump': [run_dump_case(c) for c in p.get('dump', [])]}


if __name__ == '__main__':
    main(handler)
