"""Implementation runner for C10 (unknown keys).

Payload: {'cases': [ {'cls': <class spec>, 'loads': [doc, doc, ...]} ], 'witness': [...]}
Every case builds its own fresh classes and performs the loads IN ORDER in this interpreter
(the per-class json_to_field cache is shared by the loads of a case: that is the history).

Class spec: {'name', 'engine': 'v0'|'v1', 'raise': bool, 'tag': None | {'tag', 'tag_key'},
             'catch': None | {'name', 'default': bool},
             'fields': [{'name', 'kind': 'int'|'nested', 'default': None|int, 'aliases': [..]|None,
                         'path': [[k1, k2], ...]|None (alternative AliasPaths), 'cls': <class spec (nested)>}]}
(the catch-all field is declared after the required fields, before defaulted ones when it has
no default — see build()).
"""
import sys, os, dataclasses, typing, copy, logging
sys.path.insert(0, os.path.dirname(os.path.abspath(__file__)))
from _util import *

logging.disable(logging.CRITICAL)   # the library warns on every unknown key under the default policy


def build(spec, registry, root=True, bases=()):
    from dataclass_wizard import CatchAll
    req, opt = [], []
    for f in spec['fields']:
        if f['kind'] == 'int':
            tp = int
        else:
            tp = build(f['cls'], registry, root=False)
        kw = {}
        if f.get('default') is not None:
            kw['default'] = f['default']
        if spec['engine'] == 'v1' and (f.get('aliases') or f.get('path')):
            from dataclass_wizard.v1 import Alias, AliasPath
            if f.get('path'):
                fld = AliasPath(*['.'.join(p) for p in f['path']], **kw)
            else:
                fld = Alias(*f['aliases'], **kw)
        else:
            fld = dataclasses.field(**kw)
        (opt if 'default' in kw else req).append((f['name'], tp, fld))
    c = spec.get('catch')
    if c:
        if c['default']:
            opt.append((c['name'], CatchAll, dataclasses.field(default=None)))
        else:
            req.append((c['name'], CatchAll, dataclasses.field()))
    cls = dataclasses.make_dataclass(spec['name'], req + opt, bases=tuple(bases) if root else ())
    cls.__qualname__ = spec['name']
    registry[spec['name']] = cls
    if root:
        from dataclass_wizard import LoadMeta
        mk = {}
        if spec['engine'] == 'v1':
            mk['v1'] = True
            if spec.get('raise'):
                mk['v1_on_unknown_key'] = 'RAISE'
        elif spec.get('raise'):
            mk['raise_on_unknown_json_key'] = True
        if spec.get('tag'):
            mk['tag'] = spec['tag']['tag']
            if spec['tag'].get('tag_key'):
                mk['tag_key'] = spec['tag']['tag_key']
        if mk:
            LoadMeta(**mk).bind_to(cls)
    return cls


def view(inst, spec):
    """canonical view of a loaded instance: every declared field, the catch-all content"""
    if not dataclasses.is_dataclass(inst) or type(inst).__name__ != spec['name']:
        return {'bad': canon(inst)}
    out = {'cls': spec['name'], 'fields': {}, 'catch': None}
    for f in spec['fields']:
        v = getattr(inst, f['name'], '<unset>')
        if f['kind'] == 'nested' and dataclasses.is_dataclass(v):
            out['fields'][f['name']] = view(v, f['cls'])
        else:
            out['fields'][f['name']] = canon(v)
    c = spec.get('catch')
    if c:
        v = getattr(inst, c['name'], '<unset>')
        if v is None:
            out['catch'] = {'default': True}
        elif isinstance(v, dict):
            out['catch'] = {'items': [[k, v[k]] for k in v]}      # raw JSON values, verbatim
        else:
            out['catch'] = {'bad': canon(v)}
    return out


def construct(spec, registry):
    """an instance built directly (no loader involved), every field given explicitly"""
    kw = {}
    for f in spec['fields']:
        kw[f['name']] = construct(f['cls'], registry) if f['kind'] == 'nested' else 5
    c = spec.get('catch')
    if c and not c['default']:
        kw[c['name']] = {}
    return registry[spec['name']](**kw)


def one_load(cls, spec, doc, entry):
    from dataclass_wizard import fromdict, asdict, fromlist
    from dataclass_wizard.errors import UnknownKeysError
    import json
    before = copy.deepcopy(doc)
    try:
        if entry == 'jsonwizard':
            inst = cls.from_dict(doc)
        elif entry == 'from_json':
            inst = cls.from_json(json.dumps(doc))
        elif entry == 'fromlist':
            inst = fromlist(cls, [doc])[0]
        else:
            inst = fromdict(cls, doc)
    except UnknownKeysError as e:
        r = err_info(e)
        uk = e.unknown_keys
        r['unknown_keys'] = [uk] if isinstance(uk, str) else sorted(uk)
        r['unknown_is_str'] = isinstance(uk, str)
        r['input_unchanged'] = (doc == before)
        return r
    except BaseException as e:
        r = err_info(e)
        r['input_unchanged'] = (doc == before)
        return r
    r = {'ok': view(inst, spec), 'input_unchanged': (doc == before)}
    try:
        d = inst.to_dict() if entry in ('jsonwizard', 'from_json') else asdict(inst)
        r['dump'] = d
        json.dumps(d)
    except BaseException as e:
        r['dump_err'] = err_info(e)
    return r


def run_case(case):
    registry = {}
    entry = case.get('entry', 'fromdict')
    try:
        bases = ()
        if entry in ('jsonwizard', 'from_json'):
            from dataclass_wizard import JSONWizard
            bases = (JSONWizard,)
        cls = build(case['cls'], registry, bases=bases)
        pre = case.get('pre') or {}
        if isinstance(pre, str):
            pre = {'dump': pre == 'dump', 'alone': {}}
        for f in case['cls']['fields']:
            if f['kind'] == 'nested' and f['name'] in (pre.get('alone') or {}):
                # history: the nested class is used ALONE first (default engine, its own default policy)
                from dataclass_wizard import fromdict
                try:
                    fromdict(registry[f['cls']['name']], pre['alone'][f['name']])
                except Exception:
                    pass
        if pre.get('dump'):
            # history: the class is DUMPED (instance built by hand) before anything is loaded
            from dataclass_wizard import asdict
            inst = construct(case['cls'], registry)
            inst.to_dict() if bases else asdict(inst)
    except BaseException as e:
        r = err_info(e); r['phase'] = 'setup'
        return [r for _ in case['loads']]
    return [one_load(cls, case['cls'], doc, entry) for doc in case['loads']]


def run_witness(w):
    if w['kind'] == 'F19':
        from dataclass_wizard import JSONWizard
        from dataclass_wizard.v1 import AliasPath

        @dataclasses.dataclass
        class F(JSONWizard):
            class _(JSONWizard.Meta):
                v1 = True
                v1_on_unknown_key = 'RAISE'
            x: int = AliasPath('a.b')
            y: int = AliasPath('a.c')
        r1 = outcome(F.from_dict, {'a': {'b': 1, 'c': 2}, 'zzz': 3})
        r0 = outcome(F.from_dict, {'a': {'b': 1, 'c': 2}})
        return {'accepted_unknown': 'ok' in r1, 'plain_ok': 'ok' in r0, 'r1': r1}
    if w['kind'] == 'F41':
        from dataclass_wizard import fromdict, CatchAll

        @dataclasses.dataclass
        class B:
            my_val: int
            extras: CatchAll = None
        r = outcome(fromdict, B, {'my_val': 1, '<-|CatchAll|->': 5})

        @dataclasses.dataclass
        class A:
            my_val: int
            extras: CatchAll
        try:
            a = fromdict(A, {'my_val': 1, '<-|CatchAll|->': 5})
            dropped = (a.extras != {'<-|CatchAll|->': 5})
        except BaseException as e:
            dropped = True
        # variant c: a class WITHOUT CatchAll that once saw the key (ignore policy) caches marker -> ExplicitNull; the next
        # loader generated for that class (nested under an outer class) crashes with AttributeError
        @dataclasses.dataclass
        class PI:
            a: int

        @dataclasses.dataclass
        class PO:
            inner: PI
        fromdict(PI, {'a': 1, '<-|CatchAll|->': 5})
        r2 = outcome(fromdict, PO, {'inner': {'a': 2}})
        return {'with_default': r, 'no_default_dropped': dropped, 'poisoned': 'ok' not in r2, 'poisoned_outcome': r2}
    if w['kind'] == 'F10alone':
        from dataclass_wizard import fromdict, LoadMeta
        from dataclass_wizard.errors import UnknownKeysError

        @dataclasses.dataclass
        class AInner:
            a: int

        @dataclasses.dataclass
        class AOuter:
            b: int
            inner: AInner
        fromdict(AInner, {'a': 7, 'seen': 3})
        LoadMeta(raise_on_unknown_json_key=True).bind_to(AOuter)
        r_seen = outcome(fromdict, AOuter, {'b': 1, 'inner': {'a': 2, 'seen': 3}})
        r_new = outcome(fromdict, AOuter, {'b': 1, 'inner': {'a': 2, 'bogus': 3}})
        return {'seen_key_accepted': 'ok' in r_seen,
                'unseen_key_rejected': r_new.get('err') == 'UnknownKeysError' and str(r_new.get('class_name')).endswith('AInner')}
    return {'error': 'unknown witness kind'}


def handler(p):
    return {'cases': [run_case(c) for c in p.get('cases', [])],
            'witness': [run_witness(w) for w in p.get('witness', [])]}


if __name__ == '__main__':
    main(handler)
