"""Implementation runner for C07: same job protocol as harness/impl/c06.py (family pairs are
ordinary operation histories; same-qualname classes live in the synthetic modules named by the
`mod` key of a define operation)."""
import sys, os
sys.path.insert(0, os.path.dirname(os.path.abspath(__file__)))
from _util import main
from c06 import handler

if __name__ == '__main__':
    main(handler)
