"""Implementation runner for C14 — call HISTORIES (payload kind 'hist').

One item = one class model + a list of histories.  Every history runs on FRESH class objects
(its own module; class names carry a per-history suffix so that nothing keyed by a class name
can connect two histories); the caller runs the pristine references in a separate interpreter.
A history is a list of operations
    ['bind', class index, {'v1': bool, 'recursive': bool}]      LoadMeta(...).bind_to(cls)
    ['load', class index, document tree]                        fromdict(cls, document)
For every load the runner reports the outcome (exception type / MRO, class_name, field_name, obj,
missing names, whether str(e) raised) and the ENGINE that compiled the function fromdict used
(read from CLASS_TO_LOAD_FUNC after the call).  The leaf-oracle queries of the Gallina model are
answered once per item.
"""
import sys, os, copy, traceback
sys.path.insert(0, os.path.join(os.path.dirname(os.path.dirname(os.path.abspath(__file__))), 'props'))
sys.path.insert(0, os.path.dirname(os.path.abspath(__file__)))      # impl/c02.py (the runner), not props/c02.py
from _util import main
import c02gen as G
import c02 as R


def renamed(model, suffix):
    m = copy.deepcopy(model)
    for c in m['classes']:
        c['name'] = c['name'] + suffix
    return m


def engine_of(cls):
    from dataclass_wizard.class_helper import CLASS_TO_LOAD_FUNC
    f = CLASS_TO_LOAD_FUNC.get(cls)
    if f is None:
        return None
    return 'v1' if getattr(f, '__name__', '').startswith('__dataclass_wizard_from_dict') else 'dflt'


def run_history(model, hist, suffix):
    from dataclass_wizard import fromdict, LoadMeta
    out = {'ops': [], 'setup_err': None}
    try:
        m = renamed(model, suffix)
        mod = R.new_module(G.model_source(m))
        classes = [getattr(mod, c['name']) for c in m['classes']]
    except BaseException:  # noqa
        out['setup_err'] = traceback.format_exc()[-1500:]
        return out, None
    for op in hist['ops']:
        try:
            if op[0] == 'bind':
                LoadMeta(**op[2]).bind_to(classes[op[1]])
                out['ops'].append({'bind': True})
            else:
                try:
                    d = R.build(op[2], mod)
                except BaseException as e:  # noqa
                    out['ops'].append({'build_err': '%s: %s' % (type(e).__name__, e)})
                    continue
                r = R.run(fromdict, classes[op[1]], d)
                if 'cls' in r and isinstance(r['cls'], str) and suffix and r['cls'].endswith(suffix):
                    r['cls'] = r['cls'][:-len(suffix)]
                if 'ok' in r:
                    r['ok'] = strip(r['ok'], suffix)
                if 'obj' in r:
                    r['obj'] = strip(r['obj'], suffix)
                r['engine'] = engine_of(classes[op[1]])
                out['ops'].append(r)
        except BaseException:  # noqa
            out['ops'].append({'op_err': traceback.format_exc()[-800:]})
    return out, mod


def strip(tree, suffix):
    """class names inside loaded values: remove the per-history suffix"""
    if not suffix:
        return tree
    if isinstance(tree, list):
        if len(tree) == 3 and tree[0] == 'C' and isinstance(tree[1], str) and tree[1].endswith(suffix):
            return ['C', tree[1][:-len(suffix)], strip(tree[2], suffix)]
        return [strip(x, suffix) for x in tree]
    return tree


def do_item(item):
    model = item['model']
    res = {'histories': [], 'oracle': [], 'keys': None, 'setup_err': None}
    try:
        res['keys'] = R.field_keys(model)
    except BaseException:  # noqa
        res['setup_err'] = traceback.format_exc()[-1500:]
        return res
    model['_keys'] = res['keys']
    pairs, last_mod = {}, None
    for hi, hist in enumerate(item['histories']):
        suffix = hist.get('suffix', '_h%d' % hi)
        r, mod = run_history(model, hist, suffix)
        res['histories'].append(r)
        last_mod = mod or last_mod
        if item.get('oracle'):
            for op in hist['ops']:
                if op[0] == 'load':
                    try:
                        G.walk_class(op[1], op[2], model, pairs)
                    except BaseException:  # noqa
                        pass
    if item.get('oracle'):
        for l, o, v in pairs.values():
            res['oracle'].append([l, o, v, R.oracle_answer(l, o, v, last_mod)])
    del model['_keys']
    return res


def handler(p):
    out = []
    for it in p['items']:
        try:
            out.append(do_item(it))
        except BaseException:  # noqa
            out.append({'setup_err': 'runner: %s' % traceback.format_exc()[-2000:], 'histories': []})
    return {'items': out}


if __name__ == '__main__':
    main(handler)
