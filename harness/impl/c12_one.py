"""C12 — one configuration, one interpreter.  Reads a configuration (JSON on stdin),
defines the classes from generated source, performs the probes and prints canonical
outcomes (JSON).  Started by harness/impl/c12.py once per configuration, because the
cascade writes global tables (per-class loaders/dumpers, alias tables)."""
import sys, os, json
sys.path.insert(0, os.path.dirname(os.path.abspath(__file__)))
from _util import canon, err_info

COND = {'EQ', 'NE', 'LT', 'LE', 'GT', 'GE', 'IS', 'IS_NOT', 'IS_TRUTHY', 'IS_FALSY'}


def val_src(v):
    if isinstance(v, dict) and 'cond' in v:
        assert v['cond'] in COND
        return '%s(%s)' % (v['cond'], '' if v['cond'] in ('IS_TRUTHY', 'IS_FALSY') else repr(v['val']))
    return repr(v)


def class_src(name, fields, meta, style, engine):
    """fields: list of (name, type source, default source or None)."""
    base = '(JSONWizard)' if style == 'inner' else ''
    out = ['@dataclass', 'class %s%s:' % (name, base)]
    if style == 'inner' and meta is not None:
        out.append('    class _(JSONWizard.Meta):')
        body = ['        %s = %s' % (k, val_src(v)) for k, v in meta.items()]
        out.extend(body or ['        pass'])
    for f, t, d in fields:
        out.append('    %s: %s%s' % (f, t, '' if d is None else ' = ' + d))
    src = '\n'.join(out) + '\n'
    if style == 'func' and meta is not None:
        fn = 'DumpMeta' if engine == 'dump' else 'LoadMeta'
        src += '%s(%s).bind_to(%s)\n' % (fn, ', '.join('%s=%s' % (k, val_src(v)) for k, v in meta.items()), name)
    return src


PRE = '''from dataclasses import dataclass, field
from datetime import datetime, timezone
from typing import Union, Optional, List, Dict, Tuple, Any
from dataclass_wizard import JSONWizard, LoadMeta, DumpMeta, fromdict, asdict, CatchAll
from dataclass_wizard.models import EQ, NE, LT, LE, GT, GE, IS, IS_NOT, IS_TRUTHY, IS_FALSY
WHEN = datetime(2021, 5, 6, 7, 8, 9, tzinfo=timezone.utc)
WHEN0 = datetime(2000, 1, 1, tzinfo=timezone.utc)
'''

BASIC = [('my_val', 'int', '0'), ('when', 'datetime', 'WHEN0'), ('dflt', 'int', '5'), ('a3', 'int', '1'), ('b4', 'int', '1')]


def type_src(shape, leaf):
    """shape: outermost first, entries 'opt','list','dict','tuple','vtuple','union','mid'."""
    if not shape:
        return leaf
    h, rest = shape[0], shape[1:]
    if h in ('anylist', 'any', 'anydict'):
        # the nested class is reachable BY VALUE only: the annotation does not mention it
        return {'anylist': 'list', 'any': 'Any', 'anydict': 'Dict[str, Any]'}[h]
    inner = 'M%d' % len(rest) if h == 'mid' else type_src(rest, leaf)
    return {'opt': 'Optional[%s]', 'list': 'List[%s]', 'dict': 'Dict[str, %s]', 'tuple': 'Tuple[%s, int]',
            'vtuple': 'Tuple[%s, ...]', 'union': 'Union[%s, int, str]', 'mid': '%s'}[h] % inner


def build_source(cfg):
    eng, style = cfg['engine'], cfg['style']
    src = PRE
    nf = list(BASIC)
    if cfg.get('catchall'):
        nf.append(('extra', 'CatchAll', 'None'))
    if cfg['probe'] == 'union':
        src += class_src('UA', [('x', 'int', '0')], None, 'func', eng)
        src += class_src('UB', [('x', 'int', '0')], None, 'func', eng)
        nf.append(('u', 'Union[UA, UB, None]', 'None'))
    src += class_src('N', nf, cfg.get('nested'), style, eng)
    # intermediate classes, innermost first
    shape = cfg['shape']
    for i in range(len(shape) - 1, -1, -1):
        if shape[i] == 'mid':
            rest = shape[i + 1:]
            src += class_src('M%d' % len(rest), [('inner', type_src(rest, 'N'), None), ('my_val', 'int', '0')],
                             cfg.get('mid'), style, eng)
    steps = cfg.get('root_steps')
    src += class_src('R', [('n', type_src(shape, 'N'), None), ('my_val', 'int', '0'), ('when', 'datetime', 'WHEN0'),
                           ('dflt', 'int', '5')], steps['part1'] if steps else cfg.get('root'), style, eng)
    if str(cfg.get('history', 'none')).startswith('other_root'):
        # a second root class that reaches the same nested class directly, with its own Meta
        src += class_src('R2', [('n', 'N', None), ('my_val', 'int', '0')], cfg.get('other'), style, eng)
    return src


def wrap(shape, leaf, mk_mid):
    """Wrap a nested document / instance by the shape."""
    if not shape:
        return leaf
    h, rest = shape[0], shape[1:]
    inner = wrap(rest, leaf, mk_mid)
    if h == 'mid':
        return mk_mid(len(rest), inner)
    return {'opt': lambda x: x, 'list': lambda x: [x], 'dict': lambda x: {'k': x}, 'tuple': lambda x: (x, 1),
            'vtuple': lambda x: (x,), 'union': lambda x: x, 'anylist': lambda x: [x], 'any': lambda x: x,
            'anydict': lambda x: {'k': x}}[h](inner)


def unwrap(shape, v, get_inner):
    for h in shape:
        if h == 'mid':
            v = get_inner(v)
        elif h in ('list', 'tuple', 'vtuple', 'anylist'):
            v = v[0]
        elif h in ('dict', 'anydict'):
            v = v['k']
    return v


class MyDict(dict):
    pass


def retype(v, kind):
    """Rebuild a JSON document with every dict replaced by a dict subclass."""
    import collections
    if isinstance(v, dict):
        items = [(k, retype(x, kind)) for k, x in v.items()]
        if kind == 'OrderedDict':
            return collections.OrderedDict(items)
        if kind == 'defaultdict':
            return collections.defaultdict(None, items)      # no default factory: missing keys raise KeyError
        if kind == 'subclass':
            return MyDict(items)
        return dict(items)
    if isinstance(v, list):
        return [retype(x, kind) for x in v]
    return v


def run_history(cfg, ns, out):
    """Uses of the nested class BEFORE the root is used for the first time."""
    from dataclass_wizard import fromdict, asdict
    h = cfg.get('history', 'none')
    if h == 'none':
        return
    N = ns['N']
    kw = dict(my_val=7, when=ns['WHEN'], dflt=5, a3=3, b4=4)
    if cfg.get('catchall'):
        kw['extra'] = {'zzz': 1}
    if cfg['probe'] == 'union':
        kw['u'] = ns['UB'](x=1)
    try:
        if h == 'nested_dump':
            asdict(N(**kw))
        elif h == 'nested_load':
            fromdict(N, {'my_val': 1})
        elif h == 'other_root_dump':
            asdict(ns['R2'](n=N(**kw), my_val=7))
        elif h == 'other_root_load':
            fromdict(ns['R2'], {'n': {'my_val': 1}})
        out['history'] = 'ok'
    except BaseException as e:  # noqa
        out['history'] = err_info(e)


def main():
    cfg = json.load(sys.stdin)
    out = {'setup': None, 'results': []}
    src = build_source(cfg)
    out['source'] = src
    ns = {'__name__': 'c12_case'}
    try:
        exec(compile(src, '<c12>', 'exec'), ns)
    except BaseException as e:  # noqa
        out['setup'] = err_info(e)
        json.dump(out, sys.stdout)
        return
    from dataclass_wizard import fromdict, asdict
    R, N = ns['R'], ns['N']
    shape = cfg['shape']
    run_history(cfg, ns, out)
    steps = cfg.get('root_steps')
    if steps:
        # the root is configured in several steps: first part at definition, then the root is USED with the other
        # engine, then the rest is bound (LoadMeta / DumpMeta .bind_to merges into the registered Meta in place)
        kw0 = dict(my_val=7, when=ns['WHEN'], dflt=5, a3=3, b4=4)
        if cfg['probe'] == 'union':
            kw0['u'] = ns['UB'](x=1)
        try:
            if cfg['engine'] == 'dump':
                full = {'n': wrap(shape, steps['pre_doc'], lambda k, inner: {'inner': inner})}
                fromdict(R, json.loads(json.dumps(full)))
            else:
                asdict(R(my_val=7, when=ns['WHEN'], dflt=5,
                         n=wrap(shape, N(**kw0), lambda k, inner: ns['M%d' % k](my_val=7, inner=inner))))
            out['pre_use'] = 'ok'
        except BaseException as e:  # noqa
            out['pre_use'] = err_info(e)
        fn = 'DumpMeta' if cfg['engine'] == 'dump' else 'LoadMeta'
        try:
            exec('%s(%s).bind_to(R)' % (fn, ', '.join('%s=%s' % (k, val_src(v)) for k, v in steps['part2'].items())), ns)
        except BaseException as e:  # noqa
            out['setup'] = err_info(e)
            json.dump(out, sys.stdout)
            return
    if cfg['engine'] == 'dump':
        kw = dict(my_val=7, when=ns['WHEN'], dflt=5, a3=3, b4=4)
        if cfg.get('catchall'):
            kw['extra'] = {'zzz': 1}
        if cfg['probe'] == 'union':
            kw['u'] = ns['UB'](x=1)
        try:
            inst = R(my_val=7, when=ns['WHEN'], dflt=5,
                     n=wrap(shape, N(**kw), lambda k, inner: ns['M%d' % k](my_val=7, inner=inner)))
            d = asdict(inst)
            nested = unwrap(shape, d[[k for k in d if k.lower().replace('_', '') == 'n'][0]],
                            lambda m: m[[k for k in m if k.lower() == 'inner'][0]])
            out['results'].append({'ok': {'root': canon({k: v for k, v in d.items() if k.lower() != 'n'}),
                                          'nested': canon(nested)}})
        except BaseException as e:  # noqa
            out['results'].append(err_info(e))
    else:
        for doc in cfg['docs']:
            try:
                full = {'n': wrap(shape, doc, lambda k, inner: {'inner': inner})}
                # tuples arrive as lists in JSON documents
                full = retype(json.loads(json.dumps(full)), cfg.get('doc_type', 'dict'))
                r = fromdict(R, full)
                nested = unwrap(shape, r.n, lambda m: m.inner)
                out['results'].append({'ok': canon(nested), 'is_N': type(nested) is N})
            except BaseException as e:  # noqa
                out['results'].append(err_info(e))
    json.dump(out, sys.stdout)


if __name__ == '__main__':
    main()
