"""Implementation runner for C04 (documented coercions on load; default engine, v1, EnvWizard).

payload: {'cases': [{'ty': <type descriptor>, 'val': <JSON value>, 'engines': ['v0','v1','env']}],
          'units': {'as_list': [str], 'as_dict': [str]}}
Type descriptors: 'str' 'int' 'float' 'bool' 'bytes' 'datetime' 'date' 'time' 'timedelta' 'decimal'
'enum:Color' 'enum:Num' | ['opt', t] | ['list', t] | ['tupv', t] | ['tup', [t...]] | ['dict', 'str'|'int', t].
Outcomes are encoded exactly like CoerceModel.show_res (see enc())."""
import sys, os, dataclasses, enum, typing, datetime, decimal
sys.path.insert(0, os.path.dirname(os.path.abspath(__file__)))
from _util import *


class Color(enum.Enum):
    RED = 'red'
    BLUE = 'Blue'
    EMPTY = ''


class Num(enum.Enum):
    ZERO = 0
    ONE = 1
    TWO = 2


SCALARS = {'str': str, 'int': int, 'float': float, 'bool': bool, 'bytes': bytes, 'datetime': datetime.datetime,
           'date': datetime.date, 'time': datetime.time, 'timedelta': datetime.timedelta,
           'decimal': decimal.Decimal, 'enum:Color': Color, 'enum:Num': Num}


def mk_type(d):
    if isinstance(d, str):
        return SCALARS[d]
    k = d[0]
    if k == 'opt':
        return typing.Optional[mk_type(d[1])]
    if k == 'list':
        return typing.List[mk_type(d[1])]
    if k == 'tupv':
        return typing.Tuple[mk_type(d[1]), ...]
    if k == 'tup':
        return typing.Tuple[tuple(mk_type(x) for x in d[1])]
    if k == 'dict':
        return typing.Dict[SCALARS[d[1]], mk_type(d[2])]
    raise ValueError(d)


def enc_float(f):
    if f != f:
        return 'nan'
    if f in (float('inf'), float('-inf')):
        return 'inf' if f > 0 else '-inf'
    n, d = f.as_integer_ratio()
    e = -(d.bit_length() - 1)
    if n == 0:
        return '0p0'
    while n % 2 == 0:
        n //= 2
        e += 1
    return '%dp%d' % (n, e)


def hx(s):
    return (s.encode('utf-8', 'surrogateescape') if isinstance(s, str) else bytes(s)).hex()


def enc(v):
    t = type(v)
    if v is None:
        return 'N'
    if t is bool:
        return 'B1' if v else 'B0'
    if t is int:
        return 'I%d;' % v
    if t is float:
        return 'F%s;' % enc_float(v)
    if t is str:
        return 'S%s;' % hx(v)
    if t is bytes:
        return 'Y%s;' % hx(v)
    if t is list:
        return 'L[%s]' % ''.join(enc(x) for x in v)
    if t is tuple:
        return 'T[%s]' % ''.join(enc(x) for x in v)
    if t is dict:
        return 'D[%s]' % ''.join(enc(k) + enc(x) for k, x in v.items())
    if t is datetime.datetime:
        return 'Pdt%s;' % hx(v.isoformat())
    if t is datetime.date:
        return 'Pd%s;' % hx(v.isoformat())
    if t is datetime.time:
        return 'Pt%s;' % hx(v.isoformat())
    if t is datetime.timedelta:
        return 'Ptd%s;' % hx('%d,%d,%d' % (v.days, v.seconds, v.microseconds))
    if t is decimal.Decimal:
        return 'Pdec%s;' % hx(str(v))
    if isinstance(v, enum.Enum):
        return 'M%s;' % hx(v.name)
    return 'U%s:%s;' % (t.__name__, hx(repr(v)[:80]))


_cls = {}
_n = [0]


def get_cls(tyd, eng):
    key = (repr(tyd), eng)
    if key in _cls:
        return _cls[key]
    _n[0] += 1
    tp = mk_type(tyd)
    if eng == 'env':
        from dataclass_wizard import EnvWizard
        cls = type('E%d' % _n[0], (EnvWizard,), {'__annotations__': {'c04v': tp}})
    else:
        from dataclass_wizard import LoadMeta
        cls = dataclasses.make_dataclass('K%d' % _n[0], [('c04v', tp)])
        if eng == 'v1':
            LoadMeta(v1=True).bind_to(cls)
    _cls[key] = cls
    return cls


def kind(e):
    """Error class of the model (CoerceModel.err) for an exception."""
    from dataclass_wizard.errors import ParseError
    if isinstance(e, ParseError):
        be = getattr(e, 'base_error', None)
        return 'P' + (kind(be) if isinstance(be, BaseException) and not isinstance(be, ParseError) else 'EX')
    if isinstance(e, OverflowError):
        return 'EO'
    if isinstance(e, TypeError):
        return 'ET'
    if isinstance(e, ValueError):
        return 'EV'
    return 'EX'


def run_one(tyd, val, eng):
    from dataclass_wizard import fromdict
    try:
        cls = get_cls(tyd, eng)
    except BaseException as e:  # generation of the loader failed
        d = err_info(e)
        d['phase'] = 'setup'
        return d
    try:
        if eng == 'env':
            if isinstance(val, str):
                os.environ['C04V'] = val
                try:
                    r = cls(_reload=True).c04v
                finally:
                    del os.environ['C04V']
            else:
                r = cls(c04v=val).c04v
        else:
            r = fromdict(cls, {'c04v': val}).c04v
        return {'ok': enc(r)}
    except BaseException as e:
        d = err_info(e)
        be = getattr(e, 'base_error', None)
        d['base'] = type(be).__name__ if be is not None else None
        d['kind'] = kind(e)
        return d


def h_units(u):
    from dataclass_wizard.utils.type_conv import as_list, as_dict
    out = {'as_list': [], 'as_dict': []}
    for s in u.get('as_list', []):
        try:
            out['as_list'].append({'ok': enc(as_list(s))})
        except BaseException as e:
            out['as_list'].append({'err': type(e).__name__})
    for s in u.get('as_dict', []):
        try:
            out['as_dict'].append({'ok': enc(as_dict(s))})
        except BaseException as e:
            out['as_dict'].append({'err': type(e).__name__})
    return out


def handler(p):
    res = []
    for c in p.get('cases', []):
        res.append({eng: run_one(c['ty'], c['val'], eng) for eng in c['engines']})
    return {'cases': res, 'units': h_units(p.get('units', {})),
            'tz': os.environ.get('TZ'), 'py': list(sys.version_info[:3])}


if __name__ == '__main__':
    main(handler)
