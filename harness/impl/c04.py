"""Implementation runner for C04 (documented coercions on load; default engine, v1, EnvWizard).

payload: {'cases': [{'ty': <type descriptor>, 'val': <JSON value>, 'engines': ['v0','v1','env']}],
          'units': {'as_list': [str], 'as_dict': [str]}}
Type descriptors: 'str' 'int' 'float' 'bool' 'bytes' 'datetime' 'date' 'time' 'timedelta' 'decimal'
'enum:Color' 'enum:Num' 'enum:SColor' (str-mixin Enum) 'enum:Mode' (StrEnum) 'uuid'
| ['opt', t] | ['list', t] | ['tupv', t] | ['tup', [t...]] | ['dict', k, t] (k any scalar)
| ['ddict', k, t] defaultdict | ['odict', k, t] OrderedDict | ['set'|'fset'|'deque'|'seq'|'mseq'|'coll', t]
| ['td', total, [[key, t, 'req'|'opt'|None]...]] TypedDict | ['nt', [[field, t, has_default]...]] NamedTuple
| ['dc', [[field, t]...]] nested dataclass | ['union', [t...]] | ['ann', t] Annotated[t, ...].
A JSON value {'__pairs__': [[k, v]...]} stands for a dict with arbitrarily typed keys.
Outcomes are encoded exactly like CoerceModel.show_res (see enc()); 'ok_sorted' is the same with dict
items and set elements sorted (TypedDict key order is not part of the property)."""
import sys, os, dataclasses, enum, typing, datetime, decimal, collections, uuid
sys.path.insert(0, os.path.dirname(os.path.abspath(__file__)))
from _util import *


from c04_types import *
import c04_types


SCALARS = {'uuid': uuid.UUID, 'str': str, 'int': int, 'float': float, 'bool': bool, 'bytes': bytes, 'datetime': datetime.datetime,
           'date': datetime.date, 'time': datetime.time, 'timedelta': datetime.timedelta,
           'decimal': decimal.Decimal}
SCALARS.update(c04_types.ENUM_CLASSES)
SCALARS.update(c04_types.SUB_CLASSES)


_gen = [0]
_types = {}


_eng = ['v0']     # generated classes (TypedDict / NamedTuple / nested dataclass) are never shared between
                  # engines: the library caches one loader per nested class (state leak = C07's business)


def mk_type(d):
    if isinstance(d, str):
        return SCALARS[d]
    key = (_eng[0], repr(d))
    if key in _types:
        return _types[key]
    _types[key] = t = _mk_type(d)
    return t


def _mk_type(d):
    k = d[0]
    if k == 'opt':
        return typing.Optional[mk_type(d[1])]
    if k == 'list':
        return typing.List[mk_type(d[1])]
    if k == 'tupv':
        return typing.Tuple[mk_type(d[1]), ...]
    if k == 'tup':
        return typing.Tuple[tuple(mk_type(x) for x in d[1])]
    if k == 'dict':
        return typing.Dict[mk_type(d[1]), mk_type(d[2])]
    if k == 'ddict':
        return typing.DefaultDict[mk_type(d[1]), mk_type(d[2])]
    if k == 'odict':
        return typing.OrderedDict[mk_type(d[1]), mk_type(d[2])]
    if k in ('set', 'fset', 'deque', 'seq', 'mseq', 'coll'):
        gen = {'set': typing.Set, 'fset': typing.FrozenSet, 'deque': typing.Deque, 'seq': typing.Sequence,
               'mseq': typing.MutableSequence, 'coll': typing.Collection}[k]
        return gen[mk_type(d[1])]
    if k == 'union':
        return typing.Union[tuple(mk_type(x) for x in d[1])]
    if k == 'ann':
        return typing.Annotated[mk_type(d[1]), 'c04-metadata']
    _gen[0] += 1
    if k == 'td':
        ann = {}
        for name, t, flag in d[2]:
            tp = mk_type(t)
            if flag == 'req':
                tp = typing.Required[tp]
            elif flag == 'opt':
                tp = typing.NotRequired[tp]
            ann[name] = tp
        return typing.TypedDict('TD%d' % _gen[0], ann, total=bool(d[1]))
    if k == 'nt':
        return _named_tuple('NT%d' % _gen[0], d[1])
    if k == 'dc':
        return dataclasses.make_dataclass('DC%d' % _gen[0], [(name, mk_type(t)) for name, t in d[1]])
    raise ValueError(d)


def _named_tuple(name, fields):
    src = ['class %s(typing.NamedTuple):' % name]
    env = {'typing': typing}
    for i, (f, t, has_default) in enumerate(fields):
        env['_t%d' % i] = mk_type(t)
        src.append('    %s: _t%d%s' % (f, i, ' = None' if has_default else ''))
    exec('\n'.join(src), env)
    return env[name]


def decode_val(v):
    """{'__pairs__': [[k, v]...]} -> dict with arbitrarily typed keys"""
    if isinstance(v, list):
        return [decode_val(x) for x in v]
    if isinstance(v, dict):
        if set(v) == {'__pairs__'}:
            return {decode_val(k) if not isinstance(k, list) else tuple(k): decode_val(x) for k, x in v['__pairs__']}
        return {k: decode_val(x) for k, x in v.items()}
    return v


def enc_float(f):
    if f != f:
        return 'nan'
    if f in (float('inf'), float('-inf')):
        return 'inf' if f > 0 else '-inf'
    n, d = f.as_integer_ratio()
    e = -(d.bit_length() - 1)
    if n == 0:
        return '0p0'
    while n % 2 == 0:
        n //= 2
        e += 1
    return '%dp%d' % (n, e)


def hx(s):
    return (s.encode('utf-8', 'surrogateescape') if isinstance(s, str) else bytes(s)).hex()


def enc(v, sort=False):
    t = type(v)
    if v is None:
        return 'N'
    if t is bool:
        return 'B1' if v else 'B0'
    if isinstance(v, enum.Enum):
        return 'M%s;' % hx(c04_types.enum_name(v))
    for base in (c04_types.BASES if t not in c04_types.BASES else ()):
        if isinstance(v, base):
            # instance of a user subclass: class name + the value as the base type sees it
            return 'X%s:%s' % (hx(t.__name__), enc_base(base, v))
    return enc_base(t, v, sort)


def enc_base(t, v, sort=False):
    if t is int:
        return 'I%d;' % int(v)
    if t is float:
        return 'F%s;' % enc_float(float(v))
    if t is str:
        return 'S%s;' % hx(str.__str__(v))
    if t is bytes:
        return 'Y%s;' % hx(v)
    if t is list:
        return 'L[%s]' % ''.join(enc(x, sort) for x in v)
    if t is tuple:
        return 'T[%s]' % ''.join(enc(x, sort) for x in v)
    if t in (dict, collections.defaultdict, collections.OrderedDict):
        items = [enc(k, sort) + enc(x, sort) for k, x in v.items()]
        tag = {dict: 'D', collections.defaultdict: 'DD', collections.OrderedDict: 'OD'}[t]
        return '%s[%s]' % (tag, ''.join(sorted(items) if sort else items))
    if t in (set, frozenset):
        return '%s{%s}' % ('Z' if t is set else 'FZ', ''.join(sorted(enc(x, sort) for x in v)))
    if t is collections.deque:
        return 'Q[%s]' % ''.join(enc(x, sort) for x in v)
    if t is datetime.datetime:
        return 'Pdt%s;' % hx(v.isoformat())
    if t is datetime.date:
        return 'Pd%s;' % hx(v.isoformat())
    if t is datetime.time:
        return 'Pt%s;' % hx(v.isoformat())
    if t is datetime.timedelta:
        return 'Ptd%s;' % hx('%d,%d,%d' % (v.days, v.seconds, v.microseconds))
    if t is decimal.Decimal:
        return 'Pdec%s;' % hx(str(v))
    if t is uuid.UUID:
        return 'Pu%s;' % hx(str(v))
    if isinstance(v, tuple) and hasattr(v, '_fields'):
        return 'NT[%s]' % ''.join(enc(x, sort) for x in v)
    if dataclasses.is_dataclass(v):
        return 'DC[%s]' % ''.join(enc(getattr(v, f.name), sort) for f in dataclasses.fields(v))
    return 'U%s:%s;' % (t.__name__, hx(repr(v)[:80]))


_cls = {}
_n = [0]


def root_fields(tyd):
    """['root', [[name, t]...]]: the ROOT class itself has several fields (one generated load function for all)"""
    if isinstance(tyd, list) and tyd and tyd[0] == 'root':
        return [(n, t) for n, t in tyd[1]]
    return [('c04v', tyd)]


def get_cls(tyd, eng):
    key = (repr(tyd), eng)
    if key in _cls:
        return _cls[key]
    _n[0] += 1
    _eng[0] = eng
    fields = [(n, mk_type(t)) for n, t in root_fields(tyd)]
    if eng == 'env':
        from dataclass_wizard import EnvWizard
        cls = type('E%d' % _n[0], (EnvWizard,), {'__annotations__': dict(fields)})
    else:
        from dataclass_wizard import LoadMeta
        cls = dataclasses.make_dataclass('K%d' % _n[0], fields)
        if eng == 'v1':
            LoadMeta(v1=True).bind_to(cls)
    _cls[key] = cls
    return cls


def kind(e):
    """Error class of the model (CoerceModel.err) for an exception."""
    from dataclass_wizard.errors import ParseError
    if isinstance(e, ParseError):
        be = getattr(e, 'base_error', None)
        return 'P' + (kind(be) if isinstance(be, BaseException) and not isinstance(be, ParseError) else 'EX')
    if isinstance(e, OverflowError):
        return 'EO'
    if isinstance(e, TypeError):
        return 'ET'
    if isinstance(e, ValueError):
        return 'EV'
    return 'EX'


def run_one(tyd, val, eng):
    from dataclass_wizard import fromdict
    val = decode_val(val)
    multi = isinstance(tyd, list) and tyd and tyd[0] == 'root'
    names = [n for n, _ in root_fields(tyd)]
    doc = val if multi else {'c04v': val}
    try:
        cls = get_cls(tyd, eng)
    except BaseException as e:  # generation of the loader failed
        d = err_info(e)
        d['phase'] = 'setup'
        return d
    try:
        if eng == 'env':
            envv = {n.upper(): x for n, x in doc.items() if isinstance(x, str)}
            kw = {n: x for n, x in doc.items() if not isinstance(x, str)}
            os.environ.update(envv)
            try:
                inst = cls(_reload=True, **kw)
            finally:
                for k in envv:
                    del os.environ[k]
        else:
            inst = fromdict(cls, dict(doc))
        r = [getattr(inst, n) for n in names]
        if multi:
            return {'ok': 'DC[%s]' % ''.join(enc(x) for x in r), 'ok_sorted': 'DC[%s]' % ''.join(enc(x, True) for x in r)}
        return {'ok': enc(r[0]), 'ok_sorted': enc(r[0], True)}
    except BaseException as e:
        d = err_info(e)
        be = getattr(e, 'base_error', None)
        d['base'] = type(be).__name__ if be is not None else None
        d['kind'] = kind(e)
        return d


def h_units(u):
    from dataclass_wizard.utils.type_conv import as_list, as_dict
    out = {'as_list': [], 'as_dict': []}
    for s in u.get('as_list', []):
        try:
            out['as_list'].append({'ok': enc(as_list(s))})
        except BaseException as e:
            out['as_list'].append({'err': type(e).__name__})
    for s in u.get('as_dict', []):
        try:
            out['as_dict'].append({'ok': enc(as_dict(s))})
        except BaseException as e:
            out['as_dict'].append({'err': type(e).__name__})
    return out


def handler(p):
    res = []
    for c in p.get('cases', []):
        res.append({eng: run_one(c['ty'], c['val'], eng) for eng in c['engines']})
    return {'cases': res, 'units': h_units(p.get('units', {})),
            'tz': os.environ.get('TZ'), 'py': list(sys.version_info[:3])}


if __name__ == '__main__':
    main(handler)
