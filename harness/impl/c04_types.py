"""Annotation zoo for C04: user subclasses of the builtin leaf types and the kinds of Enum classes.
Imported by the implementation runner and (for the reference, which only calls the classes
themselves: `EnumCls(v)`, `SubCls(...)`) by harness/props/c04.py.  Does not import the library."""
import enum, datetime, decimal, uuid


class Color(enum.Enum):
    RED = 'red'
    BLUE = 'Blue'
    EMPTY = ''


class Num(enum.Enum):
    ZERO = 0
    ONE = 1
    TWO = 2


class SColor(str, enum.Enum):
    SRED = 'red'
    SBLUE = 'Blue'


class Mode(enum.StrEnum):
    FAST = 'fast'
    SLOW = 'Slow'


class Prio(enum.IntEnum):
    LOW = 1
    HIGH = 2


class Perm(enum.Flag):
    X = 1
    W = 2
    R = 4


class IPerm(enum.IntFlag):
    IX = 1
    IW = 2
    IR = 4


class Fuzzy(enum.Enum):
    """resolves unknown spellings in _missing_ (case-insensitive)"""
    ALPHA = 'alpha'
    BETA = 'beta'

    @classmethod
    def _missing_(cls, value):
        if isinstance(value, str):
            for m in cls:
                if m.value == value.lower():
                    return m
        return None


class Boxed(enum.Enum):
    """members with unhashable values (JSON arrays / objects)"""
    PAIR = [1, 2]
    ONE = [3]
    OBJ = {'k': 1}


class Alias(enum.Enum):
    FIRST = 1
    SECOND = 2
    UNO = 1          # alias of FIRST


class Auto(enum.Enum):
    A1 = enum.auto()
    A2 = enum.auto()
    A3 = enum.auto()


class MyDT(datetime.datetime):
    pass


class MyDate(datetime.date):
    pass


class MyTime(datetime.time):
    pass


class MyTD(datetime.timedelta):
    pass


class MyDec(decimal.Decimal):
    pass


class MyStr(str):
    pass


class MyInt(int):
    pass


class MyFloat(float):
    pass


ENUM_CLASSES = {'enum:Color': Color, 'enum:Num': Num, 'enum:SColor': SColor, 'enum:Mode': Mode, 'enum:Prio': Prio,
                'enum:Perm': Perm, 'enum:IPerm': IPerm, 'enum:Fuzzy': Fuzzy, 'enum:Boxed': Boxed, 'enum:Alias': Alias,
                'enum:Auto': Auto}
SUB_CLASSES = {'sub:datetime': MyDT, 'sub:date': MyDate, 'sub:time': MyTime, 'sub:timedelta': MyTD,
               'sub:decimal': MyDec, 'sub:str': MyStr, 'sub:int': MyInt, 'sub:float': MyFloat}
SUB_BASE = {'sub:datetime': 'datetime', 'sub:date': 'date', 'sub:time': 'time', 'sub:timedelta': 'timedelta',
            'sub:decimal': 'decimal', 'sub:str': 'str', 'sub:int': 'int', 'sub:float': 'float'}
BASES = [datetime.datetime, datetime.date, datetime.time, datetime.timedelta, decimal.Decimal, str, int, float]


def enum_name(m):
    """member name; composite Flag values have names like 'W|R' (Python >= 3.11)"""
    return m.name if m.name is not None else 'value=%r' % (m.value,)
