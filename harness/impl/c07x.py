"""Implementation runner for the C07 family-pair check (second runner, harness/props/c07.py `fam_*`).

stdin:  {"jobs": [{"salt": str, "ops": [op, ...]}, ...]}
stdout: {"results": [[outcome text, ...], ...]}          one list per job, one text per op

EVERY JOB RUNS IN A PROCESS OF ITS OWN whose library state is pristine: this runner imports
dataclass_wizard once (no class of any job exists yet, every module-level table is empty) and then
forks one child per job; the child executes the job's operations in order, writes the outcome texts to
a pipe and exits.  Nothing a job does (Meta objects handed out by LoadMeta, loader classes created on a
miss, parsers memoised by type ...) can therefore reach another job - whatever the library memoises,
and wherever.

Operations (JSON) - a superset of harness/impl/c06.py:
  {"op":"define","cid":3,"qn":3,"mod":"a","kind":"plain"|"wiz"|"pywiz","key_case":null|"CAMEL"|..,
   "inner":meta|null,"lmix":null|{"int":k}|{"str":"p"}|{},"dmix":null|{"int":k}|{"str":"p"}|{},
   "fields":[[name,type,default|null],...]}
       kind   plain = @dataclass, wiz = (JSONWizard), pywiz = (JSONPyWizard)
       lmix   the class also subclasses LoadMixin and overrides load_to_int (value * k) / load_to_str ('p' + value)
       dmix   the class also subclasses DumpMixin and overrides dump_with_int (value + k) / dump_with_str (value + 'p')
       type   "int" | "str" | {"nested":cid} | {"list":cid} (= list[N]) | "self" (= Optional['<own name>'], default None)
              | the extended leaf types of c06 (datetime, any, bool, opt_int, list_int, dict_int)
  {"op":"bind","cid":3,"via":"load"|"dump","meta":meta}        LoadMeta(**kw).bind_to(cls) / DumpMeta(**kw).bind_to(cls)
  {"op":"reghook","cid":3,"side":"load"|"dump","ty":"int"|"str","k":..}   cls.register_load_hook / register_dump_hook
                                                               (cls subclasses the mixin); the hook multiplies / prefixes like lmix
  {"op":"load","cid":3,"attr":bool,"doc":{...}}
  {"op":"dump","attr":bool,"inst":value}
meta  = {"ltr","dtr","raise","skipdef","rec","rc"(recursive_classes), "auto_tags","tag_key","marshal","skip_if","jk2f","v1","v1_case"}
        (absent / null = not set); "skip_if":{"obj":id,"cond":[name,arg?]}, "jk2f":{"obj":id,"map":{..}}: equal ids = the SAME object
value = null | {"i":int} | {"s":str} | {"b":bool} | {"dt":iso} | {"l":[value..]} | {"c":cid,"f":[[name,value],...]}

Outcome text: the syntax of coq/model/FamShow.v / StateShow.v
  d | v<inst> | j<json> | eP<qn>:<hexfield> | eD<qn>:<hexfield> | eM<qn>:<hex>+<hex> | eU<qn>:<hexkey> | eV | eX | eA | eR<qn> | e?<TypeName>
"""
import sys, os, types, logging, dataclasses, json, traceback
sys.path.insert(0, os.path.dirname(os.path.abspath(__file__)))
from _util import main

logging.disable(logging.CRITICAL)

META_KEYS = [('ltr', 'key_transform_with_load'), ('dtr', 'key_transform_with_dump'),
             ('raise', 'raise_on_unknown_json_key'), ('skipdef', 'skip_defaults'), ('rec', 'recursive'),
             ('rc', 'recursive_classes'),
             ('auto_tags', 'auto_assign_tags'), ('tag_key', 'tag_key'), ('marshal', 'marshal_date_time_as'),
             ('skip_if', 'skip_if'), ('jk2f', 'json_key_to_field'), ('v1', 'v1'), ('v1_case', 'v1_key_case')]
ANN = {'int': 'int', 'str': 'str', 'datetime': 'datetime', 'any': 'Any', 'bool': 'bool',
       'opt_int': 'Optional[int]', 'list_int': 'list[int]', 'dict_int': 'dict[str, int]'}


def hx(s):
    return s.encode('utf-8').hex()


class Job:
    def __init__(self, salt):
        self.salt = salt
        self.classes = {}
        self.cid_of = {}
        self.qn_of_name = {}
        self.mods = {}
        self.shared = {}

    def module(self, key):
        if key not in self.mods:
            name = 'dwf_%s_%s' % (self.salt, key)
            m = types.ModuleType(name)
            sys.modules[name] = m
            exec('from dataclasses import dataclass\nfrom datetime import datetime\n'
                 'from typing import Any, Union, Optional, List\n'
                 'from dataclass_wizard import JSONWizard, JSONPyWizard, LoadMixin, DumpMixin\n', m.__dict__)
            self.mods[key] = m
        return self.mods[key]

    def meta_value(self, k, v):
        if k == 'jk2f':
            if v['obj'] not in self.shared:
                self.shared[v['obj']] = dict(v['map'])
            return self.shared[v['obj']]
        if k == 'skip_if':
            if v['obj'] not in self.shared:
                import dataclass_wizard as dw
                name, *arg = v['cond']
                self.shared[v['obj']] = getattr(dw, name)(*arg)
            return self.shared[v['obj']]
        return v

    def cname(self, qn):
        return 'Q%s_%d' % (self.salt, qn)

    @staticmethod
    def hook_lines(prefix_load, spec, indent='    '):
        """method definitions of an overriding mixin class"""
        out = []
        if prefix_load:
            if 'int' in spec:
                out += ['def load_to_int(o, base_type):', '    return base_type(o) * %d' % spec['int']]
            if 'str' in spec:
                out += ['def load_to_str(o, base_type):', '    return %r + str(o)' % spec['str']]
        else:
            if 'int' in spec:
                out += ['def dump_with_int(o, *_):', '    return o + %d' % spec['int']]
            if 'str' in spec:
                out += ['def dump_with_str(o, *_):', '    return o + %r' % spec['str']]
        return [indent + x for x in out]

    def define(self, o):
        m = self.module(o.get('mod') or 'm')
        name = self.cname(o['qn'])
        self.qn_of_name[name] = o['qn']
        ns = m.__dict__
        kind = o.get('kind') or ('wiz' if o.get('wiz') else 'plain')
        bases = []
        if kind == 'wiz':
            bases.append('JSONWizard')
        elif kind == 'pywiz':
            bases.append('JSONPyWizard')
        if o.get('lmix') is not None:
            bases.append('LoadMixin')
        if o.get('dmix') is not None:
            bases.append('DumpMixin')
        if o.get('key_case') is not None:
            bases.append('key_case=%r' % o['key_case'])
        lines = ['@dataclass', 'class %s%s:' % (name, '(%s)' % ', '.join(bases) if bases else '')]
        if o.get('inner') is not None:
            lines.append('    class _(JSONWizard.Meta):')
            body = []
            for k, attr in META_KEYS:
                if o['inner'].get(k) is not None:
                    ns['_MV_%s' % k] = self.meta_value(k, o['inner'][k])
                    body.append('        %s = _MV_%s' % (attr, k))
            lines.extend(body or ['        pass'])
        if o.get('lmix'):
            lines.extend(self.hook_lines(True, o['lmix']))
        if o.get('dmix'):
            lines.extend(self.hook_lines(False, o['dmix']))
        nfields = 0
        for i, (fname, fty, dflt) in enumerate(o['fields']):
            if fty == 'self':
                ann, dflt_src = "Optional['%s']" % name, ' = None'
            elif isinstance(fty, dict) and 'list' in fty:
                ns['_N%d' % i] = self.classes[fty['list']]
                ann, dflt_src = 'List[_N%d]' % i, ''
            elif isinstance(fty, dict):
                ns['_N%d' % i] = self.classes[fty['nested']]
                ann, dflt_src = '_N%d' % i, ''
            else:
                ann, dflt_src = ANN[fty], ('' if dflt is None else ' = %r' % (dflt,))
            lines.append('    %s: %s%s' % (fname, ann, dflt_src))
            nfields += 1
        if nfields == 0 and len(lines) == 2:
            lines.append('    pass')
        exec('\n'.join(lines) + '\n', ns)
        cls = ns[name]
        self.classes[o['cid']] = cls
        self.cid_of[cls] = o['cid']

    def bind(self, o):
        from dataclass_wizard import LoadMeta, DumpMeta
        kw = {attr: self.meta_value(k, o['meta'][k]) for k, attr in META_KEYS if o['meta'].get(k) is not None}
        (DumpMeta if o.get('via') == 'dump' else LoadMeta)(**kw).bind_to(self.classes[o['cid']])

    def reghook(self, o):
        cls = self.classes[o['cid']]
        k = o['k']
        if o['side'] == 'load':
            if o['ty'] == 'int':
                cls.register_load_hook(int, lambda v, base_type, _k=k: base_type(v) * _k)
            else:
                cls.register_load_hook(str, lambda v, base_type, _k=k: _k + str(v))
        else:
            if o['ty'] == 'int':
                cls.register_dump_hook(int, lambda v, *_, _k=k: v + _k)
            else:
                cls.register_dump_hook(str, lambda v, *_, _k=k: v + _k)

    def value(self, v):
        if v is None:
            return None
        if 'i' in v:
            return v['i']
        if 's' in v:
            return v['s']
        if 'b' in v:
            return v['b']
        if 'l' in v:
            return [self.value(x) for x in v['l']]
        if 'dt' in v:
            import datetime
            return datetime.datetime.fromisoformat(v['dt'])
        cls = self.classes[v['c']]
        obj = object.__new__(cls)
        for k, x in v['f']:
            object.__setattr__(obj, k, self.value(x))
        return obj

    def show_inst(self, v):
        import datetime
        if v is None:
            return 'n'
        if isinstance(v, bool):
            return 'b%d' % v
        if isinstance(v, int):
            return 'i%d' % v
        if isinstance(v, str):
            return 's' + hx(v)
        if isinstance(v, datetime.datetime):
            return 't' + v.isoformat()
        if isinstance(v, list):
            return 'l[%s]' % ','.join(self.show_inst(x) for x in v)
        if type(v) is dict:
            return 'D{%s}' % ','.join('%s:%s' % (hx(str(k)), self.show_inst(x)) for k, x in v.items())
        if dataclasses.is_dataclass(v) and type(v) in self.cid_of:
            return 'c%d(%s)' % (self.cid_of[type(v)], ','.join(
                '%s=%s' % (hx(f.name), self.show_inst(getattr(v, f.name, '<unset>'))) for f in dataclasses.fields(v)))
        return '?' + type(v).__name__

    def show_json(self, v):
        if v is None:
            return 'n'
        if isinstance(v, bool):
            return 'b%d' % v
        if isinstance(v, list):
            return 'l[%s]' % ','.join(self.show_json(x) for x in v)
        if isinstance(v, int):
            return 'i%d' % v
        if isinstance(v, str):
            return 's' + hx(str.__str__(v))
        if type(v) is dict:
            return '{%s}' % ','.join('%s:%s' % (hx(k), self.show_json(x)) for k, x in v.items())
        return '?' + type(v).__name__

    def show_err(self, e):
        from dataclass_wizard.errors import ParseError, MissingFields, UnknownKeysError, MissingData, RecursiveClassError
        t = type(e)

        def qn(name):
            return str(self.qn_of_name.get(name, '?' + str(name)))
        if t is MissingData:
            return 'eD%s:%s' % (qn(e.class_name), hx(e.field_name or ''))
        if t is ParseError:
            return 'eP%s:%s' % (qn(e.class_name), hx(e.field_name or ''))
        if t is MissingFields:
            return 'eM%s:%s' % (qn(e.class_name), '+'.join(hx(x) for x in e.missing_fields))
        if t is UnknownKeysError:
            k = e.unknown_keys
            return 'eU%s:%s' % (qn(e.class_name), hx(k) if isinstance(k, str) else '?')
        if t is RecursiveClassError:
            return 'eR%s' % qn(e.class_name)
        if t is ValueError:
            return 'eV'
        if t is IndexError:
            return 'eX'
        if t is AttributeError:
            return 'eA'
        return 'e?' + t.__name__

    def run_op(self, o):
        from dataclass_wizard import fromdict, asdict
        try:
            k = o['op']
            if k == 'define':
                self.define(o)
                return 'd'
            if k == 'bind':
                self.bind(o)
                return 'd'
            if k == 'reghook':
                self.reghook(o)
                return 'd'
            if k == 'load':
                cls = self.classes[o['cid']]
                r = cls.from_dict(o['doc']) if o['attr'] else fromdict(cls, o['doc'])
                return 'v' + self.show_inst(r)
            if k == 'dump':
                inst = self.value(o['inst'])
                r = inst.to_dict() if o['attr'] else asdict(inst)
                return 'j' + self.show_json(r)
            return 'e?op'
        except BaseException as e:  # noqa
            if os.environ.get('C07X_TRACE'):
                traceback.print_exc()
            return self.show_err(e)


def run_job_forked(job):
    r, w = os.pipe()
    pid = os.fork()
    if pid == 0:
        code = 0
        try:
            os.close(r)
            j = Job(job['salt'])
            out = [j.run_op(o) for o in job['ops']]
            with os.fdopen(w, 'w') as f:
                f.write(json.dumps(out))
        except BaseException:  # noqa
            traceback.print_exc()
            code = 1
        finally:
            os._exit(code)
    os.close(w)
    with os.fdopen(r) as f:
        data = f.read()
    _, status = os.waitpid(pid, 0)
    if status != 0 or not data:
        raise RuntimeError('job %s: child failed (status %s)' % (job['salt'], status))
    return json.loads(data)


def handler(p):
    import dataclass_wizard  # noqa: pristine library state, shared by every fork
    from dataclass_wizard import errors  # noqa
    sys.stdout.flush()
    return {'results': [run_job_forked(job) for job in p['jobs']]}


if __name__ == '__main__':
    main(handler)
