"""Implementation runner for C01 (dump-then-load is the identity, default engine, every text format).
For each generated class model x conforming instance x key transform it evaluates the direct
predicates on the real library:
  fromdict(asdict(x)) == x   (and same concrete types, via the canonical text)
  from_json(to_json(x)) == x, from_list(list_to_json([x, x])) == [x, x]       (JSONWizard roots)
  from_json_file(to_json_file(x)), from_yaml(to_yaml(x)), from_toml(to_toml(x))  where the payload is
  carryable by the format (decided by the format library itself: parse(print(d)) == d)
and prepares the model run: Gallina terms of the instance and its type, and the oracle table for
the dumped document.  It also audits the stdlib leaf laws the Coq theorem assumes (leaf_ok)."""
import sys, os, json, copy, tempfile, datetime, decimal, uuid, pathlib, traceback, dataclasses, collections, enum
sys.path.insert(0, os.path.dirname(os.path.abspath(__file__)))
from _util import main, err_info
import core_rt as rt
import c05 as c05rt


def tokens_of(o, acc):
    if rt.tok_kind(o):
        acc.append(o)
    elif isinstance(o, dict):
        for k, v in o.items():
            tokens_of(k, acc); tokens_of(v, acc)
    elif isinstance(o, (list, tuple, set, frozenset, collections.deque)):
        for x in o:
            tokens_of(x, acc)
    elif dataclasses.is_dataclass(o) and not isinstance(o, type):
        for f in dataclasses.fields(o):
            tokens_of(getattr(o, f.name), acc)


def leaf_law(o):
    """The stdlib inverse undoes the stdlib printer (hypothesis leaf_ok of the Coq theorem)."""
    k = rt.tok_kind(o)
    try:
        if k == 'uuid': return uuid.UUID(o.hex) == o
        if k == 'decimal': return str(decimal.Decimal(str(o))) == str(o)
        if k == 'path': return pathlib.Path(str(o)) == o
        if k == 'date': return datetime.date.fromisoformat(o.isoformat()) == o
        if k == 'datetime':
            s = o.isoformat()
            r = datetime.datetime.fromisoformat(s)
            return 'Z' not in s and r == o and r.utcoffset() == o.utcoffset() and r.isoformat() == s
        if k == 'time':
            s = o.isoformat()
            r = datetime.time.fromisoformat(s)
            return 'Z' not in s and r == o and r.isoformat() == s
        if k == 'timedelta':
            import pytimeparse
            s = str(o)
            return datetime.timedelta(seconds=pytimeparse.parse(s)) == o
    except Exception:
        return False
    return True


def same(a, b, reg):
    """Equal and of the same concrete types everywhere."""
    try:
        eq = (a == b)
    except Exception:
        eq = False
    sa, sb = rt.show(a, reg, sort_sets='dicts'), rt.show(b, reg, sort_sets='dicts')   # == ignores set and dict order
    return sa == sb and (eq or 'D6e616e;' in sa)   # nan != nan


def attempt(fn):
    try:
        return {'val': fn()}
    except BaseException as e:
        try:
            msg = str(e)[:200]
        except BaseException:       # rendering a library error can itself fail (C14's subject, not C01's)
            msg = '<unrenderable>'
        return {'err': type(e).__name__, 'msg': msg}


def run_case(c):
    from dataclass_wizard import asdict, fromdict
    rt.fresh_typing_caches()
    reg = rt.Reg()
    out = {}
    try:
        cls = rt.build_type(c['root'], reg)
        meta = {}
        if c['cfg'].get('xf'): meta['key_transform_with_dump'] = c['cfg']['xf']
        if c['cfg'].get('auto_tags'): meta['auto_assign_tags'] = True
        if c['cfg'].get('tag_key'): meta['tag_key'] = c['cfg']['tag_key']
        rt.bind_meta(cls, meta)
        x = rt.build_value(c['value'], reg)
        out['coq_t'] = rt.coq_ty(c['root'], reg)
        out['f56'] = rt.has_f56(cls)
    except BaseException as e:
        out['setup_err'] = err_info(e); out['setup_err']['tb'] = traceback.format_exc()[-800:]
        return out
    out['coq_v'] = rt.coq_pv(x, reg, old=False)
    out['lets'] = reg.lets
    out['alias_reordered'] = reg.alias_reordered
    out['show_x'] = rt.show(x, reg)
    out['classes'] = ['c%d' % info['id'] for cl, info in reg.info.items() if info['kind'] == 'data']
    toks = []
    tokens_of(x, toks)
    out['leaf_bad'] = sorted({rt.tok_kind(t) for t in toks if not leaf_law(t)})
    bases = c['root'].get('bases', [])
    res = {}
    # history: nested dataclass instances are dumped on their own BEFORE the first dump of the owner
    if c.get('pre_dump'):
        for m in rt.nested_instances(x):
            r0 = attempt(lambda: asdict(m))
            if 'err' in r0:
                out['pre_dump_err'] = r0
    # 1. dict round trip ---------------------------------------------------------------
    d = attempt(lambda: asdict(x))
    if 'err' in d:
        out['dump_err'] = d
        return out
    d = d['val']
    try:
        out['tbl'] = c05rt.oracle_table(d, c05rt.kinds_of(c['root']), reg)
    except Exception as e:
        out['tbl_err'] = repr(e)[:200]
    r = attempt(lambda: fromdict(cls, copy.deepcopy(d)))
    res['dict'] = {'ok': 'val' in r and same(r['val'], x, reg), 'detail': r.get('err') or (rt.show(r['val'], reg)[:20000] if 'val' in r else None)}
    # 2. JSON text ------------------------------------------------------------------------
    carry_json = attempt(lambda: json.dumps(d))
    out['json_carryable'] = 'val' in carry_json and c.get('json_keys_ok', True)
    if out['json_carryable'] and 'JSONWizard' in bases:
        r = attempt(lambda: cls.from_json(x.to_json()))
        res['json'] = {'ok': 'val' in r and same(r['val'], x, reg), 'detail': r.get('err') or (rt.show(r['val'], reg)[:20000] if 'val' in r else None)}
        r = attempt(lambda: cls.from_list(json.loads(cls.list_to_json([x, x]))))
        res['list'] = {'ok': 'val' in r and isinstance(r['val'], list) and len(r['val']) == 2 and all(same(y, x, reg) for y in r['val']),
                       'detail': r.get('err')}
        r = attempt(lambda: cls.from_json(cls.list_to_json([x])))
        res['json_list'] = {'ok': 'val' in r and isinstance(r['val'], list) and len(r['val']) == 1 and same(r['val'][0], x, reg), 'detail': r.get('err')}
    if out['json_carryable'] and 'JSONFileWizard' in bases:
        def file_rt():
            fd, path = tempfile.mkstemp(suffix='.json')
            os.close(fd)
            try:
                x.to_json_file(path)
                return cls.from_json_file(path)
            finally:
                os.unlink(path)
        r = attempt(file_rt)
        res['json_file'] = {'ok': 'val' in r and same(r['val'], x, reg), 'detail': r.get('err')}
    # 3. YAML / TOML: carryable iff the format library itself carries the payload -----------------
    if 'YAMLWizard' in bases:
        import yaml
        carry = attempt(lambda: yaml.safe_load(yaml.dump(d)))
        out['yaml_carryable'] = 'val' in carry and rt.show(carry['val'], reg, sort_sets='dicts') == rt.show(d, reg, sort_sets='dicts') and c.get('json_keys_ok', True)
        if out['yaml_carryable']:
            r = attempt(lambda: cls.from_yaml(x.to_yaml()))
            res['yaml'] = {'ok': 'val' in r and same(r['val'], x, reg), 'detail': r.get('err') or (rt.show(r['val'], reg)[:20000] if 'val' in r else None)}
    if 'TOMLWizard' in bases:
        import tomllib, tomli_w
        carry = attempt(lambda: tomllib.loads(tomli_w.dumps(d)))
        out['toml_carryable'] = 'val' in carry and rt.show(carry['val'], reg, sort_sets='dicts') == rt.show(d, reg, sort_sets='dicts') and c.get('json_keys_ok', True)
        if out['toml_carryable']:
            r = attempt(lambda: cls.from_toml(x.to_toml()))
            res['toml'] = {'ok': 'val' in r and same(r['val'], x, reg), 'detail': r.get('err') or (rt.show(r['val'], reg)[:20000] if 'val' in r else None)}
    out['res'] = res
    out['unchanged'] = rt.show(x, reg) == out['show_x']
    return out


def handler(p):
    return {'cases': [run_case(c) for c in p['cases']]}


if __name__ == '__main__':
    main(handler)
