"""Implementation runner for C05 (load returns a conforming instance or raises; never mutates
its input).  For each generated class model: a well-typed document (the JSON image of a
conforming instance), then the malformed stream (one position replaced by junk, keys renamed /
dropped / added, wrong-arity lists).  Each document is loaded with the default engine and with
the v1 engine (fresh classes); every returned instance is checked by the independent
conformance checker of core_rt; the document is compared with a deep copy taken before.
The oracle table for the Coq model (answers of the stdlib functions the loader calls on the
leaves of the document) is computed here with the real functions."""
import sys, os, json, copy, math, random, datetime, decimal, uuid, pathlib, traceback
sys.path.insert(0, os.path.dirname(os.path.abspath(__file__)))
from _util import main, err_info
import core_rt as rt

JUNK = [None, True, False, 0, 1, -1, 2 ** 70, 1.5, 1.0, float('nan'), float('inf'), '', 'abc', '1', '1.5', 'true', 'Z',
        '2020-01-01', '12:30:00', '2020-01-01T00:00:00Z', '1:02:03', [], [1], ['a', 'b'], [None], [[1]], {}, {'a': 1},
        '00000000-0000-0000-0000-000000000000', 'M0', 5, -7, 'a', 'B c', 3, [1, 2, 3], [True, 'x'], {'zz': None}]


def kinds_of(spec, acc=None):
    acc = set() if acc is None else acc
    t = spec['t']
    if t == 'tok': acc.add(spec['k'])
    elif t in ('bool', 'int', 'float', 'str', 'enum', 'lit', 'any', 'none', 'bytes', 'bytearray'): acc.add(t)
    for k in ('e', 'kt', 'vt'):
        if k in spec: kinds_of(spec[k], acc)
    for e in spec.get('es', []): kinds_of(e, acc)
    for f in spec.get('fields', []): kinds_of(f['ty'] if isinstance(f, dict) else f[1], acc)
    for _, ft in spec.get('req', []) + spec.get('opt', []): kinds_of(ft, acc)
    return acc


def subvalues(j, acc):
    acc.append(j)
    if isinstance(j, dict):
        for k, v in j.items():
            subvalues(k, acc); subvalues(v, acc)
    elif isinstance(j, (list, tuple)):
        for x in j:
            subvalues(x, acc)
    elif isinstance(j, str) and 0 < len(j) <= 12 and j.isascii():
        for c in j:
            acc.append(c)


def numeric_text(s):
    d = s.replace('.', '', 1)
    return d != '' and all('0' <= c <= '9' for c in d)


def oracle_table(j, kinds, reg):
    """[(fn, arg object, result object | RAISE)] for every stdlib call the loader can make on a leaf of j."""
    RAISE = object()
    subs = []
    subvalues(j, subs)
    seen, out = set(), []

    def add(fn, arg, thunk):
        key = (fn, rt.show(arg, reg))
        if key in seen: return
        seen.add(key)
        try:
            r = thunk()
        except BaseException:
            r = RAISE
        out.append((fn, arg, r))

    isnum = lambda o: type(o) in (int, float)
    for o in subs:
        t = type(o)
        if 'int' in kinds:
            if t is str and o:
                if '.' in o: add('int_round_float_str', o, lambda: int(round(float(o))))
                else: add('int_str', o, lambda: int(o))
            if t is float: add('int_round_float', o, lambda: int(round(o)))
        if 'float' in kinds or 'timedelta' in kinds:
            if t is str: add('float_str', o, lambda: float(o))
        if 'float' in kinds and t in (int, bool): add('float_int', o, lambda: float(o))
        if t is float and ({'bool', 'enum'} & kinds):
            add('float_eq_int', o, lambda: int(o) if (math.isfinite(o) and o == int(o)) else None)
        if ({'str', 'decimal', 'path'} & kinds) and t is not str and o is not None:
            add('str', o, lambda: str(o))
        if o is None and 'path' in kinds:
            add('str', o, lambda: 'None')
        if 'uuid' in kinds and t is str: add('uuid', o, lambda: uuid.UUID(o))
        if 'decimal' in kinds and t in (str, int, float):
            s = o if t is str else str(o)
            add('decimal', s, lambda: decimal.Decimal(s))
        if 'path' in kinds and t in (str, int, float, bool, type(None), list, dict):
            s = o if t is str else str(o)
            add('path', s, lambda: pathlib.Path(s))
        if 'datetime' in kinds:
            if t is str:
                s = o.replace('Z', '+00:00', 1)
                add('datetime_iso', s, lambda: datetime.datetime.fromisoformat(s))
            if isnum(o): add('datetime_ts', o, lambda: datetime.datetime.fromtimestamp(o, tz=datetime.timezone.utc))
        if 'date' in kinds:
            if t is str: add('date_iso', o, lambda: datetime.date.fromisoformat(o))
            if isnum(o): add('date_ts', o, lambda: datetime.date.fromtimestamp(o))
        if 'time' in kinds and t is str:
            s = o.replace('Z', '+00:00', 1)
            add('time_iso', s, lambda: datetime.time.fromisoformat(s))
        if 'timedelta' in kinds:
            if t is str and o.isascii():
                if numeric_text(o):
                    try:
                        f = float(o)
                        add('td_seconds', f, lambda: datetime.timedelta(seconds=f))
                    except Exception:
                        pass
                else:
                    import pytimeparse
                    add('td_parse', o, lambda: datetime.timedelta(seconds=pytimeparse.parse(o)))
            if isnum(o): add('td_seconds', o, lambda: datetime.timedelta(seconds=o))
    terms = []
    for fn, arg, r in out:
        try:
            a = rt.coq_pv(arg, reg, old=False)
            rv = 'None' if r is RAISE else '(Some %s)' % rt.coq_pv(r, reg, old=False)
        except Exception:
            continue
        terms.append('((%s, %s), %s)' % (rt.cstr(fn), a, rv))
    return terms


# ------------------------------------------------------------------------------ mutations
def all_paths(j, pre=()):
    out = [pre]
    if isinstance(j, dict):
        for k, v in j.items():
            out += all_paths(v, pre + (k,))
    elif isinstance(j, list):
        for i, v in enumerate(j):
            out += all_paths(v, pre + (i,))
    return out


def get_at(j, path):
    for p in path:
        j = j[p]
    return j


def set_at(j, path, val):
    if not path:
        return val
    j = copy.deepcopy(j)
    cur = j
    for p in path[:-1]:
        cur = cur[p]
    cur[path[-1]] = val
    return j


def mutate(doc, r):
    paths = all_paths(doc)
    path = r.choice(paths)
    node = get_at(doc, path)
    c = r.random()
    if isinstance(node, dict) and c < 0.5 and node:
        m = r.random()
        new = dict(node)
        k = r.choice(list(node))
        if m < 0.3:
            del new[k]
        elif m < 0.5 and isinstance(k, str):
            new = {(kk.upper() if kk == k else kk): vv for kk, vv in node.items()}
        elif m < 0.7 and isinstance(k, str):
            new = {(kk.replace('_', '-') + 'X' if kk == k else kk): vv for kk, vv in node.items()}
        elif m < 0.85:
            new['zzUnknown'] = r.choice(JUNK)
        else:
            new['__tag__'] = r.choice(['nope', 1, None, ['x']])
        return set_at(doc, path, new), 'keys'
    if isinstance(node, list) and c < 0.5:
        m = r.random()
        if m < 0.35 and node:
            new = node[:-1]
        elif m < 0.7:
            new = node + [r.choice(JUNK)]
        else:
            new = node + node
        return set_at(doc, path, new), 'arity'
    return set_at(doc, path, copy.deepcopy(r.choice(JUNK))), 'junk'


def eq_other_type(v):
    """values that are == to v but of another type (1 == 1.0 == True): what a hash/== lookup cannot tell apart"""
    out = []
    if isinstance(v, bool):
        out += [int(v), float(v)]
    elif isinstance(v, int):
        if abs(v) < 2 ** 53: out.append(float(v))
        if v in (0, 1): out.append(bool(v))
    elif isinstance(v, float):
        if v == v and abs(v) < 2 ** 53 and v == int(v):
            out.append(int(v))
            if v in (0.0, 1.0): out.append(bool(v))
    elif isinstance(v, str):
        try:
            out.append(int(v))
        except ValueError:
            pass
    return out


def systematic_mutations(doc, r, cap):
    """single-position mutations enumerated over EVERY position of the document (then sampled down to `cap`):
    scalar -> each ==-but-differently-typed value; list -> one element shorter / one longer; any position -> null."""
    out = []
    for path in all_paths(doc):
        node = get_at(doc, path)
        if isinstance(node, list):
            if node:
                out.append((set_at(doc, path, node[:-1]), 'short'))
            out.append((set_at(doc, path, node + [None]), 'long'))
        elif not isinstance(node, dict):
            for w in eq_other_type(node):
                out.append((set_at(doc, path, w), 'eqtype'))
            # a scalar of every OTHER JSON scalar kind at this position (a number inside a list of strings, ...)
            for w in (1, 2.5, 'x', True):
                if type(w) is not type(node):
                    out.append((set_at(doc, path, w), 'retype'))
        if path and node is not None:
            out.append((set_at(doc, path, None), 'null'))
    r.shuffle(out)
    # arity mutations are kept for (nearly) every list of the document, the other kinds are sampled
    quota = {'short': max(4, cap // 2), 'long': max(2, cap // 4), 'null': max(2, cap // 4), 'eqtype': max(2, cap // 4), 'retype': max(2, cap // 4)}
    picked, seen = [], {}
    for d, k in out:
        if seen.get(k, 0) < quota[k]:
            picked.append((d, k)); seen[k] = seen.get(k, 0) + 1
    return picked


# ------------------------------------------------------------------------------ loading
def v1_spec(spec):
    s = copy.deepcopy(spec)

    def mark(t):
        if t['t'] == 'data': t['v1'] = True
        for k in ('e', 'kt', 'vt'):
            if k in t: mark(t[k])
        for e in t.get('es', []): mark(e)
        for f in t.get('fields', []): mark(f['ty'] if isinstance(f, dict) else f[1])
        for _, ft in t.get('req', []) + t.get('opt', []): mark(ft)
    mark(s)
    return s


def load_once(cls, spec, reg, doc, use_json=False, v1=False):
    from dataclass_wizard import fromdict
    j = copy.deepcopy(doc)
    before = copy.deepcopy(j)
    out = {}
    try:
        if use_json:
            r = cls.from_json(json.dumps(j))
        else:
            r = fromdict(cls, j)
    except BaseException as e:
        out['err'] = type(e).__name__
        out['lib'] = err_info(e).get('lib')
    else:
        try:
            out['show'] = rt.show(r, reg)
            first_sorted = rt.show(r, reg, sort_sets='dicts')
        except Exception as e:
            out['show'] = '?show:%r' % (e,)
            first_sorted = out['show']
        strict = rt.conforms(r, spec, reg)
        out['conf'] = strict
        if strict is not None:
            lax = {'@v1'} if v1 else set()
            out['lax_conf'] = rt.conforms(r, spec, reg, lax=lax)
            out['lax_rules'] = sorted(x for x in lax if not x.startswith('@'))
    out['input_same'] = rt.show(j, reg) == rt.show(before, reg)
    # the SAME document object loaded a second time must behave as the first time
    try:
        r2 = cls.from_json(json.dumps(j)) if use_json else fromdict(cls, j)
        second = ('show', rt.show(r2, reg, sort_sets='dicts'))
    except BaseException as e:
        second = ('err', type(e).__name__)
    first = ('show', first_sorted) if 'show' in out else ('err', out.get('err'))
    out['second_same'] = (second == first)
    if not out['second_same']:
        out['second'] = list(second)
    out['input_same'] = out['input_same'] and rt.show(j, reg) == rt.show(before, reg)
    return out


def run_case(c):
    from dataclass_wizard import asdict, LoadMeta
    out = {'docs': []}
    try:
        rt.fresh_typing_caches()
        reg = rt.Reg()
        cls = rt.build_type(c['root'], reg)
        out['coq_t'] = rt.coq_ty(c['root'], reg)
        out['f56'] = rt.has_f56(cls)
        out['alias_reordered'] = None
        reg1 = rt.Reg()
        spec1 = v1_spec(c['root'])
        cls1 = rt.build_type(spec1, reg1)
        auto = rt.spec_has(c['root'], 'auto_tag')
        m0 = {}
        if auto:
            m0['auto_assign_tags'] = True
        if c.get('exact_keys'):
            # non-canonical field names: the well-typed document uses the field names themselves as keys, so that a
            # spelling that does not resolve back does not turn EVERY document of the class into MissingFields
            m0['key_transform_with_dump'] = 'NONE'
        if m0:
            LoadMeta(**m0).bind_to(cls)
        LoadMeta(v1=True, v1_key_case='AUTO', **({'auto_assign_tags': True} if auto else {})).bind_to(cls1)
        x = rt.build_value(c['value'], reg)
        # history axis: "load first" - the well-typed document is written by the independent reference encoder
        # (exact field names as keys), so that NO dump of these classes precedes the first load
        d = rt.ref_encode(x, {'xf': 'NONE'}, reg) if c.get('load_first') else asdict(x)
        try:
            base = json.loads(json.dumps(d))
        except (TypeError, ValueError):
            out['skip'] = 'instance is not JSON-carryable (dict key)'
            return out
    except BaseException as e:
        out['setup_err'] = err_info(e); out['setup_err']['tb'] = traceback.format_exc()[-600:]
        return out
    out['lets'] = reg.lets
    out['alias_reordered'] = reg.alias_reordered
    kinds = kinds_of(c['root'])
    r = random.Random(c['seed'])
    docs = [(base, 'welltyped')]
    for _ in range(c.get('n_mut', 4)):
        try:
            docs.append(mutate(base, r))
        except Exception:
            pass
    if c.get('n_sys'):
        try:
            docs.extend(systematic_mutations(base, r, c['n_sys']))
        except Exception:
            pass
    for extra in c.get('extra_docs', []):
        docs.append((rt.build_json(extra), 'listed'))
    # history x inheritance: every BASE class of a nested dataclass is loaded on its own before the owner's first load
    if c.get('pre_load_bases'):
        from dataclass_wizard import fromdict
        pre = []

        def bases_of(t, acc):
            if isinstance(t, dict):
                if t.get('t') == 'data' and t.get('base') is not None:
                    acc.append(t)
                for v in t.values(): bases_of(v, acc)
            elif isinstance(t, list):
                for v in t: bases_of(v, acc)
            return acc
        insts = rt.nested_instances(x)
        for child in bases_of(c['root'], []):
            ccls = reg.by_id[('data', child['id'])]
            sample = [o for o in insts if type(o) is ccls]
            if not sample:
                continue
            bdoc = {fd['name']: rt.ref_encode(getattr(sample[0], fd['name']), {'xf': 'NONE'}, reg) for fd in child['base']['fields']}
            try:
                bdoc = json.loads(json.dumps(bdoc))
            except (TypeError, ValueError):
                continue
            for rg, eng in ((reg, 'v0'), (reg1, 'v1')):
                bcls = rg.by_id[('data', child['base']['id'])]
                if eng == 'v1':
                    LoadMeta(v1=True, v1_key_case='AUTO').bind_to(bcls)
                try:
                    r0 = fromdict(bcls, copy.deepcopy(bdoc))
                    pre.append('%s:%s:%s' % (eng, bcls.__name__, 'ok' if type(r0) is bcls else 'WRONG-TYPE'))
                except BaseException as e:
                    pre.append('%s:%s:%s' % (eng, bcls.__name__, type(e).__name__))
        out['pre_loaded'] = pre
    wizard = 'JSONWizard' in c['root'].get('bases', [])
    for doc, kind in docs:
        rec = {'kind': kind}
        try:
            rec['coq_j'] = rt.coq_pv(doc, reg, old=True)
            rec['tbl'] = oracle_table(doc, kinds, reg)
        except Exception as e:
            rec['coq_err'] = repr(e)[:200]
        try:
            rec['doc'] = json.loads(json.dumps(doc))      # for replay files (nan/inf survive as NaN/Infinity tokens)
        except Exception:
            rec['doc'] = None
        rec['v0'] = load_once(cls, c['root'], reg, doc)
        rec['v1'] = load_once(cls1, spec1, reg1, doc, v1=True)
        if wizard and isinstance(doc, dict):
            try:
                rec['v0_json'] = load_once(cls, c['root'], reg, doc, use_json=True)
            except Exception as e:
                rec['v0_json'] = {'err': 'harness:' + repr(e)[:100], 'input_same': True}
        out['docs'].append(rec)
    return out


def handler(p):
    return {'cases': [run_case(c) for c in p['cases']]}


if __name__ == '__main__':
    main(handler)
