"""Implementation runner for C11 (skip rules / exclude / dump=False).

Payload: {'sem': {...} | None, 'cases': [case, ...]}.  See harness/props/c11.py for
the descriptors.  Every class is created from generated source under a unique
class name; every located value (label, descriptor) is built once per case, so
equal labels are the same object."""
import sys, os, dataclasses, enum, math, operator, decimal
sys.path.insert(0, os.path.dirname(os.path.abspath(__file__)))
from _util import *
from c11_ast import repr_canon, source_canon

from typing import Annotated, Any, ClassVar                          # noqa: E402
from dataclasses import InitVar                                       # noqa: E402
import dataclass_wizard as dw                                          # noqa: E402
from dataclass_wizard import (JSONWizard, EnvWizard, SkipIf, skip_if_field, json_field, json_key,   # noqa: E402
                              asdict, DumpMeta)
from dataclass_wizard import models as dw_models                      # noqa: E402
from dataclass_wizard.v1 import Alias as V1Alias                      # noqa: E402
from dataclass_wizard.class_helper import is_builtin                  # noqa: E402
from dataclass_wizard.utils import function_builder as fb             # noqa: E402


class Color(enum.Enum):
    C0 = 10
    C1 = 'one'
    C2 = 2.5
    C3 = None


class U:
    pass


class EqAll:
    """an object with a non-standard __eq__: equal to everything (and hashable)"""
    def __init__(self, i):
        self.i = i

    def __repr__(self):
        return 'EqAll#%d' % self.i

    def __eq__(self, other):
        return True

    def __ne__(self, other):
        return False

    def __hash__(self):
        return 0


TOK = {'enum': list(Color), 'user': [U() for _ in range(4)], 'bareobj': [object() for _ in range(4)],
       'type': [int, str, float, tuple], 'fn': [len, abs, repr, hash]}
EQALL = [EqAll(i) for i in range(6)]

# ---- capture of `_locals` (name -> OBJECT) of every generated function: hook H1 records the closure
# NAMES only; the dict itself is still in `FunctionBuilder.functions` when create_functions is entered.
CAPTURED = []
_orig_create_functions = fb.FunctionBuilder.create_functions


def _capturing_create_functions(self, *a, **k):
    try:
        for _name, _fn in self.functions.items():
            CAPTURED.append({'name': _name, 'locals': _fn['locals']})
    except BaseException:  # noqa
        pass
    return _orig_create_functions(self, *a, **k)


fb.FunctionBuilder.create_functions = _capturing_create_functions

ALIAS = {'==': 'EQ', '!=': 'NE', '<': 'LT', '<=': 'LE', '>': 'GT', '>=': 'GE', 'is': 'IS', 'is not': 'IS_NOT',
         '+': 'IS_TRUTHY', '!': 'IS_FALSY'}
OPS = {'==': operator.eq, '!=': operator.ne, '<': operator.lt, '<=': operator.le, '>': operator.gt,
       '>=': operator.ge, 'is': operator.is_, 'is not': operator.is_not,
       '+': lambda a, _b: operator.truth(a), '!': lambda a, _b: operator.not_(a)}


def build(d):
    t = d['t']
    if t == 'none':
        return None
    if t == 'ell':
        return ...
    if t == 'bool':
        return bool(d['v'])
    if t == 'int':
        return int(d['v'])
    if t == 'float':
        v = d['v']
        return float(v) if v in ('nan', 'inf', '-inf') else float.fromhex(v)
    if t == 'str':
        return ''.join(list(d['v']))
    if t == 'tuple':
        return tuple(build(x) for x in d['v'])
    if t == 'list':
        return [build(x) for x in d['v']]
    if t == 'dict':
        return {build(k): build(v) for k, v in d['v']}
    if t == 'tok':
        return TOK[d['k']][d['id']]
    if t == 'dec':
        return decimal.Decimal(d['v'])
    if t == 'eqall':
        return EQALL[d['id']]
    if t == 'inst':                      # an instance of the nested class of the current history
        return NESTED_INSTANCES[d['i']]
    raise ValueError(t)


NESTED_INSTANCES = []


def located(lv, table):
    lbl = lv['l']
    if lbl not in table:
        table[lbl] = build(lv['d'])
    return table[lbl]


def mk_cond(c, table, wrap):
    if c is None:
        return None
    ctor = getattr(dw, ALIAS[c['op']])
    cond = ctor() if c['op'] in ('+', '!') else ctor(located(c['val'], table))
    return SkipIf(cond) if wrap else cond


def test_op(op, a, b):
    """('T'|'F'|'E:<exc>') of the Python operator itself."""
    try:
        return 'T' if OPS[op](a, b) else 'F'
    except BaseException as e:  # noqa
        return 'E:' + type(e).__name__


def test_evaluate(op, a, b):
    try:
        r = dw_models.Condition(op, b).evaluate(a)
        return 'T' if r is True else ('F' if r is False else 'V:' + repr(r)[:40])
    except BaseException as e:  # noqa
        return 'E:' + type(e).__name__


def id_classes(table):
    """label -> smallest label naming the identical object"""
    out = {}
    labels = sorted(table)
    for i, a in enumerate(labels):
        out[str(a)] = a
        for b in labels[:i]:
            if table[a] is table[b]:
                out[str(a)] = out[str(b)]
                break
    return out


# ---------------------------------------------------------------------------
def h_sem(p):
    table = {}
    objs = [located({'l': i, 'd': d}, table) for i, d in enumerate(p['pool'])]
    vals = []
    for o in objs:
        try:
            hash(o)
            h = True
        except TypeError:
            h = False
        try:
            ib = bool(is_builtin(o))
        except BaseException as e:  # noqa
            ib = 'E:' + type(e).__name__
        vals.append({'hashable': h, 'is_builtin': ib, 'truthy': bool(o), 'repr': repr_canon(repr(o))})
    pairs = []
    for i, j in p['pairs']:
        a, b = objs[i], objs[j]
        ev = [test_evaluate(op, a, b) for op in p['ops']]
        py = [test_op(op, a, b) for op in p['ops']]
        pairs.append({'evaluate': ev, 'python': py})
    return {'ids': id_classes(table), 'values': vals, 'pairs': pairs}


# ---------------------------------------------------------------------------
_n = [0]


SHARED = {}     # share key -> (Condition object, comparison value): module-level conditions reused by several classes


def mk_cond_shared(c, table, wrap):
    """like mk_cond; a descriptor carrying 'share' denotes ONE Condition object (and one value
    object) for the whole interpreter, e.g. a module-level `SKIP = SkipIf(EQ([0]))`."""
    if c is None or not c.get('share'):
        return mk_cond(c, table, wrap)
    key = c['share']
    if key not in SHARED:
        SHARED[key] = (mk_cond(c, table, True), None if c['val'] is None else located(c['val'], table))
    cond, val = SHARED[key]
    if c['val'] is not None:
        table[c['val']['l']] = val
    return cond


def field_line(i, f, ns, table):
    ann = ['Any']
    fn = None              # field function
    args = []
    if f['default'] is not None:
        dv = located(f['default'], table)
        fac = f.get('factory')
        if fac == 'fresh':
            ns['DF%d' % i] = (lambda d: (lambda: build(d)))(f['default']['d'])
            args.append('default_factory=DF%d' % i)
        elif fac or isinstance(dv, (list, dict, set)):
            ns['DF%d' % i] = (lambda x: (lambda: x))(dv)
            args.append('default_factory=DF%d' % i)
        else:
            ns['D%d' % i] = dv
            args.append('default=D%d' % i)
    for k in ('init', 'repr', 'compare'):
        if f.get(k) is False:
            args.append('%s=False' % k)
    cond = f.get('cond')
    place = f.get('place')
    first = []
    if not f['dump']:
        if f.get('dump_via') == 'annotated':
            ann.append("json_key(%r, dump=False)" % f['name'])
        elif f.get('dump_via') == 'v1_annotated':
            ann.append("V1Alias(skip=True)")
        elif f.get('dump_via') == 'v1_field':
            fn, first = 'V1Alias', ['skip=True']
        else:
            fn, first = 'json_field', ['%r' % f['name'], 'dump=False']
    if cond is not None:
        if place == 'field' and fn is None:
            ns['C%d' % i] = mk_cond_shared(cond, table, cond.get('wrap', False))
            fn, first = 'skip_if_field', ['C%d' % i]
        else:
            ns['C%d' % i] = mk_cond_shared(cond, table, True)
            ann.append('C%d' % i)
    tp = ann[0] if len(ann) == 1 else 'Annotated[%s]' % ', '.join(ann)
    if fn is None and len(args) == 1 and args[0].startswith('default='):
        rhs = ' = ' + args[0][len('default='):]
    elif fn is None and not args:
        rhs = ''
    else:
        rhs = ' = %s(%s)' % (fn or 'dataclasses.field', ', '.join(first + args))
    return '    %s: %s%s' % (f['name'], tp, rhs)


def class_source(c, ns, table):
    """source text of the class (and of its base dataclass, if the first `n_base` fields are
    inherited); objects are passed through the namespace `ns`."""
    _n[0] += 1
    name = 'K%d' % _n[0]
    kind = c['wizard']
    base = {'json': 'JSONWizard', 'env': 'EnvWizard', 'plain': None}[kind]
    deco = None
    if kind != 'env':
        opts = ['kw_only=%r' % bool(c.get('kw_only', True))]
        if c.get('eq') is False:
            opts.append('eq=False')
        if c.get('frozen'):
            opts.append('frozen=True')
        if c.get('slots'):
            opts.append('slots=True')
        deco = '@dataclasses.dataclass(%s)' % ', '.join(opts)
    meta = c['meta']
    meta_kw = {}
    if meta.get('skip_defaults') is not None:
        meta_kw['skip_defaults'] = bool(meta['skip_defaults'])
    if meta.get('skip_if') is not None:
        meta_kw['skip_if'] = mk_cond_shared(meta['skip_if'], table, meta['skip_if'].get('wrap', False))
    if meta.get('skip_defaults_if') is not None:
        meta_kw['skip_defaults_if'] = mk_cond_shared(meta['skip_defaults_if'], table, meta['skip_defaults_if'].get('wrap', False))
    lines = []
    nb = c.get('n_base', 0) if kind != 'env' else 0
    parent = base
    if nb:
        lines.append(deco)
        lines.append('class B%s%s:' % (name, '(%s)' % base if base else ''))
        for i, f in enumerate(c['fields'][:nb]):
            lines.append(field_line(i, f, ns, table))
        parent = 'B' + name
    if deco:
        lines.append(deco)
    lines.append('class %s%s:' % (name, '(%s)' % parent if parent else ''))
    if base and (meta_kw or meta.get('v1')):
        lines.append('    class _(%s.Meta):' % base)
        if meta.get('v1'):
            lines.append('        v1 = True')
        for k, v in meta_kw.items():
            ns['M_' + k] = v
            lines.append('        %s = M_%s' % (k, k))
    body = 0
    for i, f in enumerate(c['fields']):
        if i >= nb:
            lines.append(field_line(i, f, ns, table))
            body += 1
    if kind != 'env':
        if c.get('classvar'):
            lines.append('    cv_attr: ClassVar[Any] = 5')
        if c.get('initvar'):
            lines.append('    iv_arg: InitVar[Any] = None')
        # fields that are not constructor arguments are assigned here
        lines.append('    def __post_init__(self, *_a):')
        lines.append('        for _k, _v in _PI.items():')
        lines.append('            object.__setattr__(self, _k, _v)')
    elif not body:
        lines.append('    pass')
    return name, '\n'.join(lines) + '\n', meta_kw


def reference(c, vals, dflt, conds, E, s):
    """Independent reference selection (Python's operator module).

    For every field the set of admissible statuses ('omit', 'keep', 'raise'): a field
    named in E is omitted and nothing is evaluated for it; otherwise the field is
    omitted when its default test or its condition test holds, whichever is consulted
    first (both orders are admitted), and a test that must be consulted and raises
    makes the dump raise.  A dump=False field is omitted; its tests may or may not be
    consulted.  Returns {'fields': [{'key', 'acc'}], 'lazy': {'keys': [...]} | {'raises': ..}}
    where 'lazy' is the outcome when the default test is consulted first."""
    meta = c['meta']
    se = bool(s) if s is not None else bool(meta.get('skip_defaults') or meta.get('skip_defaults_if') is not None)
    sdi = conds['sdi']
    msk = conds['skip_if']
    out = []
    lazy_keys, lazy_raise = [], False
    for f, v in zip(c['fields'], vals):
        if E is not None and f['name'] in E:
            out.append({'key': f['key'], 'acc': ['omit']})
            continue
        # default test: T / F / E
        dt = 'F'
        if se and f['default'] is not None:
            dt = test_op(sdi[0], v, sdi[1]) if sdi is not None else test_op('==', v, dflt[f['name']])
        cond = conds['own'].get(f['name'], msk)
        ct = test_op(cond[0], v, cond[1]) if cond is not None else 'F'

        def seq(a, b):
            if a == 'T':
                return 'omit'
            if a.startswith('E:'):
                return 'raise'
            return 'omit' if b == 'T' else ('raise' if b.startswith('E:') else 'keep')
        if not f['dump']:
            acc = {'omit'} | ({'raise'} if dt.startswith('E:') or ct.startswith('E:') else set())
            lz = 'omit'
        else:
            acc = {seq(dt, ct), seq(ct, dt)}
            lz = seq(dt, ct)
        out.append({'key': f['key'], 'acc': sorted(acc)})
        if lz == 'raise':
            lazy_raise = True
        elif lz == 'keep':
            lazy_keys.append(f['key'])
    return {'fields': out, 'lazy': {'raises': 'TypeError'} if lazy_raise else {'keys': lazy_keys}}


def run_case(c):
    table = {}
    ns = {'dataclasses': dataclasses, 'Annotated': Annotated, 'Any': Any, 'JSONWizard': JSONWizard,
          'EnvWizard': EnvWizard, 'SkipIf': SkipIf, 'skip_if_field': skip_if_field, 'json_field': json_field,
          'json_key': json_key, 'V1Alias': V1Alias, 'ClassVar': ClassVar, 'InitVar': InitVar, '_PI': {},
          '__name__': 'c11_gen'}
    reg0 = len(fb._VERIF_REGISTRY) if fb._VERIF_REGISTRY is not None else 0
    cap0 = len(CAPTURED)
    out = {}
    try:
        name, src, meta_kw = class_source(c, ns, table)
        out['class_source'] = src
        exec(src, ns)
        cls = ns[name]
        if c['wizard'] == 'plain' and meta_kw:
            DumpMeta(**meta_kw).bind_to(cls)
        # twin without any skip configuration: the usual encoding of the values
        twin_src = '@dataclasses.dataclass(kw_only=True)\nclass T%s(JSONWizard):\n%s' % (
            name, ''.join('    %s: Any\n' % f['name'] for f in c['fields']) or '    pass\n')
        exec(twin_src, ns)
        twin = ns['T' + name]
    except BaseException as e:  # noqa
        out['setup_err'] = err_info(e)
        return out
    # the raw condition objects for the reference: (op, value object)
    conds = {'own': {}, 'skip_if': None, 'sdi': None}
    for f in c['fields']:
        if f.get('cond') is not None:
            k = f['cond']
            conds['own'][f['name']] = (k['op'], None if k['op'] in ('+', '!') else located(k['val'], table))
    for mk, ck in (('skip_if', 'skip_if'), ('skip_defaults_if', 'sdi')):
        k = c['meta'].get(mk)
        if k is not None:
            conds[ck] = (k['op'], None if k['op'] in ('+', '!') else located(k['val'], table))
    dflt = {f['name']: located(f['default'], table) for f in c['fields'] if f['default'] is not None}
    out['is_builtin'] = {}
    for nm, k in list(conds['own'].items()) + [('@skip_if', conds['skip_if']), ('@sdi', conds['sdi'])]:
        if k is not None and k[0] not in ('+', '!'):
            try:
                out['is_builtin'][nm] = bool(is_builtin(k[1]))
            except BaseException as e:  # noqa
                out['is_builtin'][nm] = 'E:' + type(e).__name__
    insts = []
    for iv in c['instances']:
        # a value marked 'omit' is not passed to the constructor: the field takes its default
        kwargs = {f['name']: located(lv, table) for f, lv in zip(c['fields'], iv)
                  if f.get('init', True) and not lv.get('omit')}
        ns['_PI'].clear()
        ns['_PI'].update({f['name']: located(lv, table) for f, lv in zip(c['fields'], iv)
                          if not f.get('init', True) and not lv.get('omit')})
        rec = {'calls': []}
        try:
            inst = cls(**kwargs)
            vals = [getattr(inst, f['name']) for f in c['fields']]
        except BaseException as e:  # noqa
            rec['setup_err'] = err_info(e)
            insts.append(rec)
            continue
        for lv, v in zip(iv, vals):
            table[lv['l']] = v          # the object the instance really holds (identity classes below)
        kwargs = {f['name']: v for f, v in zip(c['fields'], vals)}
        for E in c['Es']:
            for s in c['ss']:
                kw = {}
                if E is not None:
                    kw['exclude'] = list(E)
                if s is not None:
                    kw['skip_defaults'] = bool(s)
                try:
                    d = asdict(inst, **kw) if c['wizard'] == 'plain' else inst.to_dict(**kw)
                    got = {'keys': list(d.keys()), 'vals': {k: canon(v) for k, v in d.items()}}
                except BaseException as e:  # noqa
                    got = {'err': type(e).__name__, 'msg': str(e)[:160]}
                exp = reference(c, vals, dflt, conds, E, s)
                # Condition.evaluate against the operator module, on the conditions of this class
                ev_bad = []
                for f, v in zip(c['fields'], vals):
                    for k in [conds['own'].get(f['name']), conds['skip_if'], conds['sdi']]:
                        if k is not None and test_evaluate(k[0], v, k[1]) != test_op(k[0], v, k[1]):
                            ev_bad.append([f['name'], k[0]])
                rec['calls'].append({'got': got, 'exp': exp, 'evaluate_mismatch': ev_bad})
        try:   # after the calls, so that the first generated cls_asdict is the one of the class under test
            tw = twin(**kwargs).to_dict()
            rec['baseline'] = {f['name']: canon(v) for f, (_k, v) in zip(c['fields'], tw.items())}
        except BaseException as e:  # noqa
            rec['baseline_err'] = err_info(e)
        insts.append(rec)
    out['instances'] = insts
    out['ids'] = id_classes(table)
    if fb._VERIF_REGISTRY is not None:
        mine = [r for r in fb._VERIF_REGISTRY[reg0:] if r['name'] == 'cls_asdict']
        # first registration after the class was created is the class under test
        # (the twin is generated later, at its first to_dict)
        if mine:
            out['source'] = source_canon(mine[0]['source'])
            out['source_text'] = mine[0]['source'][:4000]
            out['closure'] = [n for n in mine[0]['closure'] if n.startswith('_skip') or n.startswith('_default')]
    cap = [r for r in CAPTURED[cap0:] if r['name'] == 'cls_asdict']
    if cap:
        # which located object does each `_skip*` local hold? (label of the identical object, by `is`)
        ids = out['ids']
        binding = []
        for n, obj in cap[0]['locals'].items():
            if not n.startswith('_skip'):
                continue
            lbl = next((ids[str(k)] for k in sorted(table) if table[k] is obj), None)
            binding.append([n, lbl])
        out['binding'] = binding
    del CAPTURED[:]
    return out


def new_ns():
    return {'dataclasses': dataclasses, 'Annotated': Annotated, 'Any': Any, 'JSONWizard': JSONWizard,
            'EnvWizard': EnvWizard, 'SkipIf': SkipIf, 'skip_if_field': skip_if_field, 'json_field': json_field,
            'json_key': json_key, 'V1Alias': V1Alias, 'ClassVar': ClassVar, 'InitVar': InitVar, '_PI': {},
            '__name__': 'c11_gen'}


def conds_of(c, table):
    conds = {'own': {}, 'skip_if': None, 'sdi': None}
    for f in c['fields']:
        if f.get('cond') is not None:
            k = f['cond']
            conds['own'][f['name']] = (k['op'], None if k['op'] in ('+', '!') else located(k['val'], table))
    for mk, ck in (('skip_if', 'skip_if'), ('skip_defaults_if', 'sdi')):
        k = c['meta'].get(mk)
        if k is not None:
            conds[ck] = (k['op'], None if k['op'] in ('+', '!') else located(k['val'], table))
    return conds


def make_instance(c, cls, iv, ns, table):
    kwargs = {f['name']: located(lv, table) for f, lv in zip(c['fields'], iv)
              if f.get('init', True) and not lv.get('omit')}
    ns['_PI'].clear()
    ns['_PI'].update({f['name']: located(lv, table) for f, lv in zip(c['fields'], iv)
                      if not f.get('init', True) and not lv.get('omit')})
    inst = cls(**kwargs)
    vals = [getattr(inst, f['name']) for f in c['fields']]
    for lv, v in zip(iv, vals):
        table[lv['l']] = v
    return inst, vals


def dump_call(c, inst, E, s):
    kw = {}
    if E is not None:
        kw['exclude'] = list(E)
    if s is not None:
        kw['skip_defaults'] = bool(s)
    try:
        d = asdict(inst, **kw) if c['wizard'] == 'plain' else inst.to_dict(**kw)
        return d, {'keys': list(d.keys()), 'vals': {k: canon(v) for k, v in d.items()}}
    except BaseException as e:  # noqa
        return None, {'err': type(e).__name__, 'msg': str(e)[:160]}


def run_history(h):
    """A nested dataclass and an enclosing class dumped in a given order in THIS interpreter.
    Returns, per step, the observations in the shape run_case produces (pseudo-cases):
    'inner' = the nested class dumped alone (its own rules only), 'outer' = the enclosing class,
    'nested' = the nested instances as they appear inside the enclosing class's dumps (the
    enclosing Meta cascades)."""
    table = {}
    del CAPTURED[:]
    ns = new_ns()
    ci, co = h['inner'], h['outer']
    out = {'steps': []}
    try:
        iname, isrc, imeta = class_source(ci, ns, table)
        exec(isrc, ns)
        icls = ns[iname]
        inner_insts = []
        for iv in ci['instances']:
            inner_insts.append(make_instance(ci, icls, iv, ns, table))
        NESTED_INSTANCES[:] = [x for x, _v in inner_insts]
        oname, osrc, ometa = class_source(co, ns, table)
        exec(osrc, ns)
        ocls = ns[oname]
        if co['wizard'] == 'plain' and ometa:
            DumpMeta(**ometa).bind_to(ocls)
        outer_insts = [make_instance(co, ocls, iv, ns, table) for iv in co['instances']]
        out['class_source'] = isrc + osrc
    except BaseException as e:  # noqa
        return {'setup_err': err_info(e)}
    iconds, idflt = conds_of(ci, table), {f['name']: located(f['default'], table) for f in ci['fields'] if f['default'] is not None}
    oconds, odflt = conds_of(co, table), {f['name']: located(f['default'], table) for f in co['fields'] if f['default'] is not None}
    # the nested class reached through the enclosing class: its own fields and conditions, the enclosing Meta
    cn = dict(ci, meta=co['meta'])
    nconds = dict(iconds, skip_if=oconds['skip_if'], sdi=oconds['sdi'])
    nested_keys = {f['key'] for f in co['fields'] if f.get('nested')}
    for step in h['order']:
        if step == 'inner':
            insts = []
            for (inst, vals) in inner_insts:
                rec = {'calls': []}
                for E in ci['Es']:
                    for s_ in ci['ss']:
                        _d, got = dump_call(ci, inst, E, s_)
                        rec['calls'].append({'got': got, 'exp': reference(ci, vals, idflt, iconds, E, s_), 'evaluate_mismatch': []})
                insts.append(rec)
            out['steps'].append({'kind': 'inner', 'instances': insts})
        else:
            insts, nested_obs, inconsistent = [], {}, []
            for (inst, vals) in outer_insts:
                rec = {'calls': []}
                for E in co['Es']:
                    for s_ in co['ss']:
                        d, got = dump_call(co, inst, E, s_)
                        rec['calls'].append({'got': got, 'exp': reference(co, vals, odflt, oconds, E, s_), 'evaluate_mismatch': []})
                        if d is None:
                            continue
                        for f, v in zip(co['fields'], vals):
                            if not f.get('nested') or f['key'] not in d:
                                continue
                            pairs = [(v, d[f['key']])] if not isinstance(v, list) else list(zip(v, d[f['key']]))
                            for obj, nd in pairs:
                                k = next(i for i, x in enumerate(NESTED_INSTANCES) if x is obj)
                                g = {'keys': list(nd.keys()), 'vals': {kk: canon(vv) for kk, vv in nd.items()}} \
                                    if isinstance(nd, dict) else {'err': 'NotADict', 'msg': repr(nd)[:100]}
                                if k in nested_obs and nested_obs[k]['got'] != g:
                                    inconsistent.append(k)
                                nested_obs.setdefault(k, {'got': g, 'exp': reference(cn, inner_insts[k][1], idflt, nconds, None, None),
                                                          'evaluate_mismatch': []})
                insts.append(rec)
            out['steps'].append({'kind': 'outer', 'instances': insts,
                                 'nested': {str(k): v for k, v in nested_obs.items()}, 'inconsistent': inconsistent})
    out['ids'] = id_classes({k: v for k, v in table.items()})
    return out


def handler(p):
    if p.get('histories') is not None:
        res = []
        for h in p['histories']:
            try:
                res.append(run_history(h))
            except BaseException as e:  # noqa
                res.append({'runner_err': err_info(e)})
        return {'histories': res}
    res = {'sem': h_sem(p['sem']) if p.get('sem') else None, 'cases': []}
    for c in p.get('cases', []):
        try:
            res['cases'].append(run_case(c))
        except BaseException as e:  # noqa
            res['cases'].append({'runner_err': err_info(e)})
    return res


if __name__ == '__main__':
    main(handler)
