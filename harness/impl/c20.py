"""Implementation runner for C20 (concurrent first use / concurrent calls).

A *scenario* is a set of class definitions plus one short program of calls per
thread.  A *run* executes the scenario under a cooperative deterministic
scheduler: every worker thread blocks on its own semaphore at each yield point
of hook H2 (`dataclass_wizard._verif.yp`), and the controller decides which
thread is released next according to a *schedule* (list of thread ids, one per
decision; after the list is exhausted the current thread continues, and when
it has finished the lowest unfinished thread runs).  Exactly one worker runs
at any time, so a run is a deterministic function of the schedule.

Every run happens in a forked child of this (fresh) interpreter, so every run
starts from the same pristine library state (no table has been touched).

ops:  probe | explore | run | seq | stress
"""
import sys, os, json, itertools, threading, dataclasses, select, signal, time, traceback
sys.path.insert(0, os.path.dirname(os.path.abspath(__file__)))
from _util import canon, err_info, main

RUN_TIMEOUT = 30.0


# ---------------------------------------------------------------------------
# hook presence
def probe():
    out = {'hook': False, 'enabled': False, 'points': [], 'missing_calls': []}
    try:
        from dataclass_wizard import _verif
    except Exception as e:  # hook module absent
        out['error'] = '%s: %s' % (type(e).__name__, e)
        return out
    out['hook'] = all(hasattr(_verif, a) for a in ('yp', 'set_callback', 'active', 'POINTS', 'ENABLED'))
    if not out['hook']:
        return out
    out['enabled'] = bool(_verif.ENABLED)
    out['points'] = list(_verif.POINTS)
    # every declared point must occur as a call in the package source
    import dataclass_wizard, re
    root = os.path.dirname(dataclass_wizard.__file__)
    src = ''
    for d, _, fs in os.walk(root):
        for f in fs:
            if f.endswith('.py') and f != '_verif.py':
                src += open(os.path.join(d, f), encoding='utf-8').read()
    for p in _verif.POINTS:
        if not re.search(r"yp\(\s*['\"]%s['\"]\s*\)" % re.escape(p), src):
            out['missing_calls'].append(p)
    return out


def detect_fixes():
    """Which of the proposed repairs F30..F34 does the tree under test contain?
    True / False, or None when neither the pinned nor the repaired code shape is recognised."""
    import inspect, re
    from dataclass_wizard import dumpers, class_helper
    from dataclass_wizard.v1 import loaders as v1_loaders
    from dataclass_wizard.environ import lookups
    res = {}

    def src(f):
        try:
            return re.sub(r'#[^\n]*', '', inspect.getsource(f))
        except Exception:
            return ''
    s = src(dumpers._asdict_inner)
    res['F30'] = (False if re.search(r'for t in hooks\s*:', s) else
                  True if re.search(r'for t in (tuple|list)\(hooks\)\s*:', s) else None)
    s = src(class_helper)
    n_guard = len(re.findall(r'set_paths = False if \w+ else True', s))
    n_always = len(re.findall(r'set_paths = True\b', s))
    res['F31'] = False if (n_guard == 3 and n_always == 0) else True if (n_guard == 0 and n_always == 3) else None
    s = src(class_helper.dataclass_field_to_default)
    res['F32'] = (False if 'defaults = FIELD_TO_DEFAULT[cls] = {}' in s else
                  True if re.search(r'\n\s+FIELD_TO_DEFAULT\[cls\] = defaults', s) else None)
    s = src(v1_loaders.load_func_for_dataclass)
    res['F33'] = (False if 'field_to_aliases.pop(CATCH_ALL' in s else
                  True if 'field_to_aliases.get(CATCH_ALL' in s else None)
    s = src(lookups.Env.reload.__func__)
    i, j = s.find('cls.load_environ()'), s.find('cls.var_names')
    res['F34'] = None if j < 0 else (True if 0 <= i < j else False)
    res['env_inplace'] = env_protocol_shape()
    return res


MUTATORS = {'clear', 'update', 'pop', 'popitem', 'append', 'extend', 'insert', 'remove', 'discard', 'add',
            'sort', 'reverse', 'difference_update', 'intersection_update', 'symmetric_difference_update'}
SHARED_ATTRS = {'var_names', 'cleaned_to_env'}
ACCESSORS = {'json_field_to_dataclass_field', 'dataclass_field_to_json_path', 'dataclass_field_to_json_field',
             'dataclass_field_to_skip_if', 'field_to_env_var', 'v1_dataclass_field_to_alias',
             'dataclass_field_to_default', 'dataclass_field_to_load_parser', 'dataclass_to_dumper'}


def env_protocol_shape():
    """How does Env.load_environ install the copy of os.environ?  False: it only ever REBINDS the module
    global `environ` to a new object; True: it (also) mutates the dict in place; None: not recognised."""
    import ast, inspect, textwrap
    from dataclass_wizard.environ import lookups
    try:
        tree = ast.parse(textwrap.dedent(inspect.getsource(lookups.Env.load_environ.__func__)))
    except Exception:
        return None
    rebinds, mutates = 0, 0
    for n in ast.walk(tree):
        if isinstance(n, ast.Assign) and any(isinstance(t, ast.Name) and t.id == 'environ' for t in n.targets):
            rebinds += 1
        if isinstance(n, (ast.Assign, ast.AugAssign, ast.Delete)):
            tg = n.targets if not isinstance(n, ast.AugAssign) else [n.target]
            if any(isinstance(t, ast.Subscript) and isinstance(t.value, ast.Name) and t.value.id == 'environ' for t in tg):
                mutates += 1
            if isinstance(n, ast.AugAssign) and isinstance(n.target, ast.Name) and n.target.id == 'environ':
                mutates += 1
        if isinstance(n, ast.Call) and isinstance(n.func, ast.Attribute) and isinstance(n.func.value, ast.Name) \
                and n.func.value.id == 'environ' and n.func.attr in MUTATORS | {'setdefault', '__setitem__', '__delitem__'}:
            mutates += 1
    if mutates:
        return True
    return False if rebinds else None


def inplace_sites():
    """Static scan (hook completeness): statements that mutate SHARED state in place with a bulk / non-monotone
    operation (clear, update, pop, append, add, del, ...) and are not directly preceded by a yield point of
    hook H2.  Shared = module-level UPPER_CASE tables, the global `environ`, Env.var_names / cleaned_to_env,
    and local names bound to one of those (or to the result of a table accessor) in the same function."""
    import ast, importlib
    mods = ['dataclass_wizard.environ.lookups', 'dataclass_wizard.class_helper', 'dataclass_wizard.loaders',
            'dataclass_wizard.dumpers', 'dataclass_wizard.loader_selection', 'dataclass_wizard.v1.loaders']
    out = []

    def text(e):
        try:
            return ast.unparse(e)
        except Exception:
            return '?'

    def is_yield(st):
        if not (isinstance(st, ast.Expr) and isinstance(st.value, ast.Call)):
            return False
        f = st.value.func
        return (isinstance(f, ast.Name) and f.id == '_yp') or (isinstance(f, ast.Attribute) and f.attr == 'yp')

    for mn in mods:
        try:
            m = importlib.import_module(mn)
            tree = ast.parse(open(m.__file__, encoding='utf-8').read())
        except Exception as e:
            out.append({'file': mn, 'error': '%s: %s' % (type(e).__name__, e)})
            continue
        fname = os.path.basename(m.__file__)
        if mn.endswith('v1.loaders'):
            fname = 'v1/' + fname
        def is_container(v):
            if isinstance(v, (ast.Dict, ast.Set, ast.List, ast.DictComp, ast.SetComp, ast.ListComp)):
                return True
            return isinstance(v, ast.Call) and isinstance(v.func, ast.Name) and v.func.id in (
                'set', 'dict', 'list', 'defaultdict', 'OrderedDict', 'deque', 'Counter', 'WeakKeyDictionary',
                'WeakValueDictionary', 'WeakSet', 'frozenset')
        # module-level containers, whatever their name looks like (a NEW table introduced by a change counts)
        direct = {t.id for st in tree.body if isinstance(st, (ast.Assign, ast.AnnAssign))
                  for t in (st.targets if isinstance(st, ast.Assign) else [st.target])
                  if isinstance(t, ast.Name) and st.value is not None and is_container(st.value)}
        direct |= {a.asname or a.name for st in tree.body if isinstance(st, ast.ImportFrom) for a in st.names
                   if (a.asname or a.name).isupper() and st.module and st.module.endswith('class_helper')}
        if mn.endswith('lookups'):
            direct.add('environ')
        globs = {t.id for st in tree.body if isinstance(st, ast.Assign) for t in st.targets
                 if isinstance(t, ast.Name) and t.id.isupper()} | direct
        globs |= {a.asname or a.name for st in tree.body if isinstance(st, ast.ImportFrom) for a in st.names
                  if (a.asname or a.name).isupper()}
        if mn.endswith('lookups'):
            globs.add('environ')

        for fn in [n for n in ast.walk(tree) if isinstance(n, (ast.FunctionDef, ast.AsyncFunctionDef))]:
            shared = set()

            def shared_expr(e):
                if isinstance(e, ast.Name):
                    return e.id in globs or e.id in shared
                if isinstance(e, ast.Attribute):
                    return e.attr in SHARED_ATTRS or shared_expr(e.value) and False
                if isinstance(e, ast.Subscript):
                    return shared_expr(e.value)
                if isinstance(e, ast.Call):
                    f = e.func
                    return isinstance(f, ast.Name) and f.id in ACCESSORS
                return False
            for n in ast.walk(fn):   # local aliases of shared objects
                if isinstance(n, ast.Assign) and (shared_expr(n.value) or
                                                  any(isinstance(t, ast.Subscript) and shared_expr(t.value) for t in n.targets)):
                    for t in n.targets:
                        if isinstance(t, ast.Name):
                            shared.add(t.id)

            def scan(block):
                for k, st in enumerate(block):
                    recv, what = None, None
                    if isinstance(st, ast.Expr) and isinstance(st.value, ast.Call) and isinstance(st.value.func, ast.Attribute) \
                            and st.value.func.attr in MUTATORS and shared_expr(st.value.func.value):
                        recv, what = text(st.value.func.value), st.value.func.attr
                    elif isinstance(st, ast.Assign) and isinstance(st.value, ast.Call) and isinstance(st.value.func, ast.Attribute) \
                            and st.value.func.attr in ('pop', 'popitem') and shared_expr(st.value.func.value):
                        recv, what = text(st.value.func.value), st.value.func.attr
                    elif isinstance(st, ast.Delete) and any(isinstance(t, ast.Subscript) and shared_expr(t.value) for t in st.targets):
                        recv, what = text(st.targets[0]), 'del'
                    # ANY mutation of a module-level container named directly: item assignment, augmented
                    # assignment, add / discard / setdefault / ... (not only bulk operations)
                    if recv is None:
                        def root(e):
                            return e.id if isinstance(e, ast.Name) and e.id in direct else None
                        tg = []
                        if isinstance(st, ast.Assign):
                            tg = [t for t in st.targets if isinstance(t, ast.Subscript)]
                        elif isinstance(st, ast.AugAssign):
                            tg = [st.target.value if isinstance(st.target, ast.Subscript) else st.target]
                            tg = [ast.Subscript(value=t, slice=ast.Constant(0)) for t in tg]
                        for t in tg:
                            if root(t.value):
                                recv, what = root(t.value), 'setitem'
                        call = st.value if isinstance(st, (ast.Expr, ast.Assign)) and isinstance(getattr(st, 'value', None), ast.Call) else None
                        if recv is None and call is not None and isinstance(call.func, ast.Attribute) and root(call.func.value) \
                                and call.func.attr in MUTATORS | {'setdefault', 'discard'}:
                            recv, what = root(call.func.value), call.func.attr
                    if recv is not None and not (k > 0 and is_yield(block[k - 1])):
                        out.append({'file': fname, 'line': st.lineno, 'function': fn.name, 'receiver': recv,
                                    'op': what, 'code': text(st)[:120]})
                    for fld in ('body', 'orelse', 'finalbody'):
                        sub = getattr(st, fld, None)
                        if isinstance(sub, list) and sub and isinstance(sub[0], ast.stmt):
                            scan(sub)
                    for h in getattr(st, 'handlers', []) or []:
                        scan(h.body)
            scan(fn.body)
    return out


# ---------------------------------------------------------------------------
# scenario -> classes, calls
SUBTYPE_BASES = {'int': int, 'str': str, 'float': float, 'list': list, 'dict': dict, 'tuple': tuple,
                 'set': set, 'object': object}


def preimport():
    import dataclass_wizard, dataclass_wizard.loaders, dataclass_wizard.dumpers, dataclass_wizard.v1, \
        dataclass_wizard.v1.loaders, dataclass_wizard.environ.wizard, dataclass_wizard.environ.lookups, \
        dataclass_wizard.environ.loaders, dataclass_wizard.environ.dumpers, dataclass_wizard.parsers, \
        dataclass_wizard.bases_meta, dataclass_wizard.errors, dataclass_wizard.utils.string_conv  # noqa
    import logging
    logging.getLogger('dataclass_wizard').setLevel(logging.CRITICAL)
    logging.getLogger('dataclass_wizard').addHandler(logging.NullHandler())
    logging.getLogger('dataclass_wizard').propagate = False


class World:
    """Classes and value subtypes of one scenario (built in the child, before threads start)."""

    def __init__(self, sc):
        import typing
        from dataclass_wizard import JSONWizard, LoadMeta, DumpMeta, path_field, json_field
        from dataclass_wizard.models import CatchAll
        self.sc = sc
        self.sub = {}
        # files of the scenario (secrets directories, dotenv files): '@name' in call kwargs is replaced by the path
        self.paths = {}
        if sc.get('files'):
            import tempfile
            root = tempfile.mkdtemp(prefix='c20_', dir=os.getcwd())   # cwd = the check's scratch directory, removed on exit
            for d, files in (sc['files'].get('dirs') or {}).items():
                os.makedirs(os.path.join(root, d))
                for fn, txt in files.items():
                    with open(os.path.join(root, d, fn), 'w') as f:
                        f.write(txt)
                self.paths['@' + d] = os.path.join(root, d)
            for fn, txt in (sc['files'].get('dotenv') or {}).items():
                with open(os.path.join(root, fn), 'w') as f:
                    f.write(txt)
                self.paths['@' + fn] = os.path.join(root, fn)
        for name, base in sc.get('subtypes', {}).items():
            ns = {}
            if base == 'object':   # dumped through default_dump_with = str(o): keep it address-free
                ns['__str__'] = (lambda n: (lambda self: '<%s>' % n))(name)
            self.sub[name] = type(name, (SUBTYPE_BASES[base],), ns)
        self.cls = {}
        tmap = {'int': int, 'str': str, 'float': float, 'bool': bool, 'any': typing.Any,
                'list_int': typing.List[int], 'list_any': typing.List[typing.Any], 'opt_int': typing.Optional[int],
                'dict_any': typing.Dict[str, typing.Any], 'catch_all': CatchAll}
        for c in sc['classes']:
            kind = c.get('kind', 'plain')
            if kind == 'env':
                self.cls[c['name']] = self._env_class(c)
                continue
            v1 = c.get('engine') == 'v1'
            fs = []
            for f in c['fields']:
                tp = self.cls[f['type'][4:]] if f['type'].startswith('cls:') else tmap[f['type']]
                kw = {}
                if 'default' in f:
                    kw['default'] = f['default']
                if f.get('path'):
                    if v1:
                        from dataclass_wizard.v1 import AliasPath
                        fld = AliasPath(f['path'], **kw)
                    else:
                        fld = path_field(f['path'], **kw)
                elif f.get('alias'):
                    if v1:
                        from dataclass_wizard.v1 import Alias
                        fld = Alias(f['alias'], **kw)
                    else:
                        fld = json_field(f['alias'], all=True, **kw)
                elif kw:
                    fld = dataclasses.field(**kw)
                else:
                    fld = None
                fs.append((f['name'], tp) if fld is None else (f['name'], tp, fld))
            bases = (JSONWizard,) if c.get('wizard') else ()
            ns = {}
            if c.get('wizard') and (c.get('meta') or v1):
                m = dict(c.get('meta') or {})
                if v1:
                    m['v1'] = True
                ns['Meta'] = type('Meta', (JSONWizard.Meta,), m)
                ns['Meta'].__qualname__ = c['name'] + '.Meta'
            k = dataclasses.make_dataclass(c['name'], fs, bases=bases, namespace=ns)
            if not c.get('wizard'):
                lm = dict((c.get('meta') or {}).get('load', {}))
                if v1:
                    lm['v1'] = True
                if lm:
                    LoadMeta(**lm).bind_to(k)
                dm = (c.get('meta') or {}).get('dump')
                if dm:
                    DumpMeta(**dm).bind_to(k)
            self.cls[c['name']] = k

    def _env_class(self, c):
        from dataclass_wizard import EnvWizard
        ann = {f['name']: {'int': int, 'str': str, 'bool': bool, 'float': float}[f['type']] for f in c['fields']}
        ns = {'__annotations__': ann}
        for f in c['fields']:
            if 'default' in f:
                ns[f['name']] = f['default']
        return type(c['name'], (EnvWizard,), ns)

    def value(self, v):
        """decode a scenario value: {'sub': name, 'v': x} -> instance of a value subtype;
        {'inst': cls, 'args': {...}} -> dataclass instance."""
        if isinstance(v, dict) and 'sub' in v:
            t = self.sub[v['sub']]
            return t(self.value(v['v'])) if 'v' in v else t()
        if isinstance(v, dict) and 'inst' in v:
            return self.cls[v['inst']](**{k: self.value(x) for k, x in v['args'].items()})
        if isinstance(v, dict) and 'lit' in v:
            return {k: self.value(x) for k, x in v['lit'].items()}
        if isinstance(v, list):
            return [self.value(x) for x in v]
        return v

    def call(self, c):
        from dataclass_wizard import fromdict, asdict
        op = c['op']
        if op == 'load':
            k = self.cls[c['cls']]
            doc = json.loads(json.dumps(c['doc']))
            if c.get('via') == 'method':
                return k.from_dict(doc)
            return fromdict(k, doc)
        if op == 'dump':
            o = self.value({'inst': c['cls'], 'args': c['args']})
            if c.get('via') == 'method':
                return o.to_dict()
            return asdict(o)
        if op == 'env':
            k = self.cls[c['cls']]
            o = k(**{a: self.paths.get(v, v) if isinstance(v, str) else v for a, v in c.get('kwargs', {}).items()})
            return o.dict()
        raise ValueError(op)


def call_outcome(world, c):
    try:
        return {'ok': canon(world.call(c))}
    except BaseException as e:  # noqa
        d = err_info(e)
        if isinstance(e, RuntimeError) and 'changed size during iteration' in (d.get('msg') or ''):
            d['dict_changed_size'] = True      # which RuntimeError it is (the message itself is never compared)
        d.pop('msg', None)           # messages may mention addresses; never compared
        d.pop('renders', None)
        return d


# ---------------------------------------------------------------------------
# the cooperative scheduler
class Sched:
    def __init__(self, world, programs, schedule, named=None):
        self.world = world
        self.programs = programs
        self.n = len(programs)
        self.schedule = list(schedule or [])
        self.named = named            # optional named schedule: [[tid, point|'end', occurrence], ...]
        self.go = [threading.Semaphore(0) for _ in programs]
        self.ctl = threading.Semaphore(0)
        self.done = [False] * self.n
        self.at = [None] * self.n     # name of the yield point a thread is parked at ('start' before first run)
        self.trace = []               # [tid, point] in global order
        self.outcomes = [[] for _ in programs]
        self.decisions = []           # [current, enabled, choice]
        self.ident = {}
        self.counts = [dict() for _ in programs]

    def cb(self, name):
        t = self.ident.get(threading.get_ident())
        if t is None:
            return
        self.trace.append([t, name])
        self.counts[t][name] = self.counts[t].get(name, 0) + 1
        self.at[t] = name
        self.ctl.release()
        self.go[t].acquire()

    def worker(self, t):
        self.ident[threading.get_ident()] = t
        self.go[t].acquire()
        try:
            for c in self.programs[t]:
                self.outcomes[t].append(call_outcome(self.world, c))
        finally:
            self.done[t] = True
            self.at[t] = 'end'
            self.ctl.release()

    def run(self):
        from dataclass_wizard import _verif
        _verif.set_callback(self.cb)
        ths = [threading.Thread(target=self.worker, args=(t,), daemon=True) for t in range(self.n)]
        for th in ths:
            th.start()
        cur, i = None, 0
        named = list(self.named) if self.named else None
        status = 'ok'
        while True:
            enabled = [t for t in range(self.n) if not self.done[t]]
            if not enabled:
                break
            if named is not None:
                # named schedule: run thread `tid` until it is parked at the occ-th arrival at `point`
                while named and (self.done[named[0][0]] or self._reached(named[0])):
                    named.pop(0)
                choice = named[0][0] if named else (cur if cur in enabled else enabled[0])
            elif i < len(self.schedule) and self.schedule[i] in enabled:
                choice = self.schedule[i]
            else:
                choice = cur if cur in enabled else enabled[0]
            self.decisions.append([cur, enabled, choice])
            i += 1
            cur = choice
            self.go[choice].release()
            if not self.ctl.acquire(timeout=RUN_TIMEOUT):
                status = 'harness-timeout'
                break
        _verif.set_callback(None)
        return status

    def _reached(self, item):
        t, point, occ = item[0], item[1], (item[2] if len(item) > 2 else 1)
        if point == 'end':
            return self.done[t]
        return self.at[t] == point and self.counts[t].get(point, 0) >= occ


def run_once(sc, schedule=None, named=None):
    world = World(sc)
    s = Sched(world, sc['threads'], schedule, named)
    status = s.run()
    return {'status': status, 'outcomes': s.outcomes, 'trace': s.trace, 'decisions': s.decisions,
            'schedule': [d[2] for d in s.decisions]}


def run_sequential(sc, order):
    """order: list of thread ids, one entry per call (a linearisation of the calls)."""
    world = World(sc)
    pos = [0] * len(sc['threads'])
    outs = [[] for _ in sc['threads']]
    for t in order:
        outs[t].append(call_outcome(world, sc['threads'][t][pos[t]]))
        pos[t] += 1
    return {'outcomes': outs}


# ---------------------------------------------------------------------------
# forked execution: pristine library state per run
def in_child(fn, *a):
    r, w = os.pipe()
    pid = os.fork()
    if pid == 0:
        code = 0
        try:
            os.close(r)
            try:
                res = fn(*a)
            except BaseException as e:  # scenario construction failed etc.
                res = {'status': 'harness-error', 'error': traceback.format_exc()[-2000:]}
            with os.fdopen(w, 'w') as f:
                json.dump(res, f)
        except BaseException:
            code = 3
        finally:
            os._exit(code)
    os.close(w)
    buf = b''
    deadline = time.time() + RUN_TIMEOUT * 2
    with os.fdopen(r, 'rb') as f:
        while True:
            left = deadline - time.time()
            if left <= 0:
                os.kill(pid, signal.SIGKILL)
                os.waitpid(pid, 0)
                return {'status': 'harness-timeout'}
            rd, _, _ = select.select([f], [], [], left)
            if rd:
                chunk = os.read(f.fileno(), 1 << 16)
                if not chunk:
                    break
                buf += chunk
    os.waitpid(pid, 0)
    try:
        return json.loads(buf.decode())
    except Exception:
        return {'status': 'harness-error', 'error': 'child produced no result'}


def preemptions(decisions):
    return sum(1 for cur, en, ch in decisions if cur is not None and cur in en and ch != cur)


def explore(sc, bound, max_runs, rng_seed=0):
    """Stateless exploration of all schedules with <= bound preemptions (CHESS style).
    When the number of schedules exceeds max_runs, a deterministic pseudo-random subset of the
    frontier is explored (reported as truncated)."""
    import random
    rnd = random.Random(rng_seed)
    runs, todo, truncated = [], [[]], False
    seen = set()
    while todo:
        if len(runs) >= max_runs:
            truncated = True
            break
        prefix = todo.pop(rnd.randrange(len(todo)))
        res = in_child(run_once, sc, prefix)
        res['prefix'] = prefix
        runs.append(res)
        if res.get('status') != 'ok':
            continue
        dec = res['decisions']
        choices = [d[2] for d in dec]
        res['schedule'] = choices
        res['preemptions'] = preemptions(dec)
        for j in range(len(prefix), len(dec)):
            cur, en, ch = dec[j]
            base = preemptions(dec[:j])
            for alt in en:
                if alt == ch:
                    continue
                cost = base + (1 if (cur is not None and cur in en and alt != cur) else 0)
                if cost <= bound:
                    p = choices[:j] + [alt]
                    key = tuple(p)
                    if key not in seen:
                        seen.add(key)
                        todo.append(p)
        del res['decisions']      # keep the result small: 'schedule' (the choices) is all a replay needs
        res.pop('prefix', None)
    return {'runs': runs, 'truncated': truncated, 'pending': len(todo)}


def linearisations(lens):
    """all interleavings of per-thread call sequences (program order kept)."""
    out = []

    def rec(pos, acc):
        if all(p == n for p, n in zip(pos, lens)):
            out.append(list(acc))
            return
        for t, (p, n) in enumerate(zip(pos, lens)):
            if p < n:
                pos[t] += 1
                acc.append(t)
                rec(pos, acc)
                acc.pop()
                pos[t] -= 1
    rec([0] * len(lens), [])
    return out


def sequential_outcomes(sc, limit=200):
    lens = [len(p) for p in sc['threads']]
    res = []
    for order in linearisations(lens)[:limit]:
        r = in_child(run_sequential, sc, order)
        r['order'] = order
        res.append(r)
    return res


# ---------------------------------------------------------------------------
# randomized real-thread stress (supplementary search; no claim rests on it)
def stress_once(sc, switch):
    sys.setswitchinterval(switch)
    world = World(sc)
    n = len(sc['threads'])
    outs = [[] for _ in range(n)]
    barrier = threading.Barrier(n)

    def w(t):
        barrier.wait()
        for c in sc['threads'][t]:
            outs[t].append(call_outcome(world, c))
    ths = [threading.Thread(target=w, args=(t,)) for t in range(n)]
    for th in ths:
        th.start()
    for th in ths:
        th.join()
    return {'outcomes': outs}


# ---------------------------------------------------------------------------
# hook-free search: a reloading EnvWizard thread || plain-instantiate threads, big environment
ENV_EXPECT_VARS = {'APP_HOST': 'example.org', 'APP_PORT': '8080', 'app_debug': 'true'}


def _env_setup(n_fill):
    for i in range(n_fill):
        os.environ['FILLER_VARIABLE_NUMBER_%d' % i] = 'x' * 20
    os.environ.update(ENV_EXPECT_VARS)
    from dataclass_wizard import EnvWizard
    return type('Settings', (EnvWizard,), {'__annotations__': {'app_host': str, 'app_port': int, 'app_debug': bool}})


def _env_call(cls, reload):
    try:
        o = cls(_reload=True) if reload else cls()
        return {'ok': canon(o.dict())}
    except BaseException as e:  # noqa
        d = err_info(e)
        d.pop('msg', None); d.pop('renders', None)
        return d


def env_reference(p):
    """outcomes of the calls made one after the other, in several orders (own pristine process each)"""
    cls = _env_setup(p['fillers'])
    return {'outcomes': [_env_call(cls, r) for r in p['order']]}


def stress_env_once(p):
    """thread R: `reloads` x Settings(_reload=True); `workers` threads: Settings() in a loop.  Cold start:
    nothing of the library's env state exists when the threads start."""
    cls = _env_setup(p['fillers'])
    expected = p['expected']
    sys.setswitchinterval(p.get('switch', 1e-6))
    bad, stop = [], threading.Event()
    done = {'reloads': 0, 'calls': 0}
    deadline = time.monotonic() + p.get('max_seconds', 20.0)

    def check(name, k, o):
        done['calls'] += 1
        if o != expected:
            bad.append({'thread': name, 'call': k, 'round': done['reloads'], 'outcome': o})

    def reloader():
        for k in range(p['reloads']):
            if time.monotonic() > deadline or bad:
                break
            check('R', k, _env_call(cls, True))
            done['reloads'] += 1
        stop.set()

    def worker(name):
        k = 0
        while not stop.is_set() and not bad:
            check(name, k, _env_call(cls, False))
            k += 1
    ths = [threading.Thread(target=reloader)] + [threading.Thread(target=worker, args=('W%d' % (i + 1),))
                                                  for i in range(p['workers'])]
    for t in ths:
        t.start()
    for t in ths:
        t.join()
    return {'bad': bad[:5], 'n_bad': len(bad), 'reloads': done['reloads'], 'calls': done['calls']}


def stress_env(p):
    refs = [in_child(env_reference, dict(p, order=o)) for o in ([False, True, False, True], [True, False, False, True])]
    outs = [o for r in refs for o in r.get('outcomes', [])]
    if not outs or any(o != outs[0] for o in outs) or 'ok' not in outs[0]:
        return {'reference_error': refs}
    q = dict(p, expected=outs[0])
    import concurrent.futures as cf
    with cf.ThreadPoolExecutor(max_workers=p.get('parallel', 4)) as ex:
        runs = list(ex.map(lambda i: in_child(stress_env_once, q), range(p['processes'])))
    return {'expected': outs[0], 'runs': runs}


def handler(p):
    op = p['op']
    if op == 'probe':
        out = probe()
        try:
            out['fixes'] = detect_fixes()
        except Exception as e:
            out['fixes'] = {}
            out['fixes_error'] = '%s: %s' % (type(e).__name__, e)
        try:
            out['inplace_sites'] = inplace_sites()
        except Exception as e:
            out['inplace_sites'] = [{'error': '%s: %s' % (type(e).__name__, e)}]
        return out
    preimport()
    if op == 'explore':
        out = explore(p['scenario'], p.get('bound', 2), p.get('max_runs', 500), p.get('seed', 0))
        out['sequential'] = sequential_outcomes(p['scenario'])
        return out
    if op == 'run':
        out = {'runs': [in_child(run_once, p['scenario'], s.get('schedule'), s.get('named')) for s in p['schedules']]}
        out['sequential'] = sequential_outcomes(p['scenario'])
        return out
    if op == 'seq':
        return {'sequential': sequential_outcomes(p['scenario'])}
    if op == 'stress_env':
        return stress_env(p)
    if op == 'stress':
        runs = [in_child(stress_once, p['scenario'], p.get('switch', 1e-6)) for _ in range(p.get('iters', 50))]
        return {'runs': runs, 'sequential': sequential_outcomes(p['scenario'])}
    raise ValueError(op)


if __name__ == '__main__':
    main(handler)
