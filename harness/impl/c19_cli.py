"""CLI runner for C19: `python -m dataclass_wizard.wizard_cli.cli gs <in> <out>` in a temp dir
under the working directory, with a pre-existing output file.  One child process per case."""
import sys, os, json, subprocess, tempfile, shutil
sys.path.insert(0, os.path.dirname(os.path.abspath(__file__)))
from _util import *


def ref_classify(path):
    """Independent reference (stdlib strict JSON + the property's root clause) on the text the command reads
    (argparse opens the in-file in text mode, default encoding, errors='ignore'):
    'syntax' = not JSON, 'scalar' = JSON whose root is neither object nor array, 'doc' = a document."""
    try:
        with open(path, 'r', errors='ignore') as f:
            text = f.read()
    except OSError:
        return 'unreadable', None
    try:
        v = json.loads(text)
    except ValueError:
        return 'syntax', text
    return ('doc' if isinstance(v, (dict, list)) else 'scalar'), text


def run_one(c, base):
    d = tempfile.mkdtemp(prefix='cli_', dir=base)
    try:
        inp = os.path.join(d, 'in.json')
        out = os.path.join(d, 'out.py')
        kind = c['input_kind']
        if kind == 'missing':
            pass
        elif kind == 'directory':
            os.mkdir(inp)
        elif c.get('bytes_hex') is not None:
            with open(inp, 'wb') as f:
                f.write(bytes.fromhex(c['bytes_hex']))
        else:
            with open(inp, 'w', encoding='utf-8') as f:
                f.write(c['text'])
        ref, ref_text = ref_classify(inp)
        if c.get('out_exists', True):
            with open(out, 'wb') as f:
                f.write(c['existing'].encode('utf-8'))
        args = [sys.executable, '-m', 'dataclass_wizard.wizard_cli.cli', 'gs', inp, out]
        if c.get('fs'):
            args.append('-f')
        if c.get('ex'):
            args.append('-x')
        p = subprocess.run(args, capture_output=True, text=True, timeout=120, cwd=d, stdin=subprocess.DEVNULL)
        r = {'rc': p.returncode, 'diagnostic': bool(p.stderr.strip()), 'stderr': p.stderr[-300:], 'ref': ref}
        if os.path.exists(out):
            after = open(out, 'rb').read()
            r['out_after'] = after.decode('utf-8', 'replace')
        else:
            after = None
            r['out_after'] = None
        before = c['existing'].encode('utf-8') if c.get('out_exists', True) else None
        r['out_intact'] = after == before
        r['stray_files'] = sorted(set(os.listdir(d)) - {'in.json', 'out.py'})
        if c.get('valid') or (c.get('valid') is None and ref == 'doc'):
            from dataclass_wizard.wizard_cli.schema import PyCodeGenerator
            code = PyCodeGenerator(file_contents=ref_text, force_strings=bool(c.get('fs')),
                                   experimental=bool(c.get('ex'))).py_code
            r['inprocess_code'] = code
            r['out_equals_inprocess'] = after is not None and after.decode('utf-8', 'replace') == code
        return r
    finally:
        shutil.rmtree(d, ignore_errors=True)


def handler(p):
    base = os.getcwd()
    return {'cases': [run_one(c, base) for c in p['cases']]}


if __name__ == '__main__':
    main(handler)
