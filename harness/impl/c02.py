"""Implementation runner for the v1-engine checks (C02, C14).

Per model: define the classes in a fresh module, bind the v1 Meta, force loader generation
(record a generation failure), read hook H1 (generated sources) and summarise every generated
load function, dump / load every instance, load every extra document, and answer the leaf
oracle queries (what the library's own leaf loader does at a top-level field).
"""
import sys, os, json, types, dataclasses, collections, datetime, decimal, uuid, pathlib, enum, math, traceback
sys.path.insert(0, os.path.dirname(os.path.abspath(__file__)))
sys.path.insert(0, os.path.join(os.path.dirname(os.path.dirname(os.path.abspath(__file__))), 'props'))
from _util import main
import c02gen as G

_mod_n = [0]


def new_module(src):
    _mod_n[0] += 1
    name = 'vmod_%d' % _mod_n[0]
    m = types.ModuleType(name)
    sys.modules[name] = m
    exec(compile(src, '<%s>' % name, 'exec'), m.__dict__)
    return m


def new_modules(model):
    """surface models (model['surface']): one Python module per module of the program, lowest first;
    returns a namespace holding every definition by name (for building instances)"""
    n = model['surface']['n_mod']
    names = []
    for _ in range(n):
        _mod_n[0] += 1
        names.append('vmod_%d' % _mod_n[0])
    merged = types.SimpleNamespace()
    for name, src in zip(names, G.model_sources(model, names)):
        m = types.ModuleType(name)
        sys.modules[name] = m
        exec(compile(src, '<%s>' % name, 'exec'), m.__dict__)
        for k, v in m.__dict__.items():
            if getattr(v, '__module__', None) == name:
                setattr(merged, k, v)
    for k in ('Color', 'Num'):
        setattr(merged, k, getattr(sys.modules[names[0]], k))
    merged.__sources__ = G.model_sources(model, names)
    return merged


# ---------------------------------------------------------------------------------- values <-> trees
def tree_of(v):
    if v is None:
        return ['N']
    if isinstance(v, bool):
        return ['B', v]
    if isinstance(v, enum.Enum):
        return ['O', 'enum:' + type(v).__name__, v.name]
    if isinstance(v, int):
        return ['I', str(v)]
    if isinstance(v, float):
        return ['F', v.hex() if math.isfinite(v) else repr(v)]
    if isinstance(v, str):
        return ['S', v]
    if isinstance(v, bytes):
        return ['Y', v.hex()]
    if isinstance(v, bytearray):
        return ['A', bytes(v).hex()]
    if isinstance(v, uuid.UUID):
        return ['O', 'uuid', str(v)]
    if isinstance(v, decimal.Decimal):
        return ['O', 'decimal', str(v)]
    if isinstance(v, pathlib.PurePath):
        return ['O', 'path', str(v)]
    if isinstance(v, datetime.datetime):
        return ['O', 'datetime', v.isoformat()]
    if isinstance(v, datetime.date):
        return ['O', 'date', v.isoformat()]
    if isinstance(v, datetime.time):
        return ['O', 'time', v.isoformat()]
    if isinstance(v, datetime.timedelta):
        return ['O', 'timedelta', '%d,%d,%d' % (v.days, v.seconds, v.microseconds)]
    if dataclasses.is_dataclass(v) and not isinstance(v, type):
        return ['C', type(v).__name__, [[f.name, tree_of(getattr(v, f.name))] for f in dataclasses.fields(v)]]
    if isinstance(v, tuple) and hasattr(v, '_fields'):
        return ['M', type(v).__name__, [tree_of(x) for x in v]]
    if isinstance(v, list):
        return ['L', [tree_of(x) for x in v]]
    if isinstance(v, tuple):
        return ['T', [tree_of(x) for x in v]]
    if isinstance(v, set):
        return ['E', [tree_of(x) for x in v]]
    if isinstance(v, frozenset):
        return ['Z', [tree_of(x) for x in v]]
    if isinstance(v, collections.deque):
        return ['Q', [tree_of(x) for x in v]]
    if isinstance(v, collections.OrderedDict):
        return ['D', 'OrderedDict', [[tree_of(k), tree_of(x)] for k, x in v.items()]]
    if isinstance(v, collections.defaultdict):
        return ['D', getattr(v.default_factory, '__name__', repr(v.default_factory)),
                [[tree_of(k), tree_of(x)] for k, x in v.items()]]
    if isinstance(v, dict):
        return ['D', None, [[tree_of(k), tree_of(x)] for k, x in v.items()]]
    return ['X', type(v).__name__, repr(v)[:100]]


FACTORIES = {'str': str, 'int': int, 'float': float, 'bool': bool, 'list': list, 'set': set, 'dict': dict,
             'OrderedDict': collections.OrderedDict}


def build(t, mod):
    tag = t[0]
    if tag == 'N':
        return None
    if tag == 'B':
        return t[1]
    if tag == 'I':
        return int(t[1])
    if tag == 'F':
        return float.fromhex(t[1]) if t[1] not in ('nan', 'inf', '-inf') else float(t[1])
    if tag == 'S':
        return t[1]
    if tag == 'Y':
        return bytes.fromhex(t[1])
    if tag == 'A':
        return bytearray(bytes.fromhex(t[1]))
    if tag == 'O':
        l, tok = t[1], t[2]
        if l.startswith('enum:'):
            return getattr(mod, l[5:])[tok]
        if l == 'uuid':
            return uuid.UUID(tok)
        if l == 'decimal':
            return decimal.Decimal(tok)
        if l == 'path':
            return pathlib.Path(tok)
        if l == 'datetime':
            return datetime.datetime.fromisoformat(tok)
        if l == 'date':
            return datetime.date.fromisoformat(tok)
        if l == 'time':
            return datetime.time.fromisoformat(tok)
        if l == 'timedelta':
            d, s, us = (int(x) for x in tok.split(','))
            return datetime.timedelta(days=d, seconds=s, microseconds=us)
        raise ValueError(l)
    if tag == 'L':
        return [build(x, mod) for x in t[1]]
    if tag == 'T':
        return tuple(build(x, mod) for x in t[1])
    if tag == 'E':
        return {build(x, mod) for x in t[1]}
    if tag == 'Z':
        return frozenset(build(x, mod) for x in t[1])
    if tag == 'Q':
        return collections.deque(build(x, mod) for x in t[1])
    if tag == 'D':
        items = [(build(k, mod), build(x, mod)) for k, x in t[2]]
        if t[1] == 'OrderedDict':
            return collections.OrderedDict(items)
        return dict(items) if t[1] is None else collections.defaultdict(FACTORIES[t[1]], items)
    if tag == 'M':
        return getattr(mod, t[1])(*[build(x, mod) for x in t[2]])
    if tag == 'C':
        return getattr(mod, t[1])(**{f: build(x, mod) for f, x in t[2]})
    raise ValueError(tag)


# ---------------------------------------------------------------------------------- outcomes
KIND = {'ParseError': 'P', 'MissingData': 'D', 'MissingFields': 'M', 'UnknownKeysError': 'U'}


def err_outcome(e):
    from dataclass_wizard.errors import JSONWizardError
    d = {'err': type(e).__name__, 'lib': isinstance(e, JSONWizardError), 'kind': KIND.get(type(e).__name__),
         'mro': [c.__name__ for c in type(e).__mro__][:6]}
    try:
        s = str(e)
        d['renders'] = True
        d['msg'] = s[:200]
    except BaseException as e2:  # noqa
        d['renders'] = False
        d['render_err'] = '%s: %s' % (type(e2).__name__, str(e2)[:200])
    for a, k in (('class_name', 'cls'), ('field_name', 'fld'), ('missing_fields', 'names'),
                 ('nested_class_name', 'nested')):
        try:
            x = getattr(e, a, None)
        except BaseException:  # noqa
            x = '<raises>'
        d[k] = list(x) if isinstance(x, (list, tuple, set, frozenset)) else x
    if hasattr(e, 'obj'):
        try:
            d['obj'] = tree_of(e.obj)
        except BaseException:  # noqa
            d['obj'] = ['X', 'tree_of failed']
    be = getattr(e, 'base_error', None)
    if be is not None and be is not e:
        d['base'] = type(be).__name__
    return d


def run(fn, *a):
    try:
        return {'ok': tree_of(fn(*a))}
    except BaseException as e:  # noqa
        return err_outcome(e)


# ---------------------------------------------------------------------------------- the leaf oracle
_leaf_cls = {}


def leaf_class(l, inopt):
    key = (l, inopt)
    if key not in _leaf_cls:
        from dataclass_wizard import LoadMeta
        ann = G.py_ann(G.leaf(l), None)
        if inopt:
            ann = 'Optional[%s]' % ann
        m = new_module(G.PREAMBLE.replace('from __future__ import annotations\n', '') +
                       '@dataclass\nclass LeafBox:\n    x: %s\n' % ann)
        LoadMeta(v1=True).bind_to(m.LeafBox)
        _leaf_cls[key] = m
    return _leaf_cls[key]


def oracle_answer(l, inopt, tree, mod=None):
    from dataclass_wizard import fromdict
    from dataclass_wizard.errors import ParseError
    m = leaf_class(l, inopt)
    try:
        # values may contain instances of the model's own NamedTuple / dataclass types
        v = build(tree, mod if mod is not None else m)
    except BaseException as e:  # noqa
        return {'err': 'HarnessBuild' + type(e).__name__}
    try:
        return {'ok': tree_of(fromdict(m.LeafBox, {'x': v}).x)}
    except ParseError as e:
        be = e.base_error
        return {'err': type(be).__name__ if be is not None else 'ParseError'}
    except BaseException as e:  # noqa
        return {'err': type(e).__name__}


# ---------------------------------------------------------------------------------- one model
def field_keys(model):
    from dataclass_wizard.v1.enums import KeyCase
    from dataclass_wizard.enums import LetterCase
    from dataclass_wizard.utils.string_conv import possible_json_keys
    kc, dump = model.get('key_case'), model.get('dump') or 'NONE'
    out = {}
    for c in model['classes']:
        d = out[c['name']] = {}
        for f in c['fields']:
            n = f['name']
            if f.get('path') or f.get('alias'):
                d[n] = {'load': list(f.get('alias') or [f['path'].split('.')[0]]), 'dump': (f.get('alias') or [f['path'].split('.')[0]])[0]}
                continue
            if kc is None:
                load = [n]
            elif kc == 'AUTO':
                load = [n] + list(possible_json_keys(n))
            else:
                load = [KeyCase[kc](n)]
            d[n] = {'load': load, 'dump': LetterCase[dump](n)}
    return out


def alone_load(ncls, hist, mod):
    """fromdict(<nested class>, <as-is document>) on its own"""
    from dataclass_wizard import fromdict
    try:
        y = fromdict(ncls, build(hist['doc'], mod))
        return {'step': 'nested class alone', 'ok': G.norm(tree_of(y)) == G.norm(hist['instance'])}
    except BaseException as e:  # noqa
        return {'step': 'nested class alone', 'ok': False, 'err': err_outcome(e)}


def do_model(model):
    from dataclass_wizard import fromdict, asdict, LoadMeta, DumpMeta
    from dataclass_wizard.utils import function_builder as fb
    from dataclass_wizard.loader_selection import _get_load_fn_for_dataclass
    res = {'gen_err': None, 'fns': {}, 'inst': [], 'docs': [], 'oracle': [], 'setup_err': None, 'history': []}
    try:
        mod = new_modules(model) if model.get('surface') else new_module(G.model_source(model))
        if model.get('surface'):
            res['sources'] = [x[x.index('from typing_extensions'):][-3000:] for x in mod.__sources__]
        root = getattr(mod, model['classes'][model.get('root', 0)]['name'])
        kw = {'v1': True}
        if model.get('key_case'):
            kw['v1_key_case'] = model['key_case']
        kw.update(model.get('load_meta') or {})
        # Meta set on a nested class ONLY (e.g. v1_on_unknown_key='RAISE')
        for c in model['classes']:
            if c.get('meta'):
                LoadMeta(v1=True, **c['meta']).bind_to(getattr(mod, c['name']))
        # history A: a nested class is loaded on its own FIRST (v1, keys as-is), then used under the root
        hist = model.get('history')
        if hist and hist['kind'] == 'A':
            ncls = getattr(mod, model['classes'][hist['cls']]['name'])
            LoadMeta(v1=True).bind_to(ncls)
            res['history'] = [alone_load(ncls, hist, mod)]
        LoadMeta(**kw).bind_to(root)
        DumpMeta(key_transform=model.get('dump') or 'NONE').bind_to(root)
        res['keys'] = field_keys(model)
    except BaseException as e:  # noqa
        res['setup_err'] = '%s: %s' % (type(e).__name__, traceback.format_exc()[-1500:])
        if model.get('surface'):
            try:
                res['setup_err'] += '\n' + '\n'.join(x[x.index('from typing_extensions'):] for x in G.model_sources(model, ['m%d' % i for i in range(9)]))[-2500:]
            except BaseException as e2:  # noqa
                res['setup_err'] += '\n(sources: %s)' % e2
        return res
    model['_keys'] = res['keys']
    # ---- loader generation (direct predicate: never raises) + hook H1
    n0 = len(fb._VERIF_REGISTRY) if fb._VERIF_REGISTRY is not None else None
    try:
        _get_load_fn_for_dataclass(root)
    except BaseException as e:  # noqa
        res['gen_err'] = {'err': type(e).__name__, 'msg': str(e)[:300] if not isinstance(e, RecursionError) else 'recursion'}
    if n0 is None:
        res['hook'] = False
    else:
        res['hook'] = True
        for ent in fb._VERIF_REGISTRY[n0:]:
            if not G._HELPER.match(ent['name']):
                continue
            try:
                s = G.summarize_source(ent['source'])
                s['unbound'] = G.unbound_positional(ent['source'])
            except BaseException as e:  # noqa
                s = {'params': None, 'toks': None, 'unbound': None, 'parse_err': '%s: %s' % (type(e).__name__, e)}
            s['closure'] = ent['closure']
            s['source'] = ent['source'][:4000]
            res['fns'][ent['name']] = s
    pairs = {}
    # ---- instances: dump, load back, compare (value and concrete types)
    for tree in model.get('instances', []):
        r = {}
        try:
            x = build(tree, mod)
        except BaseException as e:  # noqa
            res['inst'].append({'build_err': '%s: %s' % (type(e).__name__, e)})
            continue
        try:
            d = asdict(x)
            r['doc'] = tree_of(d)
        except BaseException as e:  # noqa
            r['dump_err'] = err_outcome(e)
            res['inst'].append(r)
            continue
        try:
            y = fromdict(root, d)
            r['load'] = {'ok': tree_of(y)}
            r['eq'] = bool(y == x)
            r['same'] = G.norm(tree_of(y)) == G.norm(tree_of(x))
        except BaseException as e:  # noqa
            r['load'] = err_outcome(e)
        if model.get('json'):
            try:
                s = json.dumps(d)
                try:
                    z = fromdict(root, json.loads(s))
                    r['json'] = {'eq': bool(z == x), 'same': G.norm(tree_of(z)) == G.norm(tree_of(x))}
                except BaseException as e:  # noqa
                    r['json'] = {'load_err': err_outcome(e)}
            except BaseException as e:  # noqa
                r['json'] = {'dumps_err': type(e).__name__}
        G.walk_class(model.get('root', 0), r['doc'], model, pairs)
        res['inst'].append(r)
    # history: the nested class on its own AFTER the root was used, then the root again
    hist = model.get('history')
    if hist:
        ncls = getattr(mod, model['classes'][hist['cls']]['name'])
        if hist['kind'] == 'B':      # the nested class opts into v1 on its own only now
            LoadMeta(v1=True).bind_to(ncls)
        res['history'].append(alone_load(ncls, hist, mod))
        for tree in model.get('instances', [])[:1]:
            try:
                x = build(tree, mod)
                y = fromdict(root, asdict(x))
                res['history'].append({'step': 'root again', 'ok': bool(y == x) and G.norm(tree_of(y)) == G.norm(tree_of(x))})
            except BaseException as e:  # noqa
                res['history'].append({'step': 'root again', 'ok': False, 'err': err_outcome(e)})
    # ---- extra documents (malformed stream)
    for tree in model.get('docs', []):
        try:
            d = build(tree, mod)
        except BaseException as e:  # noqa
            res['docs'].append({'build_err': '%s: %s' % (type(e).__name__, e)})
            continue
        res['docs'].append(run(fromdict, root, d))
        G.walk_class(model.get('root', 0), tree, model, pairs)
    for l, o, v in pairs.values():
        res['oracle'].append([l, o, v, oracle_answer(l, o, v, mod)])
    del model['_keys']
    return res


def handler(p):
    out = []
    for m in p['models']:
        try:
            out.append(do_model(m))
        except BaseException as e:  # noqa
            out.append({'setup_err': 'runner: %s' % traceback.format_exc()[-2000:]})
    return {'models': out}


if __name__ == '__main__':
    main(handler)
