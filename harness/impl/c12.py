"""C12 dispatcher: runs every configuration of the payload in ITS OWN fresh interpreter
(harness/impl/c12_one.py), in parallel, with the environment it was started with."""
import sys, os, json, subprocess, concurrent.futures as cf

ONE = os.path.join(os.path.dirname(os.path.abspath(__file__)), 'c12_one.py')
MULTI = os.path.join(os.path.dirname(os.path.abspath(__file__)), 'c12_multi.py')      # a multi-root history (kind == 'multi')


def run_one(cfg):
    try:
        p = subprocess.run([sys.executable, MULTI if cfg.get('kind') == 'multi' else ONE], input=json.dumps(cfg), capture_output=True, text=True, timeout=120)
    except subprocess.TimeoutExpired:
        return {'runner_error': 'timeout'}
    if p.returncode != 0:
        return {'runner_error': p.stderr[-1500:]}
    try:
        return json.loads(p.stdout)
    except ValueError:
        return {'runner_error': 'bad output: ' + p.stdout[-500:]}


def main():
    payload = json.load(sys.stdin)
    jobs = int(payload.get('jobs', 12))
    with cf.ThreadPoolExecutor(max_workers=jobs) as ex:
        res = list(ex.map(run_one, payload['configs']))
    json.dump({'results': res}, sys.stdout)


if __name__ == '__main__':
    main()
