"""Implementation runner for C15 (generated code is well-formed; spelling never changes behaviour).

One process per payload (fresh interpreter).  Payload kinds:
  {'kind': 'lits', 'repr': [str], 'lit': [text]}        Python's own repr / literal reader
  {'kind': 'model', 'spec': SPEC}                        build the classes of SPEC, run its ops,
                                                         analyse every generated function (hook H1)
  {'kind': 'builtins', 'names': [...]}                   which names are Python builtins
SPEC is described in harness/props/c15.py.
"""
import sys, os, json, ast, symtable, builtins, dataclasses, enum, typing, collections, warnings, decimal
sys.path.insert(0, os.path.dirname(os.path.abspath(__file__)))
from _util import err_info, main

warnings.simplefilter('ignore')


# --------------------------------------------------------------------------- literals
def h_lits(p):
    out = {'repr': [repr(s) for s in p.get('repr', [])], 'lit': []}
    for t in p.get('lit', []):
        if '\x00' in t:
            out['lit'].append('M')
            continue
        try:
            v = ast.literal_eval(t)
        except (SyntaxError, ValueError):
            out['lit'].append('M')
            continue
        except BaseException as e:  # noqa
            out['lit'].append('E' + type(e).__name__)
            continue
        out['lit'].append('O' + v.encode('utf-8', 'surrogatepass').hex() if isinstance(v, str) else 'X')
    out['eval_repr'] = []
    for s in p.get('repr', []):
        try:
            out['eval_repr'].append(ast.literal_eval(repr(s)) == s)
        except BaseException:  # noqa
            out['eval_repr'].append(False)
    return out


# --------------------------------------------------------------------------- analysis of generated functions
BUILTIN_NAMES = set(dir(builtins))


def _walk_tables(tab):
    yield tab
    for c in tab.get_children():
        yield from _walk_tables(c)


def ast_names(fdef):
    """(loads, binds) of a function body by Python's scoping rules, from the AST:
    comprehension variables are local to their comprehension (the first iterable is
    evaluated outside), walrus targets bind in the enclosing function."""
    loads, binds = set(), set()

    def target_names(t):
        return {n.id for n in ast.walk(t) if isinstance(n, ast.Name)}

    def visit(node, hidden):
        if isinstance(node, (ast.ListComp, ast.SetComp, ast.DictComp, ast.GeneratorExp)):
            gens = node.generators
            visit(gens[0].iter, hidden)
            inner = set(hidden)
            for i, g in enumerate(gens):
                if i > 0:
                    visit(g.iter, inner)
                inner = inner | target_names(g.target)
                for c in g.ifs:
                    visit(c, inner)
            if isinstance(node, ast.DictComp):
                visit(node.key, inner); visit(node.value, inner)
            else:
                visit(node.elt, inner)
            return
        if isinstance(node, ast.NamedExpr):
            binds.add(node.target.id)
            visit(node.value, hidden)
            return
        if isinstance(node, ast.Name):
            if isinstance(node.ctx, ast.Load):
                if node.id not in hidden:
                    loads.add(node.id)
            else:
                binds.add(node.id)
            return
        if isinstance(node, ast.AugAssign) and isinstance(node.target, ast.Name):
            loads.add(node.target.id); binds.add(node.target.id)
            visit(node.value, hidden)
            return
        if isinstance(node, ast.ExceptHandler) and node.name:
            binds.add(node.name)
        if isinstance(node, ast.Lambda):
            a = node.args
            for d in a.defaults + [d for d in a.kw_defaults if d is not None]:
                visit(d, hidden)
            names = {x.arg for x in a.posonlyargs + a.args + a.kwonlyargs}
            names |= {x.arg for x in (a.vararg, a.kwarg) if x is not None}
            visit(node.body, frozenset(hidden) | names)
            return
        if isinstance(node, (ast.FunctionDef, ast.ClassDef)):
            raise ValueError('nested def/class in generated code: %s' % type(node).__name__)
        for c in ast.iter_child_nodes(node):
            visit(c, hidden)
    for st in fdef.body:
        visit(st, frozenset())
    return loads, binds


def analyse(entry, batch_names):
    """Python's own view of one generated function: does it parse, which names does it
    load / bind, which resolve to closure cells, which to globals/builtins."""
    name, src = entry['name'], entry['source']
    closure, globs = list(entry['closure']), list(entry['globals'])
    if src.startswith('def __create_fn__('):
        full, wrapper_name = src, '__create_fn__'
    else:
        full = "def __create_%s_fn__(%s):\n %s\n return %s" % (name, ', '.join(closure), src, name)
        wrapper_name = '__create_%s_fn__' % name
    res = {'name': name, 'closure': closure, 'globals': globs, 'parse_ok': True}
    try:
        tree = ast.parse(full)
        top = symtable.symtable(full, '<generated>', 'exec')
    except SyntaxError as e:
        res.update(parse_ok=False, syntax_error=str(e)[:200])
        return res
    wrapper = [c for c in top.get_children() if c.get_name() == wrapper_name][0]
    inner = [c for c in wrapper.get_children() if c.get_name() == name and c.get_type() == 'function'][0]
    params = list(inner.get_parameters())
    frees, globs_used = set(), set()
    for tab in _walk_tables(inner):
        for s in tab.get_symbols():
            n = s.get_name()
            if n.startswith('.'):
                continue
            if s.is_free() and tab is inner:
                frees.add(n)
            if s.is_global() and s.is_referenced():
                globs_used.add(n)
    fdef = [n for n in ast.walk(tree) if isinstance(n, ast.FunctionDef) and n.name == name][0]
    try:
        loads, binds = ast_names(fdef)
    except ValueError as e:
        res.update(parse_ok=False, syntax_error=str(e))
        return res
    header = set()
    for s in wrapper.get_symbols():
        if s.is_referenced() and s.get_name() != name:
            header.add(s.get_name())
    # wrapper-level names that resolve globally (defaults / annotations)
    header_globals = {s.get_name() for s in wrapper.get_symbols() if s.is_referenced() and s.is_global()}
    strs, attrs = set(), set()
    for n in ast.walk(fdef):
        if isinstance(n, ast.Constant) and isinstance(n.value, str):
            strs.add(n.value)
        elif isinstance(n, ast.Attribute):
            attrs.add(n.attr)
    allowed_global = set(globs) | BUILTIN_NAMES | set(batch_names)
    unbound = sorted((globs_used | header_globals) - allowed_global)
    # a closure cell can only be found if the wrapper binds it
    unbound_free = sorted(frees - set(closure))
    shadow = sorted((set(params) | binds) & (set(closure) | set(globs)))
    dup_params = sorted({p for p in params if params.count(p) > 1})
    own_free = loads - set(params) - binds
    res['scoping_agrees'] = (own_free == (frees | globs_used))
    res.update(params=params, loads=sorted(loads), binds=sorted(binds), free=sorted(frees | globs_used),
               header=sorted(header), strs=sorted(strs), attrs=sorted(attrs),
               unbound=unbound + unbound_free, shadow=shadow, dup_params=dup_params,
               n_lines=src.count('\n') + 1)
    return res


# --------------------------------------------------------------------------- building a model
class Built:
    def __init__(self):
        self.types = {}      # spec id -> python type
        self.ids = {}        # id(python type) -> spec id
        self.spec = {}       # spec id -> type spec
        self.patterns = {}   # pattern id -> the one Pattern object of this model
        self.pattern_text = {}


def py_type(t, B):
    from typing import List, Dict, Optional, Union, Literal, Tuple, Set
    if isinstance(t, str):
        return {'int': int, 'str': str, 'float': float, 'bool': bool}[t]
    k = t[0]
    if k == 'ref':
        return B.types[t[1]]
    if k == 'list':
        return List[py_type(t[1], B)]
    if k == 'set':
        return Set[py_type(t[1], B)]
    if k == 'dict':
        return Dict[str, py_type(t[1], B)]
    if k == 'opt':
        return Optional[py_type(t[1], B)]
    if k == 'tuplev':
        return Tuple[py_type(t[1], B), ...]
    if k == 'union':
        return Union[tuple(py_type(x, B) for x in t[1:])]
    if k == 'lit':
        return Literal[tuple(t[1:])]
    if k == 'pat':          # Annotated[T, P] with ONE pattern object per pattern id of the model (v1)
        from typing import Annotated
        if t[2] not in B.patterns:
            from dataclass_wizard.v1 import Pattern
            B.patterns[t[2]] = Pattern(B.pattern_text[t[2]])
        return Annotated[py_type(t[1], B), B.patterns[t[2]]]
    raise ValueError(t)


def py_cond(c):
    from dataclass_wizard import IS_TRUTHY, IS_FALSY, EQ, IS
    if c is None:
        return None
    if c[0] == 'truthy':
        return IS_TRUTHY()
    if c[0] == 'falsy':
        return IS_FALSY()
    if c[0] == 'eq':
        return EQ(c[1])
    if c[0] == 'isnone':
        return IS(None)
    if c[0] == 'eqc':       # a value that is not inlined (passed through a closure variable)
        return EQ(decimal.Decimal(c[1]))
    raise ValueError(c)


def py_default(d):
    if d[0] == 'val':
        return {'default': d[1]}
    if d[0] == 'list':
        return {'default_factory': list}
    if d[0] == 'dict':
        return {'default_factory': dict}
    raise ValueError(d)


def build_field(f, engine, B):
    from dataclass_wizard import json_field, path_field, skip_if_field, SkipIf, CatchAll
    tp = CatchAll if f.get('catch_all') else py_type(f['type'], B)
    kw = py_default(f['default']) if f.get('default') is not None else {}
    if f.get('catch_all'):
        fld = dataclasses.field(**kw) if kw else None
    elif engine == 'v1' and (f.get('alias') is not None or f.get('aliases') or f.get('path') is not None):
        from dataclass_wizard.v1 import Alias, AliasPath
        if f.get('path') is not None:
            fld = AliasPath(list(f['path']), **kw)
        elif f.get('aliases'):
            fld = Alias(load=tuple(f['aliases']), dump=f['aliases'][0], **kw)
        else:
            fld = Alias(f['alias'], **kw)
    elif f.get('path') is not None:
        fld = path_field(list(f['path']), **kw)
    elif f.get('alias') is not None:
        fld = json_field(f['alias'], all=True, dump=not f.get('nodump', False), **kw)
    elif f.get('nodump'):
        fld = json_field((), dump=False, **kw)
    elif f.get('skip_if') is not None:
        fld = skip_if_field(py_cond(f['skip_if']), **kw)
    elif kw:
        fld = dataclasses.field(**kw)
    else:
        fld = None
    return (f['name'], tp) if fld is None else (f['name'], tp, fld)


def build(spec):
    from dataclass_wizard import JSONWizard, LoadMeta, DumpMeta
    B = Built()
    B.pattern_text = dict(spec.get('patterns') or {})
    engine = spec['engine']
    for t in spec['types']:
        kind = t['kind']
        if kind == 'enum':
            obj = enum.Enum(t['name'], [(m, v) for m, v in t['members']])
        elif kind == 'namedtuple':
            ns = {'typing': typing}
            lines = ['class %s(typing.NamedTuple):' % t['name']]
            for i, f in enumerate(t['fields']):
                ns['_T%d' % i] = py_type(f['type'], B)
                if f.get('default') is not None:
                    ns['_D%d' % i] = f['default'][1]
                    lines.append('    %s: _T%d = _D%d' % (f['name'], i, i))
                else:
                    lines.append('    %s: _T%d' % (f['name'], i))
            exec('\n'.join(lines), ns)
            obj = ns[t['name']]
        elif kind == 'leaf':     # a user subclass of a leaf type
            import datetime
            base = {'date': datetime.date, 'time': datetime.time, 'datetime': datetime.datetime,
                    'Decimal': decimal.Decimal}[t['base']]
            obj = type(t['name'], (base,), {})
        elif kind == 'typeddict':
            obj = typing.TypedDict(t['name'], {f['name']: py_type(f['type'], B) for f in t['fields']})
        elif kind == 'dataclass':
            flds = [build_field(f, engine, B) for f in t['fields']]
            bases = (JSONWizard,) if spec.get('mixin') else ()
            obj = dataclasses.make_dataclass(t['name'], flds, bases=bases)
            # the class's OWN Meta (nested classes may differ from the root in settings that
            # change which names their generated functions mention)
            own = t.get('meta') or {}
            lk = {}
            if t.get('tag') is not None:
                lk['tag'] = t['tag']
            if t['id'] != spec['root']:
                if engine == 'v1' and own.get('v1_unknown'):
                    lk['v1'] = True
                    lk['v1_on_unknown_key'] = own['v1_unknown']
                if engine != 'v1' and own.get('raise_unknown'):
                    lk['raise_on_unknown_json_key'] = True
            if lk:
                LoadMeta(**lk).bind_to(obj)
        else:
            raise ValueError(kind)
        B.types[t['id']] = obj
        B.ids[id(obj)] = t['id']
        B.spec[t['id']] = t
    root = B.types[spec['root']]
    m = spec.get('meta', {})
    lkw, dkw = {}, {'key_transform': 'NONE'}
    if engine == 'v1':
        lkw['v1'] = True
        if m.get('v1_unknown'):
            lkw['v1_on_unknown_key'] = m['v1_unknown']
    else:
        if m.get('raise_unknown'):
            lkw['raise_on_unknown_json_key'] = True
    if m.get('auto_tags'):
        lkw['auto_assign_tags'] = True
    if m.get('tag_key') is not None:
        lkw['tag_key'] = m['tag_key']
    if m.get('skip_defaults'):
        dkw['skip_defaults'] = True
    if m.get('skip_if') is not None:
        dkw['skip_if'] = py_cond(m['skip_if'])
    if m.get('skip_defaults_if') is not None:
        dkw['skip_defaults_if'] = py_cond(m['skip_defaults_if'])
    if lkw:
        LoadMeta(**lkw).bind_to(root)
    DumpMeta(**dkw).bind_to(root)
    return B


def canon(v, B):
    """Canonical, name-free rendering of objects; dict keys and strings are kept."""
    if v is None:
        return None
    if isinstance(v, bool):
        return {'bool': v}
    tid = B.ids.get(id(type(v)))
    if tid is not None and B.spec.get(tid, {}).get('kind') == 'leaf':
        return {'leaf': tid, 'value': v.isoformat() if hasattr(v, 'isoformat') else str(v)}
    if isinstance(v, enum.Enum):
        return {'enum': tid or '?' + type(v).__name__, 'member': v.name}
    if isinstance(v, int):
        return {'int': str(v)}
    if isinstance(v, float):
        return {'float': v.hex()}
    if isinstance(v, str):
        return {'str': v}
    if dataclasses.is_dataclass(v) and not isinstance(v, type):
        return {'inst': tid or '?' + type(v).__name__,
                'fields': [[f.name, canon(getattr(v, f.name, '<unset>'), B)] for f in dataclasses.fields(v)]}
    if isinstance(v, tuple) and hasattr(v, '_fields'):
        return {'nt': tid or '?' + type(v).__name__, 'items': [canon(x, B) for x in v]}
    if isinstance(v, (list, tuple, collections.deque)):
        return {type(v).__name__: [canon(x, B) for x in v]}
    if isinstance(v, (set, frozenset)):
        return {type(v).__name__: sorted((canon(x, B) for x in v), key=lambda x: json.dumps(x, sort_keys=True))}
    if isinstance(v, dict):
        return {'dict': [[canon(k, B), canon(x, B)] for k, x in v.items()]}
    if isinstance(v, decimal.Decimal):
        return {'Decimal': str(v), 'cls': type(v).__name__ if type(v) is not decimal.Decimal else None}
    import datetime as _dt
    if isinstance(v, (_dt.date, _dt.time)):
        return {'datetime': v.isoformat(), 'cls': '?' + type(v).__name__}
    return {'opaque': type(v).__name__}


def outcome(fn, B):
    try:
        return {'ok': canon(fn(), B)}
    except BaseException as e:  # noqa
        d = err_info(e)
        # class_name may be the class object or its name; render as spec id when known
        cn = getattr(e, 'class_name', None)
        try:
            full = str(e)[:3000]
        except BaseException:  # noqa
            full = d.get('msg')
        out = {'err': d['err'], 'lib': d['lib'], 'msg': full}
        fn_ = d.get('field_name')
        if isinstance(fn_, str):
            out['field_name'] = fn_
        return out


def h_model(p):
    spec = p['spec']
    environ = spec.get('environ')
    if environ is not None:
        for k, v in environ.items():
            os.environ[k] = v
    from dataclass_wizard.utils import function_builder as FB
    R = FB._VERIF_REGISTRY
    if R is None:
        return {'hook': False}
    batches = []
    orig = FB.FunctionBuilder.create_functions

    def wrapped(self, _globals=None):
        n0 = len(R)
        fr = sys._getframe(1)
        cls_obj = fr.f_locals.get('cls')
        try:
            return orig(self, _globals)
        finally:
            batches.append({'start': n0, 'end': len(R), 'cls_obj': cls_obj,
                            'cls_name': getattr(cls_obj, '__name__', None),
                            'caller': fr.f_code.co_name,
                            'file': os.path.basename(os.path.dirname(fr.f_code.co_filename)) + '/' +
                                    os.path.basename(fr.f_code.co_filename)})
    FB.FunctionBuilder.create_functions = wrapped

    res = {'hook': True, 'ops': [], 'setup': None}
    B = None
    try:
        B = build_env(spec) if spec['engine'] == 'env' else build(spec)
    except BaseException as e:  # noqa
        res['setup'] = err_info(e)
    if B is not None:
        root = B.types[spec['root']]
        for op in spec['ops']:
            if op['op'] == 'load':
                res['ops'].append(outcome(lambda: do_load(spec, root, op['doc']), B))
            elif op['op'] == 'roundtrip':
                res['ops'].append(outcome(lambda: do_dump(spec, do_load(spec, root, op['doc']), op), B))
            elif op['op'] == 'env':
                res['ops'].append(outcome(lambda: do_env(root, op), B))
            else:
                raise ValueError(op)
    # analysis of everything generated in this process
    funcs = []
    covered = set()
    for b in batches:
        names = [R[i]['name'] for i in range(b['start'], b['end'])]
        for i in range(b['start'], b['end']):
            covered.add(i)
            a = analyse(R[i], names)
            cls_id = B.ids.get(id(b['cls_obj'])) if B is not None else None
            a.update(batch=[b['start'], b['end']], caller=b['caller'], file=b['file'], cls=cls_id,
                     cls_name=b['cls_name'])
            funcs.append(a)
    for i, e in enumerate(R):
        if i not in covered:
            a = analyse(e, [])
            a.update(batch=None, caller='_create_fn', file='utils/dataclass_compat.py', cls=None, cls_name=None)
            funcs.append(a)
    res['functions'] = funcs
    return res


def run_ops(spec):
    """build the classes of one model in THIS interpreter and run its operations"""
    res = {'ops': [], 'setup': None}
    B = None
    try:
        B = build_env(spec) if spec['engine'] == 'env' else build(spec)
    except BaseException as e:  # noqa
        res['setup'] = err_info(e)
    if B is not None:
        root = B.types[spec['root']]
        for op in spec['ops']:
            if op['op'] == 'load':
                res['ops'].append(outcome(lambda: do_load(spec, root, op['doc']), B))
            elif op['op'] == 'roundtrip':
                res['ops'].append(outcome(lambda: do_dump(spec, do_load(spec, root, op['doc']), op), B))
            elif op['op'] == 'env':
                res['ops'].append(outcome(lambda: do_env(root, op), B))
            else:
                raise ValueError(op)
    return res


def h_multi(p):
    """several models one after the other in ONE interpreter (each with its own class objects)"""
    for spec in p['specs']:
        for k, v in (spec.get('environ') or {}).items():
            os.environ[k] = v
    return {'runs': [run_ops(spec) for spec in p['specs']]}


def do_load(spec, root, doc):
    from dataclass_wizard import fromdict
    if spec.get('mixin'):
        return root.from_dict(doc)
    return fromdict(root, doc)


def do_dump(spec, inst, op):
    from dataclass_wizard import asdict
    kw = {}
    if op.get('exclude') is not None:
        kw['exclude'] = list(op['exclude'])
    if op.get('skip_defaults') is not None:
        kw['skip_defaults'] = op['skip_defaults']
    if spec.get('mixin'):
        return inst.to_dict(**kw)
    return asdict(inst, **kw)


# --------------------------------------------------------------------------- EnvWizard
def build_env(spec):
    from dataclass_wizard import EnvWizard, json_field
    B = Built()
    t = [x for x in spec['types'] if x['id'] == spec['root']][0]
    ns = {'__annotations__': {}}
    m = spec.get('meta', {})
    if m.get('skip_defaults_if') is not None:
        # inner Meta: found by the library through its __qualname__ (<Outer>.<Meta>)
        ns['_'] = type('_', (EnvWizard.Meta,), {'__qualname__': '%s._' % t['name'],
                                               'key_transform_with_dump': 'NONE',
                                               'skip_defaults_if': py_cond(m['skip_defaults_if'])})
    for f in t['fields']:
        if f.get('catch_all'):
            from dataclass_wizard import CatchAll
            ns['__annotations__'][f['name']] = CatchAll
            if f.get('default') is not None:
                ns[f['name']] = f['default'][1]
            continue
        ns['__annotations__'][f['name']] = py_type(f['type'], B)
        kw = py_default(f['default']) if f.get('default') is not None else {}
        if f.get('alias') is not None:
            ns[f['name']] = json_field(f['alias'], all=True, **kw)
        elif 'default' in kw:
            ns[f['name']] = kw['default']
        elif kw:
            ns[f['name']] = dataclasses.field(**kw)
    obj = type(t['name'], (EnvWizard,), ns)
    B.types[t['id']] = obj
    B.ids[id(obj)] = t['id']
    B.spec[t['id']] = t
    return B


def do_env(root, op):
    inst = root(**op.get('kwargs', {}))
    return {'dict': inst.dict(), 'to_dict': inst.to_dict()}


def handler(p):
    k = p.get('kind')
    if k == 'lits':
        return h_lits(p)
    if k == 'model':
        return h_model(p)
    if k == 'multi':
        return h_multi(p)
    if k == 'builtins':
        return {'builtins': [n in BUILTIN_NAMES for n in p['names']]}
    raise ValueError(k)


if __name__ == '__main__':
    main(handler)
