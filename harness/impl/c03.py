"""Implementation runner for C03 (dump encoding): builds the generated classes and values,
calls asdict / to_json on the real library and evaluates the direct predicates."""
import sys, os, json, copy, traceback
sys.path.insert(0, os.path.dirname(os.path.abspath(__file__)))
from _util import main, err_info
import core_rt as rt


def keys_scalar(o):
    import enum, collections, dataclasses
    if isinstance(o, dict):
        return all((k is None or isinstance(k, (bool, int, float, str, enum.Enum, bytes)) or rt.tok_kind(k)) and keys_scalar(v)
                   for k, v in o.items())
    if isinstance(o, (list, tuple, set, frozenset, collections.deque)):
        return all(keys_scalar(x) for x in o)
    if dataclasses.is_dataclass(o) and not isinstance(o, type):
        return all(keys_scalar(getattr(o, f.name)) for f in dataclasses.fields(o))
    return True


def run_case(c):
    from dataclass_wizard import asdict
    rt.fresh_typing_caches()
    reg = rt.Reg()
    out = {}
    try:
        cfg = c.get('cfg', {})
        if c.get('decl') is not None:
            # declaration axis: the root class (and every bind_to) comes from generated class source text;
            # cfg is then the configuration the declaration DOCUMENTS (used by the reference encoder only)
            import c03_decl
            cls, out['decl_src'] = c03_decl.build_root(c['root'], c['decl'], reg)
        else:
            cls = rt.build_type(c['root'], reg)
            meta = {}
            if cfg.get('xf'): meta['key_transform_with_dump'] = cfg['xf']
            if cfg.get('dt'): meta['marshal_date_time_as'] = cfg['dt']
            if cfg.get('tag_key'): meta['tag_key'] = cfg['tag_key']
            if cfg.get('auto_tags'): meta['auto_assign_tags'] = True
            rt.bind_meta(cls, meta)
        x = rt.build_value(c['value'], reg)
        if c.get('catchall_items') is not None:
            # the CatchAll field is the one flagged in the spec; its dict is given separately
            fname = [fd['name'] for fd in c['root']['fields'] if fd.get('catchall')][0]
            setattr(x, fname, rt.build_value(c['catchall_items'], reg))
    except BaseException as e:
        out['setup_err'] = err_info(e); out['setup_err']['tb'] = traceback.format_exc()[-800:]
        return out
    if not c.get('nomodel'):
        out['coq_v'] = rt.coq_pv(x, reg, old=True)
    out['lets'] = reg.lets
    # history: nested dataclass instances are dumped on their own BEFORE the first dump of the owner
    if c.get('pre_dump'):
        pre = []
        for m in rt.nested_instances(x):
            try:
                asdict(m)
                pre.append(type(m).__name__)
            except BaseException as e:
                out['pre_dump_err'] = err_info(e)
        out['pre_dumped'] = pre
    out['keys_scalar'] = keys_scalar(x)
    before = rt.show(x, reg)
    ids_before = rt.mutable_ids(x)
    try:
        d = asdict(x)
    except BaseException as e:
        out['dump_err'] = err_info(e)
        return out
    out['show_dump'] = rt.show(d, reg, old_ids=ids_before)
    out['is_dict'] = type(d) is dict
    # direct predicates --------------------------------------------------
    try:
        ref = rt.ref_encode(x, dict(cfg, lib_keys=True) if c.get('wild_names') else cfg, reg)
        if c.get('subclasses'):
            # values of user subclasses: the result may keep the subclass where the library keeps the container type
            # (as for namedtuple); it must be == the documented encoding and serialise to the same JSON text
            out['ref_ok'] = rt.demix(d) == ref
            try:
                out['ref_ok'] = out['ref_ok'] and json.dumps(d, sort_keys=False) == json.dumps(ref, sort_keys=False)
            except (TypeError, ValueError):
                pass
        else:
            out['ref_ok'] = rt.show(rt.demix(d), reg) == rt.show(ref, reg) and rt.demix(d) == ref
        if not out['ref_ok']:
            out['ref_show'] = rt.show(ref, reg)[:2000]
    except BaseException as e:
        out['ref_err'] = repr(e)[:300]
    out['shared'] = sorted(rt.mutable_ids(d) & ids_before) != []
    out['unchanged'] = rt.show(x, reg) == before
    try:
        txt = json.dumps(d)
        out['json_ok'] = True
    except (TypeError, ValueError) as e:
        out['json_ok'] = False
        out['json_err'] = repr(e)[:200]
        txt = None
    if c.get('wizard') and txt is not None:
        try:
            tj = x.to_json()
            a, b = json.loads(tj), json.loads(txt)
            out['to_json_ok'] = rt.show(a, reg) == rt.show(b, reg)
            lj = type(x).list_to_json([x, x])
            out['list_to_json_ok'] = rt.show(json.loads(lj), reg) == rt.show([b, b], reg)
        except BaseException as e:
            out['to_json_ok'] = False
            out['to_json_err'] = repr(e)[:300]
    out['unchanged'] = out['unchanged'] and rt.show(x, reg) == before
    # editing the result must not be visible through the instance
    try:
        rt.scribble(d)
        out['scribble_ok'] = rt.show(x, reg) == before
    except BaseException as e:
        out['scribble_ok'] = True
        out['scribble_err'] = repr(e)[:200]
    return out


def handler(p):
    if 'decl_programs' in p:
        # one fresh interpreter per declaration (class source text at module level)
        import c03_decl
        return {'programs': c03_decl.run_programs(p['decl_programs'], jobs=p.get('jobs', 8))}
    return {'cases': [run_case(c) for c in p['cases']]}


if __name__ == '__main__':
    main(handler)
