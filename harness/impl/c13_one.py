"""C13 — one family / tagging / Union order / position / engine, one interpreter.
Reads the configuration (JSON on stdin), defines the classes from generated source,
runs the operations and prints canonical outcomes (JSON).  Auto-tag assignment
writes the members' Meta (global), so every configuration has its own process."""
import sys, os, json
sys.path.insert(0, os.path.dirname(os.path.abspath(__file__)))
from _util import canon, err_info

PRE = '''from dataclasses import dataclass, field
from typing import Union, Optional, List, Dict, Tuple, NamedTuple, TypedDict
from typing_extensions import Annotated
from dataclass_wizard import JSONWizard, LoadMeta, DumpMeta, fromdict, asdict, CatchAll
from dataclass_wizard import KeyPath, path_field, json_field, json_key, skip_if_field, EQ
from dataclass_wizard.v1 import Alias, AliasPath


@dataclass
class Inner:
    x: int = 0
    y: str = 'y'
'''


def member_src(i, m, engine):
    """Every member is built inside its own factory function, so that two members can have the same __name__."""
    meta = {}
    if m.get('tag') is not None:
        meta['tag'] = m['tag']
    if m.get('own_auto'):
        meta['auto_assign_tags'] = True
    if m.get('own_tag_key') is not None:
        meta['tag_key'] = m['own_tag_key']
    if engine == 'v1' and (meta or m['style'] == 'inner'):
        meta['v1'] = True
    base = '(JSONWizard)' if m['style'] == 'inner' else ''
    if m.get('base') is not None:
        base = '(K%d)' % m['base']            # inheritance between members
    out = ['def _mk%d():' % i, '    @dataclass', '    class %s%s:' % (m['pyname'], base)]
    if m['style'] == 'inner' and meta:
        out.append('        class _(JSONWizard.Meta):')
        out.extend('            %s = %r' % kv for kv in meta.items())
    if 'body' in m:                           # rich member: declaration lines written by the harness
        out.extend('        ' + line for line in m['body'])
    else:
        for f, t, d in m['fields']:
            out.append('        %s: %s%s' % (f, t, '' if d is None else ' = ' + d))
    if m.get('catchall'):
        out.append('        extra: CatchAll = None')
    if m['style'] != 'inner' and meta:
        args = ', '.join('%s=%r' % kv for kv in meta.items())
        out.append('    LoadMeta(%s).bind_to(%s)' % (args, m['pyname']))
        out.append('    DumpMeta(%s).bind_to(%s)' % (args, m['pyname']))
    out.append('    return %s' % m['pyname'])
    out.append('K%d = _mk%d()' % (i, i))
    return '\n'.join(out) + '\n'


POS = {'nt': 'NT', 'td': 'TD', 'ntlist': 'List[NT]',     # the Union sits inside a NamedTuple field / TypedDict value
       'direct': '%s', 'opt': 'Optional[%s]', 'list': 'List[%s]', 'dict': 'Dict[str, %s]', 'tuple': 'Tuple[%s, int]',
       'vtuple': 'Tuple[%s, ...]', 'listdict': 'List[Dict[str, %s]]', 'optlist': 'Optional[List[%s]]'}
WRAP = {'direct': lambda x: x, 'opt': lambda x: x, 'list': lambda x: [x], 'dict': lambda x: {'k': x},
        'tuple': lambda x: (x, 1), 'vtuple': lambda x: (x,), 'listdict': lambda x: [{'k': x}], 'optlist': lambda x: [x]}
UNWRAP = {'direct': lambda x: x, 'opt': lambda x: x, 'list': lambda x: x[0], 'dict': lambda x: x['k'],
          'tuple': lambda x: x[0], 'vtuple': lambda x: x[0], 'listdict': lambda x: x[0]['k'], 'optlist': lambda x: x[0]}


def build_source(cfg):
    eng = cfg['engine']
    src = PRE
    for i, m in enumerate(cfg['members']):
        src += member_src(i, m, eng)
    args = []
    for a in cfg['order']:
        args.append('K%d' % a if isinstance(a, int) else a)
    c = cfg['container']
    meta = {}
    if c.get('tag_key') is not None:
        meta['tag_key'] = c['tag_key']
    if c.get('auto_assign_tags'):
        meta['auto_assign_tags'] = True
    if c.get('recursive') is False:
        meta['recursive'] = False
    if eng == 'v1':
        meta['v1'] = True
        if c.get('unknown') == 'raise':
            meta['v1_on_unknown_key'] = 'RAISE'
    elif c.get('unknown') == 'raise':
        meta['raise_on_unknown_json_key'] = True
    union = 'Union[%s]' % ', '.join(args)
    if c['position'] in ('nt', 'ntlist'):
        src += 'class NT(NamedTuple):\n    shape: %s\n    count: int\n' % union
    if c['position'] == 'td':
        src += 'class TD(TypedDict):\n    pet: %s\n' % union
    ann = POS[c['position']] % union if '%s' in POS[c['position']] else POS[c['position']]
    holder = c.get('holder')

    def cls_lines(name, m, field_line, no_meta):
        out = ['@dataclass', 'class %s(JSONWizard):' % name]
        if not no_meta:
            out.append('    class _(JSONWizard.Meta):')
            out.extend(['        %s = %r' % kv for kv in m.items()] or ['        pass'])
        out.append('    ' + field_line)
        return '\n'.join(out) + '\n'
    if holder:
        # the Union field lives in a holder class H with its own Meta, nested below the container C
        hm = {}
        if holder.get('tag_key') is not None:
            hm['tag_key'] = holder['tag_key']
        if eng == 'v1':
            hm['v1'] = True
        src += cls_lines('H', hm, 'u: %s' % ann, no_meta=not hm and not holder.get('meta'))
        src += cls_lines('C', meta, 'u: %s' % ('List[H]' if holder.get('list') else 'H'), no_meta=bool(c.get('no_meta')))
    else:
        src += cls_lines('C', meta, 'u: %s' % ann, no_meta=bool(c.get('no_meta')))
    return src


# ---- several distinct tagged Unions inside ONE field annotation (or in several fields of one class) -------------------
SLOT_WRAP = {'%s': lambda x: x, 'List[%s]': lambda x: [x], 'Dict[str, %s]': lambda x: {'k': x}}
SLOT_GET = {'%s': lambda v: v, 'List[%s]': lambda v: v[0], 'Dict[str, %s]': lambda v: v['k']}


def build_source_multi(cfg):
    eng = cfg['engine']
    src = PRE
    for i, m in enumerate(cfg['members']):
        src += member_src(i, m, eng)
    slots = []
    for u, w in zip(cfg['unions'], cfg['slots']):
        slots.append(w % ('Union[%s]' % ', '.join('K%d' % j for j in u)))
    c = cfg['container']
    meta = {}
    if c.get('tag_key') is not None:
        meta['tag_key'] = c['tag_key']
    if c.get('auto_assign_tags'):
        meta['auto_assign_tags'] = True
    if eng == 'v1':
        meta['v1'] = True
    lay = cfg['layout']
    if lay == 'fields':
        fields = ['u%d: %s' % (i, s_) for i, s_ in enumerate(slots)]
    else:
        t = 'Tuple[%s]' % ', '.join(slots)
        fields = ['u: ' + {'tuple': '%s', 'dict_tuple': 'Dict[str, %s]', 'list_tuple': 'List[%s]'}[lay] % t]
    out = ['@dataclass', 'class C(JSONWizard):', '    class _(JSONWizard.Meta):']
    out.extend(['        %s = %r' % kv for kv in meta.items()] or ['        pass'])
    out.extend('    ' + f for f in fields)
    return src + '\n'.join(out) + '\n'


def main_multi(cfg):
    out = {'setup': None, 'ops': []}
    src = build_source_multi(cfg)
    out['source'] = src
    ns = {'__name__': 'c13_case'}
    try:
        exec(compile(src, '<c13>', 'exec'), ns)
    except BaseException as e:  # noqa
        out['setup'] = err_info(e)
        json.dump(out, sys.stdout)
        return
    from dataclass_wizard import fromdict, asdict
    from dataclass_wizard.errors import ParseError
    C = ns['C']
    n = len(cfg['members'])
    lay, slots = cfg['layout'], cfg['slots']

    def mk(insts):
        vals = [SLOT_WRAP[w](k) for w, k in zip(slots, insts)]
        if lay == 'fields':
            return C(**{'u%d' % i: v for i, v in enumerate(vals)})
        t = tuple(vals)
        return C(u={'tuple': t, 'dict_tuple': {'k': t}, 'list_tuple': [t]}[lay])

    def slot_of(root, i, attr):
        if lay == 'fields':
            v = getattr(root, 'u%d' % i) if attr else root['u%d' % i]
        else:
            v = root.u if attr else root['u']
            v = {'tuple': lambda x: x, 'dict_tuple': lambda x: x['k'], 'list_tuple': lambda x: x[0]}[lay](v)[i]
        return SLOT_GET[slots[i]](v)

    for op in cfg['ops']:
        r = {}
        try:
            insts = [ns['K%d' % j](**vals) for j, vals in zip(op['choice'], op['values'])]
            d = json.loads(json.dumps(asdict(mk(insts))))
            r['dumped'] = [canon(slot_of(d, i, False)) for i in range(len(slots))]
            if op['op'] == 'mtag':
                slot_of(d, op['pos'], False)[op['tag_key']] = op['tag']
            c2 = fromdict(C, d)
            got = [slot_of(c2, i, True) for i in range(len(slots))]
            r['loaded_members'] = [which(ns, n, v) for v in got]
            r['equal'] = [bool(v == k) and type(v) is type(k) for v, k in zip(got, insts)]
        except ParseError as e:
            r.update(err_info(e))
            vt = e.kwargs.get('valid_tags')
            b = e
            while vt is None and isinstance(getattr(b, 'base_error', None), ParseError):
                b = b.base_error
                vt = b.kwargs.get('valid_tags')
            r['valid_tags'] = sorted(vt) if isinstance(vt, list) else None
        except BaseException as e:  # noqa
            r.update(err_info(e))
        out['ops'].append(r)
    json.dump(out, sys.stdout)


class MyDict(dict):
    pass


def retype(v, kind):
    """Rebuild a JSON document with every dict replaced by a dict subclass."""
    import collections
    if isinstance(v, dict):
        items = [(k, retype(x, kind)) for k, x in v.items()]
        if kind == 'OrderedDict':
            return collections.OrderedDict(items)
        if kind == 'defaultdict':
            return collections.defaultdict(None, items)      # no default factory: missing keys raise KeyError
        if kind == 'subclass':
            return MyDict(items)
        return dict(items)
    if isinstance(v, list):
        return [retype(x, kind) for x in v]
    return v


def which(ns, n, v):
    for i in range(n):
        if type(v) is ns['K%d' % i]:
            return i
    return None


def main():
    cfg = json.load(sys.stdin)
    if cfg.get('multi'):
        return main_multi(cfg)
    out = {'setup': None, 'ops': []}
    src = build_source(cfg)
    out['source'] = src
    ns = {'__name__': 'c13_case'}
    try:
        exec(compile(src, '<c13>', 'exec'), ns)
    except BaseException as e:  # noqa
        out['setup'] = err_info(e)
        json.dump(out, sys.stdout)
        return
    from dataclass_wizard import fromdict, asdict
    from dataclass_wizard.errors import ParseError
    C = ns['C']
    pos = cfg['container']['position']
    n = len(cfg['members'])

    kind = cfg.get('doc_type', 'dict')
    holder = cfg['container'].get('holder')
    if pos in ('nt', 'ntlist', 'td'):
        WRAP.update({'nt': lambda x: ns['NT'](x, 1), 'ntlist': lambda x: [ns['NT'](x, 1)], 'td': lambda x: {'pet': x}})
        UNWRAP.update({'nt': lambda v: v[0], 'ntlist': lambda v: v[0][0], 'td': lambda v: v['pet']})

    def mk_container(k):
        inner = WRAP[pos](k)
        if holder:
            h = ns['H'](u=inner)
            return C(u=[h] if holder.get('list') else h)
        return C(u=inner)

    def member_of_dump(d):
        v = d['u']
        if holder:
            v = (v[0] if holder.get('list') else v)['u']
        return UNWRAP[pos](v)

    def member_of_inst(c):
        v = c.u
        if holder:
            v = (v[0] if holder.get('list') else v).u
        return UNWRAP[pos](v)

    def load(nested_doc):
        inner = WRAP[pos](nested_doc) if pos not in ('nt', 'ntlist') else ([nested_doc, 1] if pos == 'nt' else [[nested_doc, 1]])
        if holder:
            inner = [{'u': inner}] if holder.get('list') else {'u': inner}
        full = retype(json.loads(json.dumps({'u': inner})), kind)
        return member_of_inst(fromdict(C, full))

    def build(member, values):
        """instance of member class from JSON values; nested dataclasses by the member's `kinds` map"""
        kinds = cfg['members'][member].get('kinds', {})
        kw = {}
        post = {}
        for f, v in values.items():
            kd = kinds.get(f, 'plain')
            if kd == 'inner':
                v = ns['Inner'](**v)
            elif kd == 'innerlist':
                v = [ns['Inner'](**x) for x in v]
            elif kd == 'noinit':
                post[f] = v
                continue
            kw[f] = v
        k = ns['K%d' % member](**kw)
        for f, v in post.items():
            setattr(k, f, v)
        return k

    for op in cfg['ops']:
        r = {}
        try:
            if op['op'] == 'retag':
                # dump a member instance, replace / remove the tag in the dumped dict, load it
                K = ns['K%d' % op['member']]
                k = build(op['member'], op['values'])
                d = json.loads(json.dumps(asdict(mk_container(k))))
                nested = member_of_dump(d)
                # the key the dump wrote the tag under (whatever level configured it)
                tk = next((kk for kk, vv in nested.items() if vv == op.get('cur_tag') and kk in op.get('tag_keys', [])),
                          op['tag_key']) if isinstance(nested, dict) else op['tag_key']
                r['tag_key_found'] = tk
                r['had_tag'] = nested.get(tk) if isinstance(nested, dict) else None
                if op['tag'] is None:
                    nested.pop(tk, None)
                else:
                    nested[tk] = op['tag']
                k2 = member_of_inst(fromdict(C, retype(d, kind)))
                r['loaded_member'] = which(ns, n, k2)
                r['loaded'] = canon(k2)
            elif op['op'] == 'roundtrip':
                K = ns['K%d' % op['member']]
                k = build(op['member'], op['values'])
                d = asdict(mk_container(k))
                nested = member_of_dump(d)
                r['dumped'] = canon(nested)
                k2 = member_of_inst(fromdict(C, retype(json.loads(json.dumps(d)), kind)))
                r['loaded_member'] = which(ns, n, k2)
                r['equal'] = bool(k2 == k) and type(k2) is K
                r['loaded'] = canon(k2)
            elif op['op'] == 'scalar':
                v = op['value']
                d = asdict(mk_container(v))
                v2 = member_of_inst(fromdict(C, json.loads(json.dumps(d))))
                r['equal'] = (v2 == v and type(v2) is type(v))
            elif op['op'] == 'alone_dump':       # earlier use: the member class dumped on its own
                K = ns['K%d' % op['member']]
                r['dumped'] = canon(asdict(build(op['member'], op['values'])))
            elif op['op'] == 'alone_load':       # earlier use: the member class loaded on its own
                K = ns['K%d' % op['member']]
                r['loaded'] = canon(fromdict(K, retype(json.loads(json.dumps(op['doc'])), kind)))
            elif op['op'] == 'load':
                k2 = load(op['doc'])
                r['loaded_member'] = which(ns, n, k2)
                r['loaded'] = canon(k2)
        except ParseError as e:
            r.update(err_info(e))       # keep what was observed before the error (e.g. the dump of a round trip)
            vt = e.kwargs.get('valid_tags')
            b = e
            while vt is None and isinstance(getattr(b, 'base_error', None), ParseError):
                b = b.base_error            # e.g. v1 TypedDict helper re-wraps the Union's ParseError
                vt = b.kwargs.get('valid_tags')
            r['valid_tags'] = sorted(vt) if isinstance(vt, list) else None
            r['input_tag'] = e.kwargs.get('input_tag')
            r['tag_key'] = e.kwargs.get('tag_key')
        except BaseException as e:  # noqa
            r.update(err_info(e))
        out['ops'].append(r)
    json.dump(out, sys.stdout)


if __name__ == '__main__':
    main()
