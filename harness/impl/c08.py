"""Implementation runner for C08 (key spellings, aliases, paths)."""
import sys, os, dataclasses
sys.path.insert(0, os.path.dirname(os.path.abspath(__file__)))
from _util import *


def h_strings(strings):
    from dataclass_wizard.utils.string_conv import (to_snake_case, to_lisp_case, to_camel_case,
                                                     to_pascal_case, normalize, possible_json_keys)
    out = []
    for s in strings:
        def opt(f):
            try:
                return f(s)
            except IndexError:
                return None
        try:
            pk = possible_json_keys(s)
        except IndexError:
            pk = None
        out.append({'snake': to_snake_case(s), 'lisp': to_lisp_case(s), 'camel': opt(to_camel_case),
                    'pascal': opt(to_pascal_case), 'normalize': normalize(s), 'pjk': pk})
    return out


_n = [0]


def mk_class(fields, engine, meta_kwargs):
    """plain dataclass with int fields; Meta bound through LoadMeta/DumpMeta."""
    from dataclass_wizard import LoadMeta, DumpMeta
    _n[0] += 1
    cls = dataclasses.make_dataclass('K%d' % _n[0], [(f, int) for f in fields])
    load_kw = dict(meta_kwargs.get('load', {}))
    if engine == 'v1':
        load_kw['v1'] = True
    if load_kw:
        LoadMeta(**load_kw).bind_to(cls)
    if meta_kwargs.get('dump'):
        DumpMeta(**meta_kwargs['dump']).bind_to(cls)
    return cls


def h_e2e(tasks):
    from dataclass_wizard import fromdict, asdict
    out = []
    for t in tasks:
        try:
            cls = mk_class(t['fields'], t['engine'], t.get('meta', {}))
            if t['op'] == 'load':
                r = outcome(fromdict, cls, dict(t['doc']))
                # repeat: the key cache must not change the answer
                r2 = outcome(fromdict, cls, dict(t['doc']))
                r['repeat_same'] = (r2 == {k: v for k, v in r.items() if k != 'repeat_same'})
            else:
                inst = cls(*t['values'])
                r = outcome(asdict, inst)
        except BaseException as e:  # class construction / binding failed
            r = err_info(e); r['phase'] = 'setup'
        out.append(r)
    return out


def h_resolve(cases):
    """Which field receives the value stored under `key` (default engine)?"""
    from dataclass_wizard import fromdict
    out = []
    for c in cases:
        _n[0] += 1
        cls = dataclasses.make_dataclass('R%d' % _n[0], [(f, int, dataclasses.field(default=0)) for f in c['fields']])
        inst = fromdict(cls, {c['key']: 7})
        hit = [f for f in c['fields'] if getattr(inst, f) == 7]
        out.append(hit[0] if len(hit) == 1 else (None if not hit else '+'.join(hit)))
    return out


def handler(p):
    return {'strings': h_strings(p.get('strings', [])), 'e2e': h_e2e(p.get('e2e', [])),
            'resolve': h_resolve(p.get('resolve', []))}


if __name__ == '__main__':
    main(handler)
