"""Implementation runner for C18 (EnvWizard).  One interpreter = one history.

Payload: {'os0': {name: value}, 'files': {fid: [[k, v], ...]}, 'dirs': {did: [[k, v], ...]},
          'ops': [ {'op': 'class', 'id': n, 'cls': {...}} | {'op': 'set', 'k', 'v'} | {'op': 'del', 'k'} |
                   {'op': 'inst', 'cls': n, 'kwargs': {...}, 'reload': bool, ['env_file': false|[fid..]],
                    ['prefix': null|str], ['secrets': [did..]]} ]}
Environment variables are set ONLY inside this child interpreter: os.environ is cleared after the
library is imported and replaced by 'os0'.  Dotenv files / secret directories are written to a temp
directory under the current directory (the check's workdir) and removed at the end.
os.environ is snapshotted before and after every library call (class statement, instantiation).
"""
import sys, os, re, shutil, tempfile
sys.path.insert(0, os.path.dirname(os.path.abspath(__file__)))
from _util import *


def dotenv_line(k, v):
    # single-quoted value: python-dotenv takes it literally (generator avoids quote, backslash, dollar)
    assert "'" not in v and '\\' not in v and '$' not in v and '\n' not in v, v
    return "%s='%s'\n" % (k, v)


def write_files(root, files, dirs):
    fpath, dpath = {}, {}
    for fid, content in files.items():
        p = os.path.join(root, 'f_%s.env' % fid)
        with open(p, 'w') as f:
            for k, v in content:
                f.write(dotenv_line(k, v))
        fpath[fid] = p
    for did, content in dirs.items():
        p = os.path.join(root, 'd_%s' % did)
        os.mkdir(p)
        for k, v in content:
            with open(os.path.join(p, k), 'w') as f:
                f.write(v)
        dpath[did] = p
    return fpath, dpath


def py_value(spec):
    """{'py': json value} | {'dt': iso} -> Python value (keyword arguments, defaults)."""
    import datetime
    if 'dt' in spec:
        return datetime.datetime.fromisoformat(spec['dt'])
    return spec['py']


def class_source(c, fpath, dpath):
    """Source text of the EnvWizard subclass + the namespace it needs."""
    ns = {}
    head = 'class %s(EnvWizard%s):\n' % (c['name'], ', reload_env=True' if c.get('reload_env') else '')
    body = []
    meta = []
    if c.get('prefix') is not None:
        meta.append('env_prefix = %r' % c['prefix'])
    if c.get('prio') is not None:
        if c.get('prio_as_enum'):
            meta.append('key_lookup_with_load = LetterCasePriority.%s' % c['prio'])
        else:
            meta.append('key_lookup_with_load = %r' % c['prio'])
    if c.get('env_file') is not None:
        paths = [fpath[str(i)] for i in c['env_file']]
        meta.append('env_file = %r' % ((paths[0] if len(paths) == 1 and c.get('single_as_str') else tuple(paths)),))
    if c.get('secrets') is not None:
        paths = [dpath[str(i)] for i in c['secrets']]
        meta.append('secrets_dir = %r' % ((paths[0] if len(paths) == 1 and c.get('single_as_str') else tuple(paths)),))
    f2v = {f['name']: (tuple(f['explicit']) if isinstance(f['explicit'], list) and c.get('single_as_str') else f['explicit'])
           for f in c['fields'] if f.get('explicit') is not None and f.get('via') == 'meta'}
    if f2v:
        meta.append('field_to_env_var = %r' % f2v)
    if meta:
        body.append('    class _(EnvWizard.Meta):\n' + ''.join('        %s\n' % m for m in meta))
    for i, f in enumerate(c['fields']):
        args = []
        via = f.get('via')
        if f.get('explicit') is not None and via in ('env_field', 'json_field'):
            keys = f['explicit']
            args.append(repr(keys if isinstance(keys, str) else tuple(keys)))
        if 'default' in f:
            dv = py_value(f['default'])
            ns['_d%d' % i] = dv
            if isinstance(dv, (list, dict)):
                ns['_df%d' % i] = (lambda v: (lambda: type(v)(v)))(dv)
                args.append('default_factory=_df%d' % i)
                dflt = 'field(default_factory=_df%d)' % i
            else:
                args.append('default=_d%d' % i)
                dflt = '_d%d' % i
        else:
            dflt = None
        if f.get('explicit') is not None and via in ('env_field', 'json_field'):
            body.append('    %s: %s = %s(%s)\n' % (f['name'], f['type'], via, ', '.join(args)))
        elif dflt is not None:
            body.append('    %s: %s = %s\n' % (f['name'], f['type'], dflt))
        else:
            body.append('    %s: %s\n' % (f['name'], f['type']))
    if not body:
        body.append('    pass\n')
    return head + ''.join(body), ns


def missing_names(e):
    return [m.group(1) for m in re.finditer(r'^\s*- (\w+) -> ', e.fields, re.M)]


def handler(p):
    import dataclass_wizard
    from dataclass_wizard import EnvWizard, env_field, json_field
    from dataclass_wizard.enums import LetterCasePriority
    from dataclass_wizard.errors import MissingVars
    import dataclasses, datetime, typing

    root = tempfile.mkdtemp(prefix='c18_', dir=os.getcwd())
    out = []
    try:
        fpath, dpath = write_files(root, p.get('files', {}), p.get('dirs', {}))
        os.environ.clear()
        os.environ.update(p['os0'])
        classes = {}
        base_ns = {'EnvWizard': EnvWizard, 'env_field': env_field, 'json_field': json_field,
                   'LetterCasePriority': LetterCasePriority, 'field': dataclasses.field,
                   'datetime': datetime.datetime, 'Optional': typing.Optional, 'List': typing.List,
                   'Dict': typing.Dict, 'dict': dict, 'list': list, '__name__': 'c18_case'}
        for o in p['ops']:
            kind = o['op']
            if kind == 'set':
                os.environ[o['k']] = o['v']
                out.append({'op': 'set'})
            elif kind == 'del':
                os.environ.pop(o['k'], None)
                out.append({'op': 'del'})
            elif kind == 'write':
                if o['kind'] == 'file':
                    with open(fpath[str(o['id'])], 'w') as f:
                        for k, v in o['content']:
                            f.write(dotenv_line(k, v))
                else:
                    d = dpath[str(o['id'])]
                    for name in os.listdir(d):
                        os.remove(os.path.join(d, name))
                    for k, v in o['content']:
                        with open(os.path.join(d, k), 'w') as f:
                            f.write(v)
                out.append({'op': 'write'})
            elif kind == 'reset':
                os.environ.clear()
                os.environ.update(o['env'])
                out.append({'op': 'reset'})
            elif kind == 'class':
                before = dict(os.environ)
                try:
                    src, ns = class_source(o['cls'], fpath, dpath)
                    g = dict(base_ns); g.update(ns)
                    exec(src, g)
                    classes[o['id']] = g[o['cls']['name']]
                    r = {'op': 'class', 'ok': True}
                except BaseException as e:
                    r = {'op': 'class', 'ok': False}; r.update(err_info(e))
                r['environ_same'] = dict(os.environ) == before
                out.append(r)
            elif kind == 'inst':
                cls = classes.get(o['cls'])
                if cls is None:
                    out.append({'op': 'inst', 'err': 'NoClass', 'environ_same': True, 'os': dict(os.environ)})
                    continue
                kw = {k: py_value(v) for k, v in o.get('kwargs', {}).items()}
                if o.get('reload'):
                    kw['_reload'] = True
                if 'env_file' in o:
                    ef = o['env_file']
                    kw['_env_file'] = False if ef is False else [fpath[str(i)] for i in ef]
                if 'prefix' in o:
                    kw['_env_prefix'] = o['prefix']
                if 'secrets' in o:
                    kw['_secrets_dir'] = [dpath[str(i)] for i in o['secrets']]
                before = dict(os.environ)
                try:
                    inst = cls(**kw)
                    r = {'op': 'inst', 'ok': canon(inst)}
                except MissingVars as e:
                    r = {'op': 'inst', 'err': 'MissingVars', 'missing': missing_names(e), 'lib': True}
                except BaseException as e:
                    r = {'op': 'inst'}; r.update(err_info(e))
                after = dict(os.environ)
                r['environ_same'] = after == before
                r['os'] = after
                out.append(r)
            else:
                raise ValueError(kind)
    finally:
        shutil.rmtree(root, ignore_errors=True)
    return {'results': out, 'leftover': os.path.exists(root)}


if __name__ == '__main__':
    main(handler)
