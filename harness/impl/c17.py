"""Implementation runner for C17 (patterned dates/times).

Input : {'groups': [{'engine': 'v0'|'v1', 'header': <source of NamedTuple / TypedDict / nested dataclass classes and of shared
          module-level pattern objects>, 'fields': [{'ann': <annotation source>, 'inputs': [<JSON value>]}]}]}
One dataclass per group (written as source text, one patterned field per entry, every
field defaulting to None so that fields are loaded one at a time); per input:
    load  -> canonical value / error,
    dump  -> asdict(...) of the loaded instance (the field's dumped form),
    again -> load of that dump, with Python equality and type equality against the first load.
Canonical date/time values: {'t': class name, 'f': [y, m, d, h, mi, s, us, fold], 'tz': None | ['zone', key] | ['off', secs]};
containers: {'seq': 'list'|'tuple', 'items'}, {'nt': NamedTuple class, 'items'}, {'map': [[key, value]]}, {'dc': class, 'fields'}.
"""
import sys, os, types, datetime, zoneinfo, dataclasses
sys.path.insert(0, os.path.dirname(os.path.abspath(__file__)))
from _util import main

HEADER = '''from dataclasses import dataclass
from datetime import date, time, datetime
from typing import Annotated, List, Dict, Optional, Tuple, Union, NamedTuple, TypedDict
from dataclass_wizard import fromdict, asdict, LoadMeta
%s


class MyDate(date):
    pass


class MyTime(time):
    pass


class MyDT(datetime):
    pass


%s


@dataclass
class C:
%s
'''
IMPORTS = {'v0': 'from dataclass_wizard import DatePattern, TimePattern, DateTimePattern, Pattern\n'
                 'from dataclass_wizard import json_field, json_key, path_field, KeyPath, skip_if_field, SkipIfNone\n'
                 'from dataclasses import field',
           'v1': 'from dataclass_wizard.v1 import (Pattern, AwarePattern, UTCPattern, DatePattern, DateTimePattern, TimePattern,\n'
                 '    AwareDateTimePattern, AwareTimePattern, UTCDateTimePattern, UTCTimePattern, Alias, AliasPath)\n'
                 'from dataclasses import field'}


def tzd(t):
    if t is None:
        return None
    if isinstance(t, zoneinfo.ZoneInfo):
        return ['zone', t.key]
    if isinstance(t, datetime.timezone):
        return ['off', int(t.utcoffset(None).total_seconds())]
    return ['other', type(t).__name__]


def canon(v):
    if v is None:
        return None
    if isinstance(v, datetime.datetime):
        return {'t': type(v).__name__, 'f': [v.year, v.month, v.day, v.hour, v.minute, v.second, v.microsecond, v.fold],
                'tz': tzd(v.tzinfo)}
    if isinstance(v, datetime.date):
        return {'t': type(v).__name__, 'f': [v.year, v.month, v.day, 0, 0, 0, 0, 0], 'tz': None}
    if isinstance(v, datetime.time):
        return {'t': type(v).__name__, 'f': [0, 0, 0, v.hour, v.minute, v.second, v.microsecond, v.fold], 'tz': tzd(v.tzinfo)}
    if isinstance(v, bool):
        return {'bool': v}
    if isinstance(v, int):
        return {'int': v}
    if isinstance(v, float):
        return {'float': v.hex()}
    if isinstance(v, str):
        return {'str': v}
    if isinstance(v, tuple) and hasattr(v, '_fields'):
        return {'nt': type(v).__name__, 'items': [canon(x) for x in v]}
    if isinstance(v, (list, tuple)):
        return {'seq': type(v).__name__, 'items': [canon(x) for x in v]}
    if isinstance(v, dict):
        return {'map': [[canon(k), canon(x)] for k, x in v.items()]}
    if dataclasses.is_dataclass(v):
        return {'dc': type(v).__name__, 'fields': [[f.name, canon(getattr(v, f.name))] for f in dataclasses.fields(v)]}
    return {'other': type(v).__name__, 'repr': repr(v)[:80]}


def err(e):
    from dataclass_wizard.errors import ParseError
    try:
        msg = str(e)
    except BaseException:
        msg = '<unrenderable>'
    return {'err': type(e).__name__, 'parse_error': isinstance(e, ParseError), 'msg': msg[:1500]}


def same_types(a, b):
    if type(a) is not type(b):
        return False
    if isinstance(a, (list, tuple)):
        return len(a) == len(b) and all(same_types(x, y) for x, y in zip(a, b))
    if isinstance(a, dict):
        return len(a) == len(b) and all(same_types(x, y) for x, y in zip(a, b)) and \
            all(same_types(x, y) for x, y in zip(a.values(), b.values()))
    if dataclasses.is_dataclass(a):
        return all(same_types(getattr(a, f.name), getattr(b, f.name)) for f in dataclasses.fields(a))
    return getattr(a, 'tzinfo', None) == getattr(b, 'tzinfo', None)


def run_group(g, idx):
    name = 'c17_mod_%d' % idx
    mod = types.ModuleType(name)
    sys.modules[name] = mod
    lines = ['    f%d: %s = %s' % (i, f['ann'], f.get('rhs', 'None')) for i, f in enumerate(g['fields'])]
    src = HEADER % (IMPORTS[g['engine']], g.get('header', ''), '\n'.join(lines))
    if g['engine'] == 'v1':
        src += '\nLoadMeta(v1=True).bind_to(C)\n'
    out = []
    try:
        exec(compile(src, name + '.py', 'exec'), mod.__dict__)
        C, fromdict, asdict = mod.C, mod.fromdict, mod.asdict
    except BaseException as e:
        return [[dict(err(e), phase='class')] * len(f['inputs']) for f in g['fields']]
    for i, f in enumerate(g['fields']):
        key = 'f%d' % i
        path = f.get('path') or [key]

        def wrap(v):
            for k in reversed(path):
                v = {k: v}
            return v

        def unwrap(d):
            """the dumped form of the field: under its path / alias / own name"""
            x = d
            try:
                for k in path:
                    x = x[k]
                return x
            except (KeyError, TypeError):
                return d.get(key)
        res = []
        for s in f['inputs']:
            r = {}
            try:
                inst = fromdict(C, wrap(s))
                v = getattr(inst, key)
                r['load'] = {'ok': canon(v)}
            except BaseException as e:
                r['load'] = err(e)
                res.append(r)
                continue
            try:
                d = asdict(inst)
                r['dump'] = unwrap(d)
                inst2 = fromdict(C, wrap(r['dump']))
                v2 = getattr(inst2, key)
                r['again'] = {'ok': canon(v2)}
                r['again_equal'] = bool(v2 == v) and same_types(v, v2)
            except BaseException as e:
                r['again'] = err(e)
            res.append(r)
        out.append(res)
    return out


def handler(p):
    return {'groups': [run_group(g, i) for i, g in enumerate(p['groups'])]}


if __name__ == '__main__':
    main(handler)
