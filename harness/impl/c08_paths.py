"""Implementation runner for C08: aliases and object paths, end to end.

Classes are built from source text (exec) so that every declaration style of the
property can be exercised.  One task = one fresh class."""
import sys, os, math
sys.path.insert(0, os.path.dirname(os.path.abspath(__file__)))
from _util import *

PRE = '''
from dataclasses import dataclass, field
from typing import Annotated, Optional
from dataclass_wizard import (JSONWizard, fromdict, asdict, json_field, json_key, path_field, KeyPath,
                              LoadMeta, DumpMeta)
'''
PRE_V1 = PRE + '''
from dataclass_wizard.v1 import Alias, AliasPath
'''


def h_split(paths):
    from dataclass_wizard.utils.object_path import split_object_path
    out = []
    for p in paths:
        try:
            out.append({'ok': [canon(x) for x in split_object_path(p)]})
        except BaseException as e:
            out.append(err_info(e))
    return out


def nested_get(doc, comps):
    cur = doc
    for c in comps:
        cur = cur[c]
    return cur


def decode_comp(c):
    k, v = c
    if k == 'float':
        return float.fromhex(v) if v not in ('nan', 'inf', '-inf') else float(v)
    if k == 'int':
        return int(v)
    if k == 'bool':
        return bool(v)
    return v


def build_doc(comps, value):
    doc = value
    for c in reversed(comps):
        doc = {c: doc}
    return doc


def run_alias(t, n):
    """t: {engine, style, aliases, all, dump, value}"""
    A = t['aliases']
    eng = t['engine']
    style = t['style']
    src = PRE_V1 if eng == 'v1' else PRE
    name = 'AliasCls%d' % n
    meta_lines = []
    if eng == 'v1':
        meta_lines.append('v1 = True')
    if style == 'json_field':
        decl = 'f: int = json_field(%r, all=%r, dump=%r)' % (A if len(A) > 1 else A[0], t['all'], t['dump'])
    elif style == 'json_key':
        decl = 'f: Annotated[int, json_key(*%r, all=%r, dump=%r)]' % (tuple(A), t['all'], t['dump'])
    elif style == 'meta_map':
        m = {a: 'f' for a in A}
        if t['all']:
            m['__all__'] = True
        meta_lines.append('json_key_to_field = %r' % m)
        decl = 'f: int'
    elif style == 'v1_alias':
        if t.get('load_only'):
            decl = 'f: int = Alias(load=%r)' % (tuple(A),)
        elif t['dump'] is False:
            decl = 'f: int = Alias(*%r, skip=True)' % (tuple(A),)
        else:
            decl = 'f: int = Alias(*%r)' % (tuple(A),)
    elif style == 'v1_meta':
        meta_lines.append('v1_field_to_alias = %r' % {'f': (A if len(A) > 1 else A[0])})
        decl = 'f: int'
    else:
        raise ValueError(style)
    src += '@dataclass\nclass %s(JSONWizard):\n' % name
    if meta_lines:
        src += '    class _(JSONWizard.Meta):\n' + ''.join('        %s\n' % l for l in meta_lines)
    src += '    g: int\n    %s\n' % decl
    ns = {}
    res = {'loads': [], 'dump': None, 'both': None}
    try:
        exec(src, ns)
        cls = ns[name]
    except BaseException as e:
        r = err_info(e); r['phase'] = 'setup'; r['src'] = src
        return r
    v = t['value']
    for a in A:
        res['loads'].append(outcome(cls.from_dict, {a: v, 'g': 1}))
    if len(A) > 1:
        # several aliases present at once: v1 documents "first listed wins"
        doc = {'g': 1}
        for i, a in enumerate(reversed(A)):
            doc[a] = v + len(A) - 1 - i
        res['both'] = outcome(cls.from_dict, doc)
    try:
        inst = cls(g=1, f=v)
        res['dump'] = outcome(inst.to_dict)
        res['dump2'] = outcome(inst.to_dict)
    except BaseException as e:
        res['dump'] = err_info(e)
    return res


def run_path(t, n):
    """t: {engine, style, path (str), comps ([[kind, val]...]), value}"""
    comps = [decode_comp(c) for c in t['comps']]
    eng = t['engine']
    src = PRE_V1 if eng == 'v1' else PRE
    name = 'PathCls%d' % n
    style = t['style']
    if style == 'path_field':
        decl = 'f: int = path_field(%r)' % t['path']
    elif style == 'KeyPath':
        decl = 'f: Annotated[int, KeyPath(%r)]' % t['path']
    elif style == 'AliasPath':
        decl = 'f: int = AliasPath(%r)' % t['path']
    else:
        raise ValueError(style)
    src += '@dataclass\nclass %s(JSONWizard):\n' % name
    if eng == 'v1':
        src += '    class _(JSONWizard.Meta):\n        v1 = True\n'
    src += '    g: int\n    %s\n' % decl
    ns = {}
    try:
        exec(src, ns)
        cls = ns[name]
    except BaseException as e:
        r = err_info(e); r['phase'] = 'setup'; r['src'] = src
        return r
    v = t['value']
    doc = build_doc(comps, v)
    if not isinstance(doc, dict):
        doc = {}
    doc = dict(doc); doc['g'] = 1
    res = {'load': outcome(cls.from_dict, doc)}
    try:
        d = cls(g=1, f=v).to_dict()
        try:
            got = nested_get(d, comps)
            res['dump_at_path'] = canon(got)
        except BaseException as e:
            res['dump_at_path'] = {'missing': type(e).__name__, 'dump': canon(d)}
        res['dump_keys'] = [canon(k) for k in d]
    except BaseException as e:
        res['dump_at_path'] = err_info(e)
    return res


def desurrogate(x):
    """JSON transport joins a lone high+low surrogate pair into one astral character, which would make
    a key mis-decoded as two lone surrogates ("\\ud83d\\udd11" read as a Python literal) look
    correct on the harness side: make every surrogate code point visible instead."""
    if isinstance(x, str):
        if any(0xD800 <= ord(c) <= 0xDFFF for c in x):
            return ''.join('<surrogate %04x>' % ord(c) if 0xD800 <= ord(c) <= 0xDFFF else c for c in x)
        return x
    if isinstance(x, list):
        return [desurrogate(v) for v in x]
    if isinstance(x, dict):
        return {desurrogate(k): desurrogate(v) for k, v in x.items()}
    return x


def handler(p):
    out = {'split': h_split(p.get('split', [])), 'alias': [], 'path': []}
    for n, t in enumerate(p.get('alias', [])):
        out['alias'].append(run_alias(t, n))
    for n, t in enumerate(p.get('path', [])):
        out['path'].append(run_path(t, n))
    return desurrogate(out)


if __name__ == '__main__':
    main(handler)
