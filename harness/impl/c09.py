"""Implementation runner for C09 (absent keys).

Payload: {'classes': [ {'spec': <class spec>, 'engine': 'v0'|'v1', 'docs': [doc, ...]} ],
          'witness': [ {...} ]}
A class spec is {'name': str, 'fields': [{'name', 'dflt': 'req'|'def'|'fac', 'init': bool,
 'kind': 'leaf'|'nested'|'list', 'ty': 'int'|'str'|'ints', 'default': <json>, 'fac': 'list'|'inst',
 'cls': <class spec>}]}.
Every document is loaded TWICE; the result carries the canonical tree of the first load
and whether all default_factory products (omitted factory fields, all depths) are pairwise
distinct objects within and across the two loads and distinct from the library's cached
FIELD_TO_DEFAULT product.
"""
import sys, os, dataclasses, typing
sys.path.insert(0, os.path.dirname(os.path.abspath(__file__)))
from _util import *

_built = {}


def build(spec, registry):
    """dataclass for a spec (bottom-up); registry: name -> class"""
    fields = []
    for f in spec['fields']:
        if f['kind'] == 'leaf':
            tp = {'int': int, 'str': str, 'ints': typing.List[int]}[f['ty']]
        else:
            inner = build(f['cls'], registry)
            tp = inner if f['kind'] == 'nested' else typing.List[inner]
        kw = {}
        if not f['init']:
            kw['init'] = False
            kw['repr'] = False
        if f['dflt'] == 'def':
            kw['default'] = f['default']
            if f['kind'] == 'nested' and f['default'] is None:
                tp = typing.Optional[tp]
        elif f['dflt'] == 'fac':
            if f['fac'] == 'list':
                kw['default_factory'] = list
            else:  # a fresh complete instance of the nested class
                inner_spec = f['cls']
                kw['default_factory'] = (lambda s=inner_spec: make_full(s, registry))
        fields.append((f['name'], tp, dataclasses.field(**kw)))
    cls = dataclasses.make_dataclass(spec['name'], fields)
    cls.__qualname__ = spec['name']
    registry[spec['name']] = cls
    return cls


def make_full(spec, registry):
    """instance of the class with every required init field set to a fixed value"""
    cls = registry[spec['name']]
    kw = {}
    for f in spec['fields']:
        if f['init'] and f['dflt'] == 'req':
            if f['kind'] == 'leaf':
                kw[f['name']] = {'int': 0, 'str': '', 'ints': []}[f['ty']]
            elif f['kind'] == 'nested':
                kw[f['name']] = make_full(f['cls'], registry)
            else:
                kw[f['name']] = []
    return cls(**kw)


_UNSET = object()


def same(a, b):
    """structural equality that tolerates unset attributes (init=False without default)"""
    if dataclasses.is_dataclass(a) and dataclasses.is_dataclass(b) and type(a) is type(b):
        return all(same(getattr(a, f.name, _UNSET), getattr(b, f.name, _UNSET)) for f in dataclasses.fields(a))
    if isinstance(a, list) and isinstance(b, list):
        return len(a) == len(b) and all(same(x, y) for x, y in zip(a, b))
    if a is _UNSET or b is _UNSET:
        return a is b
    return type(a) is type(b) and a == b


def enc_leaf(v):
    if isinstance(v, bool) or v is None:
        return 'n' if v is None else 'b%d' % v
    if isinstance(v, int):
        return 'i%d' % v if v >= 0 else 'im%d' % -v
    if isinstance(v, str):
        return 's' + v.encode().hex()
    if isinstance(v, list) and all(isinstance(x, int) and not isinstance(x, bool) for x in v):
        return 'l' + 'x'.join(str(x) for x in v)
    return 'q' + repr(v).encode().hex()


def walk(inst, spec, doc, products, registry):
    """canonical tree of a loaded instance, guided by the spec and the document that was
    loaded; collects (object) default_factory products of omitted fields"""
    if not dataclasses.is_dataclass(inst) or type(inst).__name__ != spec['name']:
        return 'X(%s)' % type(inst).__name__
    parts = []
    for f in spec['fields']:
        nm = f['name']
        if not hasattr(inst, nm):
            continue  # attribute unset
        val = getattr(inst, nm)
        present = f['init'] and isinstance(doc, dict) and nm in doc
        if present:
            if f['kind'] == 'leaf':
                s = 'V' + enc_leaf(val)
            elif f['kind'] == 'nested':
                s = walk(val, f['cls'], doc[nm], products, registry)
            else:
                if not isinstance(val, list) or len(val) != len(doc[nm]):
                    s = 'X(list)'
                else:
                    s = 'L[' + ','.join(walk(x, f['cls'], d, products, registry) for x, d in zip(val, doc[nm])) + ']'
        else:
            if f['dflt'] == 'def':
                s = 'V' + enc_leaf(val)
            elif f['dflt'] == 'fac':
                if f['fac'] == 'list':
                    good = isinstance(val, list) and val == []
                else:
                    good = dataclasses.is_dataclass(val) and same(val, make_full(f['cls'], registry))
                s = ('F%d' % f['fid']) if good else 'X(fac:%s)' % enc_leaf(val)
                products.append(val)
            else:
                s = 'X(unexpected-attr)'
        parts.append('%s=%s' % (nm, s))
    return 'I(%s:%s)' % (spec['name'], ','.join(parts))


def cached_products(cls, acc):
    from dataclass_wizard.class_helper import FIELD_TO_DEFAULT
    for c, d in list(FIELD_TO_DEFAULT.items()):
        for v in d.values():
            if isinstance(v, (list, dict)) or dataclasses.is_dataclass(v):
                acc.append(v)


def run_class(item):
    from dataclass_wizard import fromdict, LoadMeta
    from dataclass_wizard.errors import MissingFields
    import copy
    spec = item['spec']
    registry = {}
    try:
        cls = build(spec, registry)
        if item['engine'] == 'v1':
            LoadMeta(v1=True).bind_to(cls)
    except BaseException as e:
        r = err_info(e); r['phase'] = 'setup'
        return [r for _ in item['docs']]
    out = []
    for doc in item['docs']:
        res = {}
        insts = []
        products = []
        before = copy.deepcopy(doc)
        for rep in (0, 1):
            try:
                inst = fromdict(cls, doc)
                insts.append(inst)
                p = []
                tree = walk(inst, spec, doc, p, registry)
                products.extend(p)
                r = {'ok': tree, 'n_products': len(p)}
            except MissingFields as e:
                r = err_info(e)
                r['provided'] = list(e.fields) if isinstance(e.fields, (list, tuple)) else repr(e.fields)
                r['missing_fields'] = list(e.missing_fields)
            except BaseException as e:
                r = err_info(e)
            if rep == 0:
                res = r
            else:
                res['repeat_same'] = ({k: v for k, v in r.items() if k != 'msg'} ==
                                      {k: v for k, v in res.items() if k not in ('msg', 'repeat_same')})
        if 'ok' in res:
            cached = []
            cached_products(cls, cached)
            ids = [id(x) for x in products]
            res['fresh'] = len(set(ids)) == len(ids) and not (set(ids) & {id(x) for x in cached})
        res['input_unchanged'] = (doc == before)
        out.append(res)
    return out


def run_witness(w):
    """known-finding witnesses"""
    if w['kind'] == 'path_factory':
        from dataclass_wizard import JSONWizard, path_field
        from typing import Any

        @dataclasses.dataclass
        class PF(JSONWizard):
            x: Any = path_field('a.b', default_factory=list)

        p = PF.from_dict({})
        q = PF.from_dict({})
        shared = p.x is q.x
        p.x.append(1)
        leaked = PF.from_dict({}).x == [1]

        @dataclasses.dataclass
        class PI:
            k: int = 1

        @dataclasses.dataclass
        class PG(JSONWizard):
            w: PI = path_field('a.w', default_factory=PI)
        r = outcome(PG.from_dict, {})
        return {'shared': shared, 'leaked': leaked, 'dataclass_default': r}
    return {'error': 'unknown witness kind'}


def handler(p):
    return {'classes': [run_class(c) for c in p.get('classes', [])],
            'witness': [run_witness(w) for w in p.get('witness', [])]}


if __name__ == '__main__':
    main(handler)
