"""Implementation runner for C09 (absent keys).

Payload: {'classes': [ {'spec': <class spec>, 'engine': 'v0'|'v1', 'docs': [doc, ...]} ],
          'witness': [ {...} ]}
A class spec is {'name': str, 'fields': [{'name', 'dflt': 'req'|'def'|'fac', 'init': bool,
 'kind': 'leaf'|'nested'|'list', 'ty': 'int'|'str'|'ints', 'default': <json>, 'fac': 'list'|'inst',
 'cls': <class spec>}]}.
Every document is loaded TWICE; the result carries the canonical tree of the first load
and whether all default_factory products (omitted factory fields, all depths) are pairwise
distinct objects within and across the two loads and distinct from the library's cached
FIELD_TO_DEFAULT product.
"""
import sys, os, dataclasses, typing
sys.path.insert(0, os.path.dirname(os.path.abspath(__file__)))
from _util import *

_built = {}


def build(spec, registry, root_bases=()):
    """dataclass for a spec (bottom-up); registry: name -> class.  Declaration styles: per-field
    kw_only, class-level kw_only / frozen / slots, a base class holding a prefix of the fields."""
    def decl(f):
        if f['kind'] == 'leaf':
            tp = {'int': int, 'str': str, 'ints': (list if f.get('bare_list') else typing.List[int])}[f['ty']]
        else:
            inner = registry.get(f['cls']['name']) or build(f['cls'], registry)
            tp = inner if f['kind'] == 'nested' else typing.List[inner]
        kw = {}
        if not f['init']:
            kw['init'] = False
            kw['repr'] = False
        if f.get('kw_only'):
            kw['kw_only'] = True
        if f['dflt'] == 'def':
            kw['default'] = f['default']
            if f['kind'] == 'nested' and f['default'] is None:
                tp = typing.Optional[tp]
        elif f['dflt'] == 'fac':
            if f['fac'] == 'list':
                kw['default_factory'] = list
            else:  # a fresh complete instance of the nested class
                inner_spec = f['cls']
                kw['default_factory'] = (lambda s=inner_spec: make_full(s, registry))
        return (f['name'], tp, dataclasses.field(**kw))
    fields = [decl(f) for f in spec['fields']]
    opts = {}
    if spec.get('kw_only_cls'):
        opts['kw_only'] = True
    if spec.get('frozen'):
        opts['frozen'] = True
    if spec.get('slots'):
        opts['slots'] = True
    bases = tuple(root_bases)
    k = spec.get('base_split')
    if k:
        # the base declares the first k fields (its own versions); the subclass re-declares the overridden
        # ones (they keep their position) and adds the rest.  JSONWizard, if any, is mixed into the subclass only.
        bfields = spec.get('base_fields') or spec['fields'][:k]
        base = dataclasses.make_dataclass(spec['name'] + 'Base', [decl(b) for b in bfields], **opts)
        registry[spec['name'] + 'Base'] = base
        bases = (base,) + bases
        fields = [fd for fd, b in zip(fields[:k], bfields) if b.get('overridden')] + fields[k:]
    cls = dataclasses.make_dataclass(spec['name'], fields, bases=bases, **opts)
    cls.__qualname__ = spec['name']
    registry[spec['name']] = cls
    return cls


def make_full(spec, registry):
    """instance of the class with every required init field set to a fixed value"""
    cls = registry[spec['name']]
    kw = {}
    for f in spec['fields']:
        if f['init'] and f['dflt'] == 'req':
            if f['kind'] == 'leaf':
                kw[f['name']] = {'int': 0, 'str': '', 'ints': []}[f['ty']]
            elif f['kind'] == 'nested':
                kw[f['name']] = make_full(f['cls'], registry)
            else:
                kw[f['name']] = []
    return cls(**kw)


_UNSET = object()


def same(a, b):
    """structural equality that tolerates unset attributes (init=False without default)"""
    if dataclasses.is_dataclass(a) and dataclasses.is_dataclass(b) and type(a) is type(b):
        return all(same(getattr(a, f.name, _UNSET), getattr(b, f.name, _UNSET)) for f in dataclasses.fields(a))
    if isinstance(a, list) and isinstance(b, list):
        return len(a) == len(b) and all(same(x, y) for x, y in zip(a, b))
    if a is _UNSET or b is _UNSET:
        return a is b
    return type(a) is type(b) and a == b


def enc_leaf(v):
    if isinstance(v, bool) or v is None:
        return 'n' if v is None else 'b%d' % v
    if isinstance(v, int):
        return 'i%d' % v if v >= 0 else 'im%d' % -v
    if isinstance(v, str):
        return 's' + v.encode().hex()
    if isinstance(v, list) and all(isinstance(x, int) and not isinstance(x, bool) for x in v):
        return 'l' + 'x'.join(str(x) for x in v)
    return 'q' + repr(v).encode().hex()


def walk(inst, spec, doc, products, registry):
    """canonical tree of a loaded instance, guided by the spec and the document that was
    loaded; collects (object) default_factory products of omitted fields"""
    if not dataclasses.is_dataclass(inst) or type(inst).__name__ != spec['name']:
        return 'X(%s)' % type(inst).__name__
    parts = []
    for f in spec['fields']:
        nm = f['name']
        if not hasattr(inst, nm):
            continue  # attribute unset
        val = getattr(inst, nm)
        present = f['init'] and isinstance(doc, dict) and nm in doc
        if present:
            if f['kind'] == 'leaf':
                s = 'V' + enc_leaf(val)
            elif f['kind'] == 'nested':
                s = walk(val, f['cls'], doc[nm], products, registry)
            else:
                if not isinstance(val, list) or len(val) != len(doc[nm]):
                    s = 'X(list)'
                else:
                    s = 'L[' + ','.join(walk(x, f['cls'], d, products, registry) for x, d in zip(val, doc[nm])) + ']'
        else:
            if f['dflt'] == 'def':
                s = 'V' + enc_leaf(val)
            elif f['dflt'] == 'fac':
                if f['fac'] == 'list':
                    good = isinstance(val, list) and val == []
                else:
                    good = dataclasses.is_dataclass(val) and same(val, make_full(f['cls'], registry))
                s = ('F%d' % f['fid']) if good else 'X(fac:%s)' % enc_leaf(val)
                products.append(val)
            else:
                s = 'X(unexpected-attr)'
        parts.append('%s=%s' % (nm, s))
    return 'I(%s:%s)' % (spec['name'], ','.join(parts))


def cached_products(cls, acc):
    from dataclass_wizard.class_helper import FIELD_TO_DEFAULT
    for c, d in list(FIELD_TO_DEFAULT.items()):
        for v in d.values():
            if isinstance(v, (list, dict)) or dataclasses.is_dataclass(v):
                acc.append(v)


def loader_for(cls, entry):
    """the documented ways to load one dict"""
    from dataclass_wizard import fromdict, fromlist
    import json
    if entry == 'fromlist':
        return lambda d: fromlist(cls, [d])[0]
    if entry == 'from_dict':
        return lambda d: cls.from_dict(d)
    if entry == 'from_json':
        return lambda d: cls.from_json(json.dumps(d))
    return lambda d: fromdict(cls, d)


def mutate_products(products):
    for x in products:
        if isinstance(x, list):
            x.append(12345)
        elif isinstance(x, dict):
            x['mutated'] = 1
        elif dataclasses.is_dataclass(x):
            for f in dataclasses.fields(x):
                v = getattr(x, f.name, None)
                if isinstance(v, list):
                    v.append(12345)


def run_class(item):
    from dataclass_wizard import LoadMeta, JSONWizard
    from dataclass_wizard.errors import MissingFields
    import copy
    spec = item['spec']
    entry = item.get('entry', 'fromdict')
    registry = {}
    try:
        cls = build(spec, registry, root_bases=((JSONWizard,) if entry in ('from_dict', 'from_json') else ()))
        if item['engine'] == 'v1':
            LoadMeta(v1=True).bind_to(cls)
        load = loader_for(cls, entry)
        # history: base classes used first (loaded with the same engine, then dumped)
        from dataclass_wizard import fromdict, asdict
        for pre in item.get('pre') or []:
            base = registry.get(pre['cls'] + 'Base')
            if base is None:
                continue
            try:
                if item['engine'] == 'v1':
                    LoadMeta(v1=True).bind_to(base)
                asdict(fromdict(base, pre['doc']))
            except Exception:
                pass
    except BaseException as e:
        r = err_info(e); r['phase'] = 'setup'
        return [r for _ in item['docs']]
    out = []
    for doc in item['docs']:
        res = {}
        products = []
        before = copy.deepcopy(doc)
        for rep in (0, 1, 2):
            if rep == 2:
                # use the earlier instances (mutate their default_factory products), then load again
                if 'ok' not in res:
                    break
                mutate_products(products)
            try:
                inst = load(doc)
                p = []
                tree = walk(inst, spec, doc, p, registry)
                if rep < 2:
                    products.extend(p)
                r = {'ok': tree, 'n_products': len(p)}
            except MissingFields as e:
                r = err_info(e)
                r['provided'] = list(e.fields) if isinstance(e.fields, (list, tuple)) else repr(e.fields)
                r['missing_fields'] = list(e.missing_fields)
            except BaseException as e:
                r = err_info(e)
                be = getattr(e, 'base_error', None)
                if be is not None:
                    r['base'] = type(be).__name__
                    r['base_msg'] = str(be)[:200]
            if rep == 0:
                res = r
            elif rep == 1:
                res['repeat_same'] = ({k: v for k, v in r.items() if k != 'msg'} ==
                                      {k: v for k, v in res.items() if k not in ('msg', 'repeat_same')})
            else:
                res['after_mutation_same'] = (r.get('ok') == res.get('ok'))
        if 'ok' in res:
            cached = []
            cached_products(cls, cached)
            ids = [id(x) for x in products]
            res['fresh'] = len(set(ids)) == len(ids) and not (set(ids) & {id(x) for x in cached})
        res['input_unchanged'] = (doc == before)
        out.append(res)
    return out


# ---- classes with key-path fields (path_field / KeyPath / AliasPath) ------------------------------
@dataclasses.dataclass
class PInner:
    k: int = 1


def build_path(spec, engine):
    from typing import Annotated, Any, List, Dict
    tps = {'int': int, 'str': str, 'float': float, 'bool': bool, 'ints': List[int], 'dict': Dict[str, int], 'any': Any, 'inst': PInner}
    facs = {'ints': list, 'dict': dict, 'any': list, 'inst': PInner}
    req, opt = [], []
    for f in spec['fields']:
        tp = tps[f['ty']]
        kw = {}
        if f['dflt'] == 'def':
            kw['default'] = f['default']
        elif f['dflt'] == 'fac':
            kw['default_factory'] = facs[f['ty']]
        if not f.get('init', True):
            kw['init'] = False
        if f.get('path'):
            dotted = '.'.join(f['path'])
            if engine == 'v1':
                from dataclass_wizard.v1 import AliasPath
                fld = AliasPath(dotted, **kw)
            elif f.get('style') == 'keypath':
                from dataclass_wizard import KeyPath
                tp = Annotated[tp, KeyPath(dotted)]
                fld = dataclasses.field(**kw)
            else:
                from dataclass_wizard import path_field
                fld = path_field(dotted, **kw)
        elif f.get('aliases'):
            if engine == 'v1':
                from dataclass_wizard.v1 import Alias
                fld = Alias(*f['aliases'], **kw)
            elif f.get('style') == 'json_key':
                from dataclass_wizard import json_key
                tp = Annotated[tp, json_key(*f['aliases'], all=True)]
                fld = dataclasses.field(**kw)
            else:
                from dataclass_wizard import json_field
                fld = json_field(tuple(f['aliases']), all=True, **kw)
        else:
            fld = dataclasses.field(**kw)
        (req if f['dflt'] == 'req' else opt).append((f['name'], tp, fld))
    cls = dataclasses.make_dataclass(spec['name'], req + opt)
    cls.__qualname__ = spec['name']
    return cls


def path_view(inst, spec):
    out = {}
    for f in spec['fields']:
        v = getattr(inst, f['name'], '<unset>')
        out[f['name']] = canon(v)
    return out


def run_pathclass(item):
    from dataclass_wizard import fromdict, LoadMeta
    from dataclass_wizard.errors import MissingFields
    import copy
    spec = item['spec']
    try:
        cls = build_path(spec, item['engine'])
        if item['engine'] == 'v1':
            LoadMeta(v1=True).bind_to(cls)
    except BaseException as e:
        r = err_info(e); r['phase'] = 'setup'
        return [r for _ in item['docs']]
    out = []
    for doc in item['docs']:
        before = copy.deepcopy(doc)
        insts, res = [], None
        for rep in (0, 1, 2):
            try:
                inst = fromdict(cls, doc)
                r = {'ok': path_view(inst, spec)}
                insts.append(inst)
            except MissingFields as e:
                r = err_info(e)
                r['missing_fields'] = list(e.missing_fields)
            except BaseException as e:
                r = err_info(e)
            if rep == 0:
                res = r
                if 'ok' not in r:
                    break
            elif rep == 1:
                res['second'] = r.get('ok')
                if 'ok' in r:
                    # identity of the values of the factory fields in two instances
                    shared = []
                    for f in spec['fields']:
                        if f['dflt'] == 'fac' and (not f.get('init', True) or
                                                   (not any(k in doc for k in (f.get('aliases') or [f['name']])) if not f.get('path') else
                                                    not (isinstance(doc.get(f['path'][0]), dict) and f['path'][1] in doc[f['path'][0]]))):
                            a, b = getattr(insts[0], f['name'], None), getattr(insts[1], f['name'], None)
                            if a is b and a is not None:
                                shared.append(f['name'])
                    res['shared'] = shared
                    def absent(f):
                        if not f.get('init', True):
                            return True
                        if f.get('path'):
                            return not (isinstance(doc.get(f['path'][0]), dict) and f['path'][1] in doc[f['path'][0]])
                        return not any(k in doc for k in (f.get('aliases') or [f['name']]))
                    mutate_products([getattr(insts[0], f['name'], None) for f in spec['fields']
                                     if f['dflt'] == 'fac' and absent(f)])
            else:
                res['after_mutation'] = r.get('ok') if 'ok' in r else {'err': r.get('err')}
        res['input_unchanged'] = (doc == before)
        out.append(res)
    return out


def run_witness(w):
    """known-finding witnesses"""
    from dataclass_wizard import fromdict, LoadMeta
    if w['kind'] == 'path_factory':
        from dataclass_wizard import JSONWizard, path_field
        from typing import Any, List

        @dataclasses.dataclass
        class PF(JSONWizard):
            x: Any = path_field('a.b', default_factory=list)
            y: List[int] = path_field('a.c', default_factory=list)

        p = PF.from_dict({})
        q = PF.from_dict({})
        shared = p.x is q.x
        typed_shared = p.y is q.y          # must be False: List[int] is rebuilt by the parser
        p.x.append(1)
        leaked = PF.from_dict({}).x == [1]

        @dataclasses.dataclass
        class PG(JSONWizard):
            w: PInner = path_field('a.w', default_factory=PInner)
        r = outcome(PG.from_dict, {})
        return {'shared': shared, 'leaked': leaked, 'typed_shared': typed_shared, 'dataclass_default': r}
    if w['kind'] == 'v1_kwonly':
        @dataclasses.dataclass
        class KA:
            a: int
            k: int = dataclasses.field(kw_only=True)
        LoadMeta(v1=True).bind_to(KA)
        r = outcome(fromdict, KA, {'a': 1, 'k': 5})

        @dataclasses.dataclass
        class KB:
            a: int
            k: int = dataclasses.field(kw_only=True)
        r0 = outcome(fromdict, KB, {'a': 1, 'k': 5})
        return {'v1_complete': r, 'v0_complete': r0}
    if w['kind'] == 'required_path':
        from dataclass_wizard import path_field

        @dataclasses.dataclass
        class RP:
            req: int = path_field('meta.req')
        r0 = outcome(fromdict, RP, {'meta': {}})
        from dataclass_wizard.v1 import AliasPath

        @dataclasses.dataclass
        class RQ:
            req: int = AliasPath('meta.req')
        LoadMeta(v1=True).bind_to(RQ)
        r1 = outcome(fromdict, RQ, {'meta': {}})
        return {'v0': r0, 'v1': r1}
    return {'error': 'unknown witness kind'}


def handler(p):
    return {'classes': [run_class(c) for c in p.get('classes', [])],
            'pathclasses': [run_pathclass(c) for c in p.get('pathclasses', [])],
            'witness': [run_witness(w) for w in p.get('witness', [])]}


if __name__ == '__main__':
    main(handler)
