"""Implementation runner for C19 (wiz gen-schema).

Runs the generator IN-PROCESS (PyCodeGenerator(...).py_code), execs the
generated source in a fresh module, finds the JSONWizard root class and loads
the source document with it.  Also answers the oracle questions of the Coq
model (naming functions, string classifiers) with the real functions.
"""
import sys, os, json, types, dataclasses, typing, datetime, re, hashlib
sys.path.insert(0, os.path.dirname(os.path.abspath(__file__)))
from _util import *

_n = [0]


def gen(doc_text, fs, ex):
    from dataclass_wizard.wizard_cli.schema import PyCodeGenerator
    return PyCodeGenerator(file_contents=doc_text, force_strings=fs, experimental=ex).py_code


def short_err(e):
    return {'err': type(e).__name__, 'msg': str(e)[:200].replace('\n', ' ')}


CLASS_RE = re.compile(r'^class (.*?)(\(JSONWizard\))?:$')


def parse_decls(code):
    """[name, is_root, [[field, annotation], ...]] per class, from the generated text
    (line based: the text need not be valid Python)."""
    decls, cur, in_doc = [], None, False
    for line in code.split('\n'):
        m = CLASS_RE.match(line)
        if m:
            cur = [m.group(1), bool(m.group(2)), []]
            decls.append(cur)
            in_doc = False
            continue
        if cur is None or not line.startswith('    '):
            continue
        body = line[4:]
        if body == '"""':
            in_doc = not in_doc
            continue
        if in_doc or body == 'pass':
            continue
        if ': ' in body:
            k, a = body.split(': ', 1)
            cur[2].append([k, a])
    return decls


def conforms(v, tp, depth=0):
    """Is the loaded value an instance of the declared annotation?"""
    if tp is typing.Any:
        return True
    origin = typing.get_origin(tp)
    if origin is typing.Union or (hasattr(types, 'UnionType') and isinstance(tp, types.UnionType)):
        return any(conforms(v, a, depth + 1) for a in typing.get_args(tp))
    if tp is type(None):
        return v is None
    if origin is list or tp is list or tp is typing.List:
        if not isinstance(v, list):
            return False
        args = typing.get_args(tp)
        return all(conforms(x, args[0], depth + 1) for x in v) if args else True
    if isinstance(tp, type) and dataclasses.is_dataclass(tp):
        return type(v) is tp and instance_conforms(v)
    if tp is int:
        return type(v) is int
    if tp is bool:
        return type(v) is bool
    if tp is float:
        return type(v) is float
    if tp is str:
        return type(v) is str
    if tp is datetime.datetime:
        return isinstance(v, datetime.datetime)
    if tp is datetime.date:
        return isinstance(v, datetime.date)
    if tp is datetime.time:
        return isinstance(v, datetime.time)
    return False


def instance_conforms(inst):
    cls = type(inst)
    hints = typing.get_type_hints(cls, vars(sys.modules[cls.__module__]))
    for f in dataclasses.fields(inst):
        if not conforms(getattr(inst, f.name), hints[f.name]):
            return False
    return True


def keys_have_fields(doc, inst):
    """Every key of every object that was loaded into a dataclass instance has a field
    (named by the library's load key transform)."""
    from dataclass_wizard.utils.string_conv import to_snake_case
    if isinstance(doc, dict) and dataclasses.is_dataclass(inst):
        names = {f.name for f in dataclasses.fields(inst)}
        for k, v in doc.items():
            f = to_snake_case(k)
            if f not in names:
                return False
        # descend only through keys that are the last to map to their field
        last = {}
        for k, v in doc.items():
            last[to_snake_case(k)] = v
        for f, v in last.items():
            if not keys_have_fields(v, getattr(inst, f)):
                return False
        return True
    if isinstance(doc, list) and isinstance(inst, list) and len(doc) == len(inst):
        return all(keys_have_fields(a, b) for a, b in zip(doc, inst))
    return True


def exec_and_load(doc, code):
    """exec the generated source in a fresh module; load the document with the root."""
    from dataclass_wizard import JSONWizard
    r = {}
    _n[0] += 1
    name = 'c19_genmod_%d' % _n[0]
    m = types.ModuleType(name)
    sys.modules[name] = m
    try:
        exec(compile(code, name, 'exec'), m.__dict__)
        r['exec'] = 'ok'
    except BaseException as e:
        r['exec'] = short_err(e)
        sys.modules.pop(name, None)
        return r
    roots = [v for v in m.__dict__.values()
             if isinstance(v, type) and v is not JSONWizard and issubclass(v, JSONWizard)]
    r['roots'] = [c.__name__ for c in roots]
    objs = [doc] if isinstance(doc, dict) else [e for e in doc if isinstance(e, dict)]
    if not objs:
        r['load'] = 'ok'; r['conform'] = True; r['fields'] = True; r['n_loaded'] = 0
        return r
    if len(roots) != 1:
        r['load'] = {'err': 'NoUniqueRoot', 'msg': 'JSONWizard subclasses in module: %r' % r['roots']}
        return r
    try:
        insts = [roots[0].from_dict(o) for o in objs]
        r['load'] = 'ok'
    except BaseException as e:
        r['load'] = short_err(e)
        return r
    r['n_loaded'] = len(insts)
    try:
        r['conform'] = all(instance_conforms(i) for i in insts)
    except BaseException as e:
        r['conform'] = short_err(e)
    try:
        r['fields'] = all(keys_have_fields(o, i) for o, i in zip(objs, insts))
    except BaseException as e:
        r['fields'] = short_err(e)
    return r


def run_case(doc, fs, ex, want_code=False):
    text = json.dumps(doc, ensure_ascii=False)
    r = {}
    try:
        code = gen(text, fs, ex)
        r['gen'] = 'ok'
    except BaseException as e:
        r['gen'] = short_err(e)
        return r
    r['sha'] = hashlib.sha256(code.encode('utf-8', 'surrogatepass')).hexdigest()[:16]
    r['decls'] = parse_decls(code)
    if want_code:
        r['code'] = code
    if not isinstance(doc, (dict, list)):
        return r            # a scalar root must not get this far (the caller's predicate: generation raises)
    r.update(exec_and_load(doc, code))
    return r


def h_cases(p):
    out = []
    for c in p:
        out.append(run_case(c['doc'], c['fs'], c['ex'], c.get('want_code', False)))
    return out


def h_regen(p):
    """second pass, caller-chosen order: only the text hash (order independence)."""
    out = []
    for c in p:
        try:
            code = gen(json.dumps(c['doc'], ensure_ascii=False), c['fs'], c['ex'])
            out.append(hashlib.sha256(code.encode('utf-8', 'surrogatepass')).hexdigest()[:16])
        except BaseException as e:
            out.append('err:' + type(e).__name__)
    return out


def h_fresh(p):
    """every case in its OWN interpreter: the text a generation gives with no history at all"""
    import subprocess
    out = []
    for c in p:
        q = subprocess.run([sys.executable, os.path.abspath(__file__)], input=json.dumps({'regen': [c]}),
                           capture_output=True, text=True, timeout=120)
        if q.returncode != 0:
            out.append('err:runner:' + q.stderr[-200:])
        else:
            out.append(json.loads(q.stdout)['regen'][0])
    return out


def h_raw(p):
    """raw input texts (given as bytes, decoded like the CLI's text-mode read): does the generator raise?
    plus the independent reference: stdlib strict JSON and the root clause"""
    out = []
    for c in p:
        text = bytes.fromhex(c['bytes_hex']).decode('utf-8', 'ignore')
        try:
            v = json.loads(text)
            ref = 'doc' if isinstance(v, (dict, list)) else 'scalar'
        except ValueError:
            ref = 'syntax'
        try:
            gen(text, c.get('fs', False), c.get('ex', False))
            out.append({'ref': ref, 'gen': 'ok'})
        except BaseException as e:
            out.append({'ref': ref, 'gen': short_err(e)})
    return out


def h_oracle(p):
    from dataclass_wizard.wizard_cli.schema import English, is_float, _BOOL_VALUES
    from dataclass_wizard.utils.string_conv import to_snake_case, to_pascal_case
    from dataclass_wizard.utils.type_conv import as_date, as_time, as_datetime, as_int
    import keyword

    def ok(f, *a):
        try:
            f(*a)
            return True
        except (TypeError, ValueError):
            return False

    def opt(f, s):
        try:
            return f(s)
        except IndexError:
            return None

    def entry(k):
        return {'snake': to_snake_case(k), 'pascal': opt(to_pascal_case, k),
                'sing': English.singularize(English.humanize(k)).replace(' ', '') if k else k}

    names = {}
    for k in p.get('names', []):
        names[k] = entry(k)
    for k in list(names):           # closure: the class name of a list's model is pascal(sing(key))
        s = names[k]['sing']
        if s not in names:
            names[s] = entry(s)
    strings = {}
    for s in p.get('strings', []):
        strings[s] = {'date': ok(as_date, s), 'time': ok(as_time, s), 'datetime': ok(as_datetime, s),
                      'isnumeric': s.isnumeric(), 'is_float': is_float(s), 'int_ok': ok(as_int, s, int),
                      'can_be_bool': s.lower() in _BOOL_VALUES}
    idents = {}
    for d in names.values():
        for s in (d['snake'], d['pascal']):
            if s is not None:
                idents[s] = s.isidentifier() and not keyword.iskeyword(s)
    from dataclass_wizard import JSONWizard
    root_attrs = sorted(a for a in dir(JSONWizard) if a.isidentifier())
    return {'names': names, 'strings': strings, 'idents': idents, 'bool_values': sorted(_BOOL_VALUES),
            'root_attrs': root_attrs}


def h_interleaved(p):
    """Two generators constructed before either is rendered (noted, not part of the property)."""
    from dataclass_wizard.wizard_cli.schema import PyCodeGenerator
    out = []
    for a, b in p:
        try:
            ga = PyCodeGenerator(file_contents=json.dumps(a['doc']), force_strings=a['fs'], experimental=a['ex'])
            gb = PyCodeGenerator(file_contents=json.dumps(b['doc']), force_strings=b['fs'], experimental=b['ex'])
            ca, cb = ga.py_code, gb.py_code
            out.append([hashlib.sha256(ca.encode()).hexdigest()[:16], hashlib.sha256(cb.encode()).hexdigest()[:16]])
        except BaseException as e:
            out.append(['err:' + type(e).__name__] * 2)
    return out


def handler(p):
    res = {}
    if 'oracle' in p:
        res['oracle'] = h_oracle(p['oracle'])
    if 'cases' in p:
        res['cases'] = h_cases(p['cases'])
    if 'regen' in p:
        res['regen'] = h_regen(p['regen'])
    if 'raw' in p:
        res['raw'] = h_raw(p['raw'])
    if 'fresh' in p:
        res['fresh'] = h_fresh(p['fresh'])
    if 'interleaved' in p:
        res['interleaved'] = h_interleaved(p['interleaved'])
    return res


if __name__ == '__main__':
    main(handler)
