"""Run the Coq model on generated cases (correspondence tie C).

A case file is a list of Gallina expressions of type `pstr` (the model's own
`show_*` encoders produce them).  Each shard is one .v file evaluated by one
`coqc` call with `vm_compute`; results come back hex-encoded, `;`-separated,
inside one string literal, so Coq's pretty-printer cannot wrap or escape them.
"""
import os, re, subprocess, tempfile, shutil, concurrent.futures as cf

VERIF = os.path.dirname(os.path.dirname(os.path.dirname(os.path.abspath(__file__))))
COQDIR = os.path.join(VERIF, 'coq')
QFLAGS = ['-Q', os.path.join(COQDIR, 'gen'), 'DW', '-Q', os.path.join(COQDIR, 'model'), 'DW',
          '-Q', os.path.join(COQDIR, 'proofs'), 'DW', '-Q', os.path.join(COQDIR, 'props'), 'DW']
SHARD = 200


def _unlimit_stack():
    import resource
    try:
        resource.setrlimit(resource.RLIMIT_STACK, (resource.RLIM_INFINITY, resource.RLIM_INFINITY))
    except Exception:
        pass


def coq_str(s):
    """Gallina term of type pstr for a Python str (UTF-8 bytes) or bytes."""
    b = s.encode('utf-8') if isinstance(s, str) else bytes(s)
    if all(32 <= c < 127 and c != 34 for c in b):
        return '(S "%s")' % b.decode('ascii')
    return '(B [%s]%%N)' % ';'.join(str(c) for c in b)


def coq_list(items):
    return '[' + '; '.join(items) + ']'


def coq_bool(b):
    return 'true' if b else 'false'


def coq_Z(n):
    return '(%d)%%Z' % n


def coq_opt(x):
    return 'None' if x is None else '(Some %s)' % x


class CoqError(Exception):
    pass


def _run_shard(args):
    workdir, idx, imports, prelude, exprs, timeout = args
    name = 'Cases_%d' % idx
    path = os.path.join(workdir, name + '.v')
    with open(path, 'w') as f:
        f.write('From DW Require Import %s.\n' % ' '.join(imports))
        if prelude:
            f.write(prelude + '\n')
        f.write('Definition results : list pstr := [\n')
        f.write(';\n'.join(exprs))
        f.write('\n].\n')
        f.write('Eval vm_compute in (out (join (S ";") (map hex results))).\n')
    try:
        p = subprocess.run(['coqc'] + QFLAGS + [path], capture_output=True, text=True,
                           timeout=timeout, cwd=workdir, preexec_fn=_unlimit_stack)
    except subprocess.TimeoutExpired:
        raise CoqError('coqc timeout on shard %d' % idx)
    if p.returncode != 0:
        raise CoqError('coqc failed on shard %d: %s' % (idx, (p.stderr or p.stdout)[-2000:]))
    m = re.search(r'=\s*"([0-9a-f;]*)"', p.stdout)
    if not m:
        raise CoqError('cannot parse coqc output: %r' % p.stdout[:500])
    parts = m.group(1).split(';') if exprs else []
    out = [bytes.fromhex(x).decode('utf-8', 'surrogateescape') for x in parts]
    if len(out) != len(exprs):
        raise CoqError('shard %d: %d results for %d cases' % (idx, len(out), len(exprs)))
    return idx, out


def coq_eval(exprs, imports, workdir, prelude='', jobs=8, timeout=600, shard=SHARD):
    """Evaluate each Gallina expression (type pstr); returns list of str."""
    os.makedirs(workdir, exist_ok=True)
    shards = [(workdir, i, imports, prelude, exprs[k:k + shard], timeout)
              for i, k in enumerate(range(0, len(exprs), shard))]
    res = {}
    with cf.ThreadPoolExecutor(max_workers=jobs) as ex:
        for idx, out in ex.map(_run_shard, shards):
            res[idx] = out
    flat = []
    for i in range(len(shards)):
        flat.extend(res[i])
    return flat
