"""Check driver shared by all properties (DESIGN.md section 7).

    ./check <Cxx> [--tier quick|thorough] [--replay <file>]

Steps: regenerate coq/gen/*.v from /repo's working tree (tie T), build the Coq
development (full .vo), hygiene scan, Print Assumptions of the property's
theorems, then the property module (harness/props/cxx.py): corpus, witnesses,
correspondence (tie C), direct predicates, known findings; finally the
evidence file and the VIOLATION / KNOWN-FINDING lines.
"""
import os, sys, json, time, re, subprocess, hashlib, random, shutil, fcntl, importlib, glob, traceback

VERIF = os.path.dirname(os.path.dirname(os.path.dirname(os.path.abspath(__file__))))
REPO = os.environ.get('DW_REPO', '/repo')
COQDIR = os.path.join(VERIF, 'coq')
PY = '/venv/bin/python'
GUARD = 'DATACLASS_WIZARD_VERIF'
sys.path.insert(0, os.path.join(VERIF, 'harness'))
from lib import coqrun  # noqa: E402

KERNEL_TB = [
    'Coq 8.16.1 kernel (coqc), including the vm_compute conversion; no native_compute',
    'hand-written Gallina model under coq/model, tied to /repo by the correspondence run of this check',
    'harness: case generators, Python/Coq case printers, canonicaliser (harness/)',
    'coq/gen/*.v translators (harness/tables/*.py): copy data tables from the live modules',
]


def impl_env(extra=None):
    env = dict(os.environ)
    env.update({'PYTHONPATH': REPO, 'PYTHONHASHSEED': '0', 'PYTHONDONTWRITEBYTECODE': '1', GUARD: '1'})
    if extra:
        env.update(extra)
    return env


def sub_seed(seed, *parts):
    h = hashlib.sha256(('%d|' % seed + '|'.join(str(p) for p in parts)).encode()).digest()
    return int.from_bytes(h[:8], 'big')


class BrokenTie(Exception):
    """A proof obligation, translator or correspondence no longer checks."""


class Ctx:
    def __init__(self, prop_id, tier, seed):
        self.prop_id = prop_id
        self.tier = tier
        self.seed = seed
        self.rng = random.Random(sub_seed(seed, prop_id))
        self.t0 = time.time()
        self.workdir = os.path.join(VERIF, '.work', '%s_%d' % (prop_id, os.getpid()))
        os.makedirs(self.workdir, exist_ok=True)
        self.violations = []          # (what, replay_path, no_input)
        self.known_lines = []
        self.resolved_lines = []
        self.broken = []              # descriptions of broken ties / obligations
        self.evaluations = 0
        self.nontrivial = set()
        self.samples = []
        self.dist = {}
        self.notes = []
        self.obligations = []         # theorem names
        self.discharged = []
        self.axioms = {}
        self.traces_validated = 0
        self.disagreements_checked = 0
        self.extra_cov = {}
        self._findings = load_findings()
        self._replay_n = 0
        self.coq_ok = True

    # ---- randomness -----------------------------------------------------
    def sub_rng(self, *parts):
        return random.Random(sub_seed(self.seed, self.prop_id, *parts))

    # ---- running the implementation ------------------------------------
    def impl(self, script, payload, timeout=600, extra_env=None):
        """Run harness/impl/<script>.py in a fresh interpreter against /repo.
        payload and result are JSON. A crash of the runner is a harness error."""
        path = os.path.join(VERIF, 'harness', 'impl', script + '.py')
        p = subprocess.run([PY, path], input=json.dumps(payload), capture_output=True, text=True,
                           timeout=timeout, env=impl_env(extra_env), cwd=self.workdir)
        if p.returncode != 0:
            raise RuntimeError('impl runner %s failed (rc=%d): %s' % (script, p.returncode, p.stderr[-3000:]))
        return json.loads(p.stdout)

    # ---- running the model ------------------------------------------------
    def coq(self, exprs, imports, prelude='', tag='cases', timeout=900):
        d = os.path.join(self.workdir, tag)
        jobs = 6 if self.tier == 'quick' else 10
        return coqrun.coq_eval(exprs, imports, d, prelude=prelude, jobs=jobs, timeout=timeout)

    # ---- bookkeeping ------------------------------------------------------
    def count(self, n=1, key=None, nontrivial=True):
        self.evaluations += n
        if key is not None and nontrivial:
            self.nontrivial.add(key if isinstance(key, (str, int)) else json.dumps(key, sort_keys=True, default=str))

    def hist(self, name, value):
        d = self.dist.setdefault(name, {})
        d[str(value)] = d.get(str(value), 0) + 1

    def sample(self, obj, limit=6):
        if len(self.samples) < limit:
            self.samples.append(obj)

    # ---- findings -----------------------------------------------------------
    def _mine(self, f):
        p = f['property']
        return self.prop_id in p if isinstance(p, list) else p == self.prop_id

    def findings(self, status=None):
        return [f for f in self._findings if self._mine(f) and (status is None or f['status'] == status)]

    def finding(self, fid):
        for f in self._findings:
            if f['id'] == fid and self._mine(f):
                return f
        return None

    def replay_demos(self):
        """Every listed finding that carries a demo script is replayed against /repo
        (exit 0 = behaves correctly, exit 1 = defect present)."""
        for f in self.findings():
            demo = f.get('demo')
            if not demo:
                continue
            try:
                p = subprocess.run([PY, os.path.join(VERIF, demo)], capture_output=True, text=True, timeout=300,
                                   env=impl_env(), cwd=self.workdir)
                fails = p.returncode != 0
            except subprocess.TimeoutExpired:
                fails = True
            self.count(1, key='demo:' + f['id'], nontrivial=True)
            self.known_finding(f['id'], still_fails=fails)

    def known_finding(self, fid, still_fails, what=None):
        """Report the state of a listed finding after replaying its witness."""
        f = self.finding(fid)
        if f is None:
            raise KeyError(fid)
        if f['status'] == 'open':
            if still_fails:
                line = 'KNOWN-FINDING: property=%s %s: %s' % (self.prop_id, fid, what or f['what'])
                if line not in self.known_lines:
                    self.known_lines.append(line)
            else:
                self.resolved_lines.append('FINDING-RESOLVED: property=%s %s no longer fails' % (self.prop_id, fid))
        else:  # fixed: suppresses nothing
            if still_fails:
                self.violation('fixed finding %s has returned: %s' % (fid, what or f['what']),
                               {'finding': fid, 'witness': f.get('witness')})

    def is_open_region(self, fid):
        f = self.finding(fid)
        return bool(f and f['status'] == 'open')

    # ---- verdicts -----------------------------------------------------------
    def violation(self, what, replay_obj, no_input=False):
        d = os.path.join(VERIF, 'replays', self.prop_id)
        os.makedirs(d, exist_ok=True)
        self._replay_n += 1
        key = hashlib.sha256(json.dumps(replay_obj, sort_keys=True, default=str).encode()).hexdigest()[:12]
        path = os.path.join(d, '%s_%s.json' % (self.tier, key))
        if any(v[1] == path for v in self.violations):
            return
        with open(path, 'w') as f:
            json.dump({'property': self.prop_id, 'what': what, 'seed': self.seed, 'tier': self.tier,
                       'no_failing_input_found': no_input, 'replay': replay_obj}, f, indent=1, default=str)
        self.violations.append((what, path, no_input))

    def broken_tie(self, what, detail=None):
        """Proof obligation / translator / correspondence no longer checks.
        The property module should then search for a failing input."""
        self.broken.append({'what': what, 'detail': detail})

    def finish_broken(self):
        """Called at the end: every broken tie not explained by a concrete violation
        is itself reported (no-failing-input-found)."""
        if self.broken and not any(not v[2] for v in self.violations):
            self.violation('; '.join(b['what'] for b in self.broken)[:500],
                           {'broken': self.broken}, no_input=True)


# ---------------------------------------------------------------------------
def load_findings():
    """known_findings.json plus the per-property files known_findings.d/*.json
    (all committed; never written at run time)."""
    out = []
    p = os.path.join(VERIF, 'known_findings.json')
    if os.path.exists(p):
        out.extend(json.load(open(p))['findings'])
    for f in sorted(glob.glob(os.path.join(VERIF, 'known_findings.d', '*.json'))):
        out.extend(json.load(open(f)))
    return out


def regen_tables():
    """Tie T: run every harness/tables/*.py against /repo, write coq/gen/<Name>.v if changed.
    Returns list of (name, error) for translators that failed closed."""
    errs = []
    os.makedirs(os.path.join(COQDIR, 'gen'), exist_ok=True)
    for path in sorted(glob.glob(os.path.join(VERIF, 'harness', 'tables', '*.py'))):
        name = os.path.splitext(os.path.basename(path))[0]
        if name.startswith('_'):
            continue
        target = os.path.join(COQDIR, 'gen', 'T_%s.v' % name)
        try:
            p = subprocess.run([PY, path], capture_output=True, text=True, timeout=120, env=impl_env())
        except subprocess.TimeoutExpired:
            errs.append((name, 'timeout'))
            continue
        if p.returncode != 0 or not p.stdout.strip():
            errs.append((name, (p.stderr or 'no output')[-1500:]))
            continue
        old = open(target).read() if os.path.exists(target) else None
        if old != p.stdout:
            with open(target + '.tmp', 'w') as f:
                f.write(p.stdout)
            os.replace(target + '.tmp', target)
    return errs


def write_coqproject():
    lines = ['-Q gen DW', '-Q model DW', '-Q proofs DW', '-Q props DW', '']
    for sub in ('gen', 'model', 'proofs', 'props'):
        for f in sorted(glob.glob(os.path.join(COQDIR, sub, '*.v'))):
            lines.append('%s/%s' % (sub, os.path.basename(f)))
    txt = '\n'.join(lines) + '\n'
    p = os.path.join(COQDIR, '_CoqProject')
    if not os.path.exists(p) or open(p).read() != txt:
        open(p, 'w').write(txt)
        return True
    return False


def build_coq(targets=None, jobs=16, timeout=1500):
    """Full .vo build (never -vos) under a lock; returns (ok, log)."""
    lock = open(os.path.join(COQDIR, '.build.lock'), 'w')
    fcntl.flock(lock, fcntl.LOCK_EX)
    try:
        changed = write_coqproject()
        mk = os.path.join(COQDIR, 'Makefile')
        if changed or not os.path.exists(mk):
            p = subprocess.run(['coq_makefile', '-f', '_CoqProject', '-o', 'Makefile'], cwd=COQDIR,
                               capture_output=True, text=True)
            if p.returncode != 0:
                return False, p.stderr
        cmd = ['make', '-k', '-j%d' % jobs] + (targets or [])
        try:
            p = subprocess.run(cmd, cwd=COQDIR, capture_output=True, text=True, timeout=timeout)
        except subprocess.TimeoutExpired:
            return False, 'make timed out'
        return p.returncode == 0, (p.stdout[-4000:] + p.stderr[-6000:])
    finally:
        fcntl.flock(lock, fcntl.LOCK_UN)
        lock.close()


HYGIENE = re.compile(r'\b(Admitted|admit|Axiom|Axioms|Parameter|Parameters|Conjecture|Conjectures|'
                     r'Admit Obligations|bypass_check|native_compute)\b|Unset\s+Guard|Unset\s+Positivity|'
                     r'Unset\s+Universe\s+Checking|type-in-type|impredicative-set')


def strip_comments(src):
    out, depth, i = [], 0, 0
    while i < len(src):
        if src.startswith('(*', i):
            depth += 1; i += 2
        elif src.startswith('*)', i) and depth:
            depth -= 1; i += 2
        else:
            if not depth:
                out.append(src[i])
            i += 1
    return ''.join(out)


def coq_closure(prop_id):
    """Source files props/<prop_id>.v depends on (transitively), by parsing Require lines."""
    index = {}
    for f in glob.glob(os.path.join(COQDIR, '*', '*.v')):
        index[os.path.splitext(os.path.basename(f))[0]] = f
    seen, todo = set(), [prop_id]
    while todo:
        m = todo.pop()
        if m in seen or m not in index:
            continue
        seen.add(m)
        src = strip_comments(open(index[m]).read())
        for req in re.findall(r'Require\s+(?:Import|Export)?\s*([^.]*(?:\.[A-Za-z_][^.]*)*)\.\s', src):
            for name in req.split():
                todo.append(name.split('.')[-1])
    return sorted(index[m] for m in seen)


def hygiene(prop_id=None):
    bad = []
    files = coq_closure(prop_id) if prop_id else glob.glob(os.path.join(COQDIR, '*', '*.v'))
    for f in files:
        src = strip_comments(open(f).read())
        for n, line in enumerate(src.split('\n'), 1):
            if HYGIENE.search(line):
                bad.append('%s:%d: %s' % (os.path.relpath(f, VERIF), n, line.strip()[:120]))
        depth = 0
        for n, line in enumerate(src.split('\n'), 1):
            s = line.strip()
            if re.match(r'(Section|Module)\s+\w+', s):
                depth += 1
            elif re.match(r'End\s+\w+', s) and depth:
                depth -= 1
            elif depth == 0 and re.match(r'(Variable|Variables|Hypothesis|Hypotheses|Context)\b', s):
                bad.append('%s:%d: %s outside a section' % (os.path.relpath(f, VERIF), n, s[:80]))
    p = os.path.join(COQDIR, '_CoqProject')
    if os.path.exists(p) and re.search(r'type-in-type|impredicative-set|-vos|-vok', open(p).read()):
        bad.append('_CoqProject: forbidden flag')
    return bad


def print_assumptions(ctx, module, theorems):
    """Compile a scratch file printing the assumptions of each theorem.
    Returns {theorem: 'closed' | [axiom names]} ; raises BrokenTie if it does not compile."""
    d = os.path.join(ctx.workdir, 'assum')
    os.makedirs(d, exist_ok=True)
    path = os.path.join(d, 'Assum_%s.v' % ctx.prop_id)
    with open(path, 'w') as f:
        f.write('From DW Require Import %s.\n' % module)
        for t in theorems:
            f.write('Goal True. idtac "@@BEGIN %s". Abort.\nPrint Assumptions %s.\nGoal True. idtac "@@END". Abort.\n' % (t, t))
    p = subprocess.run(['coqc'] + coqrun.QFLAGS + [path], capture_output=True, text=True, timeout=600, cwd=d)
    if p.returncode != 0:
        raise BrokenTie('Print Assumptions failed for %s: %s' % (module, (p.stderr or p.stdout)[-1500:]))
    res = {}
    for m in re.finditer(r'@@BEGIN (\S+)\n(.*?)@@END', p.stdout, re.S):
        body = m.group(2).strip()
        if 'Closed under the global context' in body:
            res[m.group(1)] = 'closed'
        else:
            names = re.findall(r'^([A-Za-z_][\w.\']*)\s*:', body, re.M)
            res[m.group(1)] = names or [body[:200]]
    for t in theorems:
        if t not in res:
            raise BrokenTie('no Print Assumptions output for %s' % t)
    return res


# stdlib axioms that may appear (each is named in the evidence when it does)
ALLOWED_AXIOMS = {
    'functional_extensionality_dep', 'FunctionalExtensionality.functional_extensionality_dep',
    'Eqdep.Eq_rect_eq.eq_rect_eq', 'eq_rect_eq', 'JMeq_eq', 'JMeq.JMeq_eq',
    'proof_irrelevance', 'ProofIrrelevance.proof_irrelevance', 'classic', 'Classical_Prop.classic',
    'propositional_extensionality', 'PropExtensionality.propositional_extensionality',
}


def write_evidence(ctx, meta):
    wall = time.time() - ctx.t0
    thm_total = len(ctx.obligations)
    cov = {
        'obligations': thm_total,
        'discharged': len(ctx.discharged),
        'checker_cmd': 'cd /verif/coq && coq_makefile -f _CoqProject -o Makefile && make -j16  (coqc 8.16.1, full .vo); '
                       'Print Assumptions via harness/lib/framework.py:print_assumptions',
        'trusted_base': KERNEL_TB + meta.get('trusted_base', []) +
                        ['axioms reported by Print Assumptions: ' + (json.dumps(ctx.axioms) if ctx.axioms else 'none (every theorem closed under the global context)')],
        'theorems': ctx.obligations,
        'evaluations': ctx.evaluations,
        'distinct_nontrivial': len(ctx.nontrivial),
        'rule': meta.get('rule', ''),
        'samples': ctx.samples or ['(no cases run)'],
        'traces_validated_against_impl': ctx.traces_validated,
        'disagreements_checked': ctx.disagreements_checked,
        'input_distribution': ctx.dist,
        'known_findings_reported': ctx.known_lines,
        'findings_resolved': ctx.resolved_lines,
        'broken_ties': ctx.broken,
        'notes': ctx.notes,
    }
    cov.update(ctx.extra_cov)
    ev = {
        'property_id': ctx.prop_id, 'tier': ctx.tier, 'seed': ctx.seed, 'level': meta.get('level', 'proof'),
        'coverage': cov, 'assumptions': meta.get('assumptions', []), 'wall_s': round(wall, 2),
        'violations': len(ctx.violations),
    }
    # evidence/ always describes a run against /repo itself; development runs against another
    # tree (DW_REPO, tools/try_seed.sh) write theirs elsewhere
    evdir = os.environ.get('VERIF_EVIDENCE_DIR') or (os.path.join(VERIF, 'evidence') if REPO == '/repo'
                                                     else os.path.join(VERIF, '.work', 'evidence_other_tree'))
    os.makedirs(evdir, exist_ok=True)
    p = os.path.join(evdir, '%s.json' % ctx.prop_id)
    with open(p + '.tmp', 'w') as f:
        json.dump(ev, f, indent=1, default=str)
    os.replace(p + '.tmp', p)


def load_module(prop_id):
    return importlib.import_module('props.%s' % prop_id.lower())


def main(argv):
    import argparse
    ap = argparse.ArgumentParser()
    ap.add_argument('prop')
    ap.add_argument('--tier', default=os.environ.get('VERIF_TIER', 'quick'), choices=['quick', 'thorough'])
    ap.add_argument('--replay')
    ap.add_argument('--no-build', action='store_true')
    a = ap.parse_args(argv)
    seed = int(os.environ.get('VERIF_SEED', '20260929') or 0)
    mod = load_module(a.prop)
    meta = mod.META
    ctx = Ctx(meta['id'], a.tier, seed)
    rc = 0
    try:
        if a.replay:
            obj = json.load(open(a.replay))
            ok = mod.replay(ctx, obj['replay'] if 'replay' in obj else obj)
            print('REPLAY %s: %s' % (a.replay, 'property holds on this input' if ok else 'property FAILS on this input'))
            return 0 if ok else 1
        # 1. tie T
        terrs = regen_tables()
        for name, err in terrs:
            if name in meta.get('tables', []):
                ctx.broken_tie('translator %s failed closed' % name, err)
            else:
                ctx.notes.append('translator %s failed (not used by this property)' % name)
        # 2. build
        if not a.no_build:
            ok, log = build_coq()
            target = 'props/%s.vo' % meta['id']
            ok2, log2 = build_coq([target])
            if not ok2:
                ctx.coq_ok = False
                ctx.broken_tie('Coq development for %s no longer builds (proof obligation broken)' % meta['id'], log2[-3000:])
        # 3. hygiene
        bad = hygiene(meta['id'])
        if bad:
            ctx.coq_ok = False
            ctx.broken_tie('hygiene scan: forbidden construct in the Coq development', bad[:20])
        # 4. assumptions
        ctx.obligations = list(meta['theorems'])
        if ctx.coq_ok:
            try:
                res = print_assumptions(ctx, meta['id'], meta['theorems'])
                for t, r in res.items():
                    if r == 'closed':
                        ctx.discharged.append(t)
                    else:
                        extra = [x for x in r if x.split('.')[-1] not in {y.split('.')[-1] for y in ALLOWED_AXIOMS}]
                        ctx.axioms[t] = r
                        if extra:
                            ctx.broken_tie('theorem %s depends on non-stdlib assumptions %s' % (t, extra))
                        else:
                            ctx.discharged.append(t)
            except BrokenTie as e:
                ctx.coq_ok = False
                ctx.broken_tie(str(e))
        # 5-8. witnesses of listed findings, then the property module
        ctx.replay_demos()
        mod.run(ctx)
        ctx.finish_broken()
    except Exception as e:  # harness failure: fail closed, loudly
        traceback.print_exc()
        ctx.violation('check machinery failed: %r' % (e,), {'error': traceback.format_exc()[-3000:]}, no_input=True)
    finally:
        try:
            write_evidence(ctx, meta)
        finally:
            shutil.rmtree(ctx.workdir, ignore_errors=True)
    for l in ctx.known_lines:
        print(l)
    for l in ctx.resolved_lines:
        print(l)
    for what, path, no_input in ctx.violations:
        rc = 1
        print('# %s' % what[:300].replace('\n', ' '))
        print('VIOLATION property=%s replay=%s%s' % (ctx.prop_id, path, ' no-failing-input-found' if no_input else ''))
    if rc == 0:
        print('OK property=%s tier=%s evaluations=%d theorems=%d/%d wall=%.1fs' % (
            ctx.prop_id, ctx.tier, ctx.evaluations, len(ctx.discharged), len(ctx.obligations), time.time() - ctx.t0))
    return rc


if __name__ == '__main__':
    sys.exit(main(sys.argv[1:]))
