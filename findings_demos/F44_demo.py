"""F44: default engine - a field annotated Union[int, str] (no None member) given null was loaded
as None (UnionParser returned None before looking at the members).
exit 0 = behaves correctly (raises), exit 1 = defect present."""
import sys
from dataclasses import dataclass
from typing import Union, Optional
from dataclass_wizard import fromdict


@dataclass
class A:
    my_val: Union[int, str]


@dataclass
class B:
    my_val: Union[int, str, None]
    other: Optional[int] = 3


ok = True
try:
    r = fromdict(A, {'myVal': None})
    print('FAIL Union[int, str] accepted null ->', r); ok = False
except Exception:
    pass
if fromdict(B, {'myVal': None, 'other': None}) != B(None, None):
    print('FAIL Union with None must still accept null'); ok = False
sys.exit(0 if ok else 1)
