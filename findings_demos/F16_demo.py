"""F16: v1 engine -- a field with several aliases, `x: int = Alias('a', 'b')`.

The document {'a': 1, 'b': 2} contains no unknown key, yet
  * `v1_on_unknown_key='RAISE'` raised `UnknownKeysError(set())`,
  * `v1_on_unknown_key='WARN'` logged a warning about 0 unknown keys,
  * a `CatchAll` field with a default (None) received `{}` instead of its default.

exit 0 = behaves correctly, exit 1 = defect present.
"""
import logging
import sys
from dataclasses import dataclass

from dataclass_wizard import JSONWizard, CatchAll
from dataclass_wizard.errors import UnknownKeysError
from dataclass_wizard.v1 import Alias

ok = True


def fail(msg):
    global ok
    ok = False
    print('FAIL', msg)


class _Capture(logging.Handler):
    def __init__(self):
        super().__init__()
        self.records = []

    def emit(self, record):
        self.records.append(record)


capture = _Capture()
log = logging.getLogger('dataclass_wizard')
log.addHandler(capture)
log.propagate = False
log.setLevel(logging.WARNING)   # the library's default level is ERROR


# ---- RAISE
@dataclass
class R(JSONWizard):
    class _(JSONWizard.Meta):
        v1 = True
        v1_on_unknown_key = 'RAISE'

    x: int = Alias('a', 'b')
    y: int = 0


for doc, expected in (({'a': 1}, R(1)), ({'b': 2}, R(2)), ({'a': 1, 'b': 2}, R(1)),
                      ({'a': 1, 'b': 2, 'y': 3}, R(1, 3))):
    try:
        got = R.from_dict(doc)
    except BaseException as e:
        fail(f'RAISE {doc!r}: {type(e).__name__}: unknown_keys={getattr(e, "unknown_keys", None)!r}')
    else:
        if got != expected:
            fail(f'RAISE {doc!r}: got {got!r}, expected {expected!r}')
        else:
            print(f'ok   RAISE {doc!r} -> {got!r}')

# a genuinely unknown key still raises, and only that key is reported
for doc, unknown in (({'a': 1, 'zzz': 2}, {'zzz'}), ({'a': 1, 'b': 2, 'zzz': 2, 'q': 0}, {'zzz', 'q'})):
    try:
        got = R.from_dict(doc)
    except UnknownKeysError as e:
        if set(e.unknown_keys) != unknown:
            fail(f'RAISE {doc!r}: unknown_keys={e.unknown_keys!r}, expected {unknown!r}')
        else:
            print(f'ok   RAISE {doc!r} -> UnknownKeysError({e.unknown_keys!r})')
    except BaseException as e:
        fail(f'RAISE {doc!r}: {type(e).__name__}: {e}')
    else:
        fail(f'RAISE {doc!r}: no error, returned {got!r}')


# ---- WARN
@dataclass
class W(JSONWizard):
    class _(JSONWizard.Meta):
        v1 = True
        v1_on_unknown_key = 'WARN'

    x: int = Alias('a', 'b')


capture.records.clear()
got = W.from_dict({'a': 1, 'b': 2})
warnings = [r for r in capture.records if r.levelno >= logging.WARNING]
if got != W(1) or warnings:
    fail(f'WARN both aliases: got {got!r}, warnings={[r.getMessage() for r in warnings]!r}')
else:
    print('ok   WARN both aliases -> no warning')

capture.records.clear()
W.from_dict({'a': 1, 'b': 2, 'zzz': 3})
warnings = [r for r in capture.records if r.levelno >= logging.WARNING]
if len(warnings) != 1 or "'zzz'" not in warnings[0].getMessage():
    fail(f'WARN unknown key: warnings={[r.getMessage() for r in warnings]!r}')
else:
    print('ok   WARN unknown key -> 1 warning')


# ---- CatchAll with a default value
@dataclass
class C(JSONWizard):
    class _(JSONWizard.Meta):
        v1 = True

    x: int = Alias('a', 'b')
    extra: CatchAll = None


for doc, expected_extra in (({'a': 1}, None), ({'a': 1, 'b': 2}, None),
                            ({'a': 1, 'b': 2, 'zzz': 3}, {'zzz': 3}), ({'b': 1, 'zzz': 3}, {'zzz': 3})):
    try:
        got = C.from_dict(doc)
    except BaseException as e:
        fail(f'CatchAll=None {doc!r}: {type(e).__name__}: {e}')
        continue
    if got.extra != expected_extra or type(got.extra) is not type(expected_extra):
        fail(f'CatchAll=None {doc!r}: extra={got.extra!r}, expected {expected_extra!r}')
    else:
        print(f'ok   CatchAll=None {doc!r} -> extra={got.extra!r}')


# ---- CatchAll without a default value: always a dict (unchanged)
@dataclass
class C2(JSONWizard):
    class _(JSONWizard.Meta):
        v1 = True

    extra: CatchAll
    x: int = Alias('a', 'b')


for doc, expected_extra in (({'a': 1}, {}), ({'a': 1, 'b': 2}, {}), ({'a': 1, 'b': 2, 'zzz': 3}, {'zzz': 3})):
    got = C2.from_dict(doc)
    if got.extra != expected_extra:
        fail(f'CatchAll (required) {doc!r}: extra={got.extra!r}, expected {expected_extra!r}')
    else:
        print(f'ok   CatchAll (required) {doc!r} -> extra={got.extra!r}')

print('PASS' if ok else 'FAIL')
sys.exit(0 if ok else 1)
