"""F60: v1 - one pattern object that reaches several date/time positions of DIFFERENT target types
loads every position as the type of the first one.

`process_patterned_date_time` (v1/decorators.py:40-49, 58-67) re-targets the shared PatternBase object
(`pb.base = tp.origin`) and `setup_recursive_safe_function` caches the generated helper under that object
(`recursion_guard[pb]`), so the second and later positions call the first position's helper:
`Annotated[Tuple[date, datetime], Pattern[...]]` returns (date, date); `Annotated[Dict[date, datetime], P]`
values are dates; a module-level `P = Pattern[...]` used by a date, a datetime, a List[MyDate] and a time field
makes all four fields plain dates (wrong class, pattern precision lost).  The default engine handles all of these.

exit 0 = behaves correctly, exit 1 = defect present.
"""
import sys
from dataclasses import dataclass
from datetime import date, datetime, time
from typing import Annotated, Dict, List, NamedTuple, Tuple

from dataclass_wizard import fromdict, asdict, LoadMeta
from dataclass_wizard.v1 import Pattern, UTCPattern

ok = True


def check(label, got, want):
    global ok
    good = type(got) is type(want) and got == want
    print(f'{"ok  " if good else "FAIL"} {label}: got {got!r}, want {want!r}')
    ok = ok and good


class MyDate(date):
    pass


class Stay(NamedTuple):
    day: date
    at: datetime


P = Pattern['%d.%m.%Y %H:%M']


@dataclass
class A:
    pair: Annotated[Tuple[date, datetime], Pattern['%d.%m.%Y %H:%M']] = None
    byday: Annotated[Dict[date, datetime], Pattern['%d.%m.%Y %H:%M']] = None
    stays: Annotated[List[Stay], UTCPattern['%d.%m.%Y %H:%M']] = None


@dataclass
class B:
    day: Annotated[date, P] = None
    at: Annotated[datetime, P] = None
    days: Annotated[List[MyDate], P] = None
    clock: Annotated[time, P] = None


LoadMeta(v1=True).bind_to(A)
LoadMeta(v1=True).bind_to(B)
v = datetime(2021, 2, 3, 14, 45)
s = v.strftime('%d.%m.%Y %H:%M')
try:
    a = fromdict(A, {'pair': [s, s], 'byday': {s: s}})
    check('tuple[date, datetime] second element', a.pair[1], v)
    check('tuple[date, datetime] first element', a.pair[0], v.date())
    check('dict[date, datetime] value', a.byday[v.date()], v)
    b = fromdict(B, {'day': s, 'at': s, 'days': [s], 'clock': s})
    check('shared P: date field', b.day, v.date())
    check('shared P: datetime field', b.at, v)
    check('shared P: List[MyDate] element', b.days[0], MyDate(2021, 2, 3))
    check('shared P: time field', b.clock, v.time())
    check('shared P: dump/load', fromdict(B, asdict(b)), b)
except Exception as exc:
    print('FAIL raised', type(exc).__name__, str(exc)[:300])
    ok = False
sys.exit(0 if ok else 1)
