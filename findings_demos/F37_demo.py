"""F37: EnvWizard -- an env prefix must be applied to EACH of several candidate variable names.

`x: int = env_field(('Q', 'A', 'B'))` with `env_prefix = 'P_'` (or `_env_prefix='C_'`) looks up the
single variable "P_('Q', 'A', 'B')" (prefix + repr of the tuple), so `P_A=1` is never found and the
field silently falls back to its default (or is reported missing).

exit 0 = behaves correctly, exit 1 = defect present.
"""
import os
import sys

from dataclass_wizard import EnvWizard, env_field

ok = True


def fail(msg):
    global ok
    ok = False
    print('FAIL', msg)


for k in list(os.environ):
    if k.startswith(('P_', 'C_')) or k in ('A', 'B', 'Q'):
        del os.environ[k]

os.environ.update({'P_A': '1', 'P_B': '2', 'A': '10', 'C_B': '3', 'P_x"{0}': '4'})


class E(EnvWizard):
    class _(EnvWizard.Meta):
        env_prefix = 'P_'

    x: int = env_field(('Q', 'A', 'B'), default=0)
    y: int = env_field(('Q', 'x"{0}'), default=0)
    z: int = env_field('B', default=0)


e = E(_reload=True)
if e.x != 1:
    fail(f'prefix P_ + candidates (Q, A, B): x == {e.x!r}, expected 1 (P_A)')
if e.y != 4:
    fail(f'prefix P_ + candidates (Q, x"{{0}}): y == {e.y!r}, expected 4')
if e.z != 2:
    fail(f'prefix P_ + single name B: z == {e.z!r}, expected 2 (P_B)')

got = E(_reload=True, _env_prefix='C_').x
if got != 3:
    fail(f'dynamic prefix C_ + candidates (Q, A, B): x == {got!r}, expected 3 (C_B)')

got = E(_reload=True, _env_prefix=None).x
if got != 10:
    fail(f'no prefix + candidates (Q, A, B): x == {got!r}, expected 10 (A)')

print('OK' if ok else 'DEFECT PRESENT')
sys.exit(0 if ok else 1)
