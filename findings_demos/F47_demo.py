"""F47 (v1): Union[List[int], str] given ['a'] returned the raw input list ['a']: the generated
union function keeps `tp = type(v1)`, the list member's element expression rebinds `tp` through a
walrus inside the comprehension, and after that member fails `if tp is str: return v1` fires.

exit 0 = behaves correctly (a str, or a ParseError), exit 1 = defect present.
"""
import sys
from dataclasses import dataclass
from typing import Union, List, Dict
from dataclass_wizard import fromdict, LoadMeta

ok = True


def check(ann, val):
    global ok

    @dataclass
    class C:
        x: ann
    LoadMeta(v1=True).bind_to(C)
    try:
        r = fromdict(C, {'x': val}).x
    except Exception:
        return
    if r is val or type(r) in (list, dict) and r == val and not all(type(e) is int for e in (r if isinstance(r, list) else r.values())):
        print('FAIL', ann, val, '->', repr(r)); ok = False


check(Union[List[int], str], ['a'])
check(Union[List[int], str], [1, 'Z'])
check(Union[Dict[str, int], str], {'a': 'x'})
sys.exit(0 if ok else 1)
