"""Demo for F26-v1-seq-in-dict-key: exit 0 = behaves correctly, exit 1 = defect present.
Run: PYTHONPATH=<repo> python F26-v1-seq-in-dict-key_demo.py"""
import sys, traceback
from dataclasses import dataclass
from typing import *
from dataclass_wizard import fromdict, asdict, LoadMeta
ok = False
try:
    @dataclass
    class K:
        x: dict[tuple[int, ...], int]
    LoadMeta(v1=True).bind_to(K)
    k = K({(1, 2): 3})
    ok = fromdict(K, asdict(k)) == k
except Exception:
    traceback.print_exc()
    ok = False
print('F26-v1-seq-in-dict-key:', 'behaves correctly' if ok else 'DEFECT PRESENT')
sys.exit(0 if ok else 1)
