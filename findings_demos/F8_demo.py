"""F8: v1 engine -- generating the loader for a fixed-arity tuple whose elements are
float / UUID / Decimal / Path / bytearray / containers ... raised
`TypeError: sequence item N: expected str instance, TypeInfo found`.

exit 0 = behaves correctly, exit 1 = defect present.
"""
import sys
from collections import deque
from dataclasses import dataclass
from decimal import Decimal
from pathlib import Path
from typing import Optional
from uuid import UUID

from dataclass_wizard import JSONWizard

ok = True
_counter = 0


def load(tp, value):
    global _counter
    _counter += 1
    ns = dict(globals(), tp=tp)
    exec(f"""
@dataclass
class C{_counter}(JSONWizard):
    class _(JSONWizard.Meta):
        v1 = True
    x: tp
""", ns)
    return ns[f'C{_counter}'].from_dict({'x': value}).x


def check(label, tp, value, expected):
    global ok
    try:
        got = load(tp, value)
    except BaseException as e:
        print(f'FAIL {label}: {type(e).__name__}: {str(e).splitlines()[0]}')
        ok = False
        return
    same_types = (type(got) is type(expected)
                  and [type(g) for g in got] == [type(e) for e in expected])
    if got != expected or not same_types:
        print(f'FAIL {label}: got {got!r}, expected {expected!r}')
        ok = False
    else:
        print(f'ok   {label}: {got!r}')


U = 'ab1c9ab4-1d4b-4e1e-9c55-6f29b6a3b0a4'

check('tuple[int, float]', tuple[int, float], ['1', '2.5'], (1, 2.5))
check('tuple[float]', tuple[float], ['2.5'], (2.5,))
check('tuple[float, float]', tuple[float, float], [1, '2.5'], (1.0, 2.5))
check('tuple[str, UUID]', tuple[str, UUID], ['a', U], ('a', UUID(U)))
check('tuple[Decimal, int]', tuple[Decimal, int], ['1.10', 2], (Decimal('1.10'), 2))
check('tuple[Path, str]', tuple[Path, str], ['/tmp/x', 's'], (Path('/tmp/x'), 's'))
check('tuple[bytearray, int]', tuple[bytearray, int], ['aGk=', 1], (bytearray(b'hi'), 1))
check('tuple[list[int], int]', tuple[list[int], int], [['1', 2], '3'], ([1, 2], 3))
check('tuple[int, dict[str, float]]', tuple[int, dict[str, float]], [1, {'a': '2'}], (1, {'a': 2.0}))
check('tuple[set[int], deque[int]]', tuple[set[int], deque[int]], [[1, 1], ['2']], ({1}, deque([2])))
# NB: a fixed-arity tuple directly inside another indexed position, e.g.
# `tuple[tuple[int, float], float]`, is deliberately not checked here: once generation
# no longer fails, it runs into a separate defect (element index `v1[0][k]` is generated
# as `v1[k]`), which is independent of F8 (see SUMMARY.md).
check('tuple[Optional[float], int]', tuple[Optional[float], int], [None, 1], (None, 1))
check('list[tuple[int, float]]', list[tuple[int, float]], [['1', '2.5']], [(1, 2.5)])
# these have always worked
check('tuple[int, str]', tuple[int, str], ['1', 2], (1, '2'))
check('tuple[float, ...]', tuple[float, ...], ['1', 2], (1.0, 2.0))

print('PASS' if ok else 'FAIL')
sys.exit(0 if ok else 1)
