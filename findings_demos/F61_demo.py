"""F61: v1 - the helper generated for a NamedTuple / TypedDict / multi-member Union is cached per TYPE for the whole
class (`recursion_guard[cls]`, v1/decorators.py:138-155) although the date/time pattern of the field being processed
is baked into it.  A second field that reaches the same type with ANOTHER pattern is loaded with the first field's
pattern (its own pattern is rejected), and an UNPATTERNED field of that type accepts the first field's pattern.
The default engine keeps the fields apart.

exit 0 = behaves correctly, exit 1 = defect present.
"""
import sys
from dataclasses import dataclass
from datetime import date
from typing import Annotated, Dict, List, NamedTuple, TypedDict, Union

from dataclass_wizard import fromdict, LoadMeta
from dataclass_wizard.errors import ParseError
from dataclass_wizard.v1 import Pattern

ok = True


class Span(NamedTuple):
    first: date
    n: int


class Row(TypedDict):
    at: date


@dataclass
class C:
    a: Annotated[List[Span], Pattern['%d.%m.%Y']] = None
    b: Annotated[List[Span], Pattern['%Y_%m_%d']] = None
    c: List[Span] = None                                       # not patterned
    r1: Annotated[Row, Pattern['%d.%m.%Y']] = None
    r2: Annotated[Dict[str, Row], Pattern['%Y_%m_%d']] = None
    u1: Annotated[Union[date, List[int]], Pattern['%d.%m.%Y']] = None
    u2: Annotated[Union[date, List[int]], Pattern['%Y_%m_%d']] = None


LoadMeta(v1=True).bind_to(C)
D = date(2021, 2, 3)


def expect(label, data, field, want):
    global ok
    try:
        got = getattr(fromdict(C, data), field)
    except ParseError as e:
        got = 'ParseError'
    except BaseException as e:
        got = 'raised %s' % type(e).__name__
    good = got == want
    print(f'{"ok  " if good else "FAIL"} {label}: {got!r} (want {want!r})')
    ok = ok and good


expect('NamedTuple, first pattern', {'a': [['03.02.2021', 1]]}, 'a', [Span(D, 1)])
expect('NamedTuple, second field with its own pattern', {'b': [['2021_02_03', 1]]}, 'b', [Span(D, 1)])
expect('NamedTuple, second field rejects the first pattern', {'b': [['03.02.2021', 1]]}, 'b', 'ParseError')
expect('NamedTuple, unpatterned field loads ISO', {'c': [['2021-02-03', 1]]}, 'c', [Span(D, 1)])
expect('NamedTuple, unpatterned field rejects the pattern of another field', {'c': [['03.02.2021', 1]]}, 'c', 'ParseError')
expect('TypedDict, first pattern', {'r1': {'at': '03.02.2021'}}, 'r1', {'at': D})
expect('TypedDict, second field with its own pattern', {'r2': {'k': {'at': '2021_02_03'}}}, 'r2', {'k': {'at': D}})
expect('Union, first pattern', {'u1': '03.02.2021'}, 'u1', D)
expect('Union, second field with its own pattern', {'u2': '2021_02_03'}, 'u2', D)
sys.exit(0 if ok else 1)
