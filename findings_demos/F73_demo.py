"""F73: the ParseError of a patterned date field must name the type of ITS OWN position, whatever other
positions share the `Pattern(...)` object and whichever class was loaded before.

`DMY` is one Pattern object used as `Annotated[date, DMY]` in class Day and `Annotated[datetime, DMY]` in
class Stamp (default engine).  A failing load of Day is made (a) first in a fresh interpreter and (b) after
Day and Stamp have been loaded; both must report the same error (class, field, type named, first message line).

exit 0 = behaves correctly, exit 1 = defect present.  PYTHONPATH decides the tree.
"""
import os
import subprocess
import sys

DEFS = r'''
from dataclasses import dataclass
from datetime import date, datetime
from typing import Annotated
from dataclass_wizard import fromdict, Pattern
from dataclass_wizard.errors import ParseError

DMY = Pattern('%d.%m.%Y')

@dataclass
class Day:
    day: Annotated[date, DMY]

@dataclass
class Stamp:
    at: Annotated[datetime, DMY]

def probe():
    try:
        r = fromdict(Day, {'day': 'zz'})
        print('value', r)
    except ParseError as e:
        print(type(e).__name__, e.class_name, e.field_name, getattr(e.ann_type, '__name__', e.ann_type),
              '|', str(e).splitlines()[0][:160])
    except Exception as e:
        print('other', type(e).__name__)
'''
HISTORY = "fromdict(Day, {'day': '24.12.2021'})\nfromdict(Stamp, {'at': '24.12.2021'})\n"


def run(code):
    p = subprocess.run([sys.executable, '-c', code], env=dict(os.environ, PYTHONHASHSEED='0'),
                       capture_output=True, text=True)
    if p.returncode != 0:
        print(p.stderr)
        raise SystemExit(2)
    return p.stdout.strip()


fresh = run(DEFS + 'probe()\n')
hist = run(DEFS + HISTORY + 'probe()\n')
print('fresh process :', fresh)
print('after history :', hist)
ok = fresh == hist and ' date ' in (' ' + fresh.split('|')[0])
if not ok:
    print('FAIL: the error of load(Day) depends on the earlier load of the unrelated class Stamp (or names a wrong type)')
    sys.exit(1)
print('OK')
sys.exit(0)
