"""F15: v1 engine -- `Literal[...]` must compare value AND type (PEP 586), like the
default engine does: `Literal[1, 'a']` must reject `True` and `1.0`, `Literal[True]`
must reject `1`.

exit 0 = behaves correctly, exit 1 = defect present.
"""
import sys
from dataclasses import dataclass
from enum import Enum
from typing import Literal, Optional, Union

from dataclass_wizard import JSONWizard
from dataclass_wizard.errors import ParseError

ok = True
_counter = 0


class Color(str, Enum):
    RED = 'red'


def make(tp):
    global _counter
    _counter += 1
    ns = dict(globals(), tp=tp)
    exec(f"""
@dataclass
class C{_counter}(JSONWizard):
    class _(JSONWizard.Meta):
        v1 = True
    x: tp
""", ns)
    return ns[f'C{_counter}']


def accepts(label, cls, value):
    global ok
    try:
        got = cls.from_dict({'x': value}).x
    except BaseException as e:
        print(f'FAIL {label} <- {value!r}: {type(e).__name__}: {str(e).splitlines()[0]}')
        ok = False
        return
    if got != value or type(got) is not type(value):
        print(f'FAIL {label} <- {value!r}: got {got!r}')
        ok = False
    else:
        print(f'ok   {label} <- {value!r}: {got!r}')


def rejects(label, cls, value):
    global ok
    try:
        got = cls.from_dict({'x': value}).x
    except ParseError as e:
        print(f'ok   {label} <- {value!r}: ParseError ({e.base_error})')
    except BaseException as e:
        print(f'FAIL {label} <- {value!r}: {type(e).__name__}: {str(e).splitlines()[0]}')
        ok = False
    else:
        print(f'FAIL {label} <- {value!r}: accepted, returned {got!r}')
        ok = False


L = make(Literal[1, 'a'])
accepts("Literal[1, 'a']", L, 1)
accepts("Literal[1, 'a']", L, 'a')
rejects("Literal[1, 'a']", L, True)
rejects("Literal[1, 'a']", L, 1.0)
rejects("Literal[1, 'a']", L, 2)
rejects("Literal[1, 'a']", L, 'b')
rejects("Literal[1, 'a']", L, None)
rejects("Literal[1, 'a']", L, [1])

T = make(Literal[True])
accepts('Literal[True]', T, True)
rejects('Literal[True]', T, 1)
rejects('Literal[True]', T, 1.0)
rejects('Literal[True]', T, False)

Z = make(Literal[0, False])
accepts('Literal[0, False]', Z, 0)
accepts('Literal[0, False]', Z, False)
rejects('Literal[0, False]', Z, 0.0)

B = make(Literal[1, True])
accepts('Literal[1, True]', B, 1)
accepts('Literal[1, True]', B, True)

N = make(Literal['x', None])
accepts("Literal['x', None]", N, None)
accepts("Literal['x', None]", N, 'x')
rejects("Literal['x', None]", N, 0)

O = make(Optional[Literal[1]])
accepts('Optional[Literal[1]]', O, None)
accepts('Optional[Literal[1]]', O, 1)
rejects('Optional[Literal[1]]', O, True)

E = make(Literal[Color.RED])
accepts('Literal[Color.RED]', E, Color.RED)
rejects('Literal[Color.RED]', E, 'red')      # == Color.RED and same hash, but a plain `str`

U = make(Union[Literal[1], str])
accepts('Union[Literal[1], str]', U, 1)
accepts('Union[Literal[1], str]', U, 'q')

# the error carries the allowed *values* (not type/value pairs)
try:
    L.from_dict({'x': True})
except ParseError as e:
    allowed = e.kwargs.get('allowed_values')
    if allowed is None or sorted(map(repr, allowed)) != ["'a'", '1']:
        print(f'FAIL allowed_values in error: {allowed!r}')
        ok = False
    else:
        print(f'ok   allowed_values in error: {allowed!r}')
except BaseException:
    pass

print('PASS' if ok else 'FAIL')
sys.exit(0 if ok else 1)
