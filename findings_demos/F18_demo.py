"""Demo for F18-v1-fixed-tuple-index: exit 0 = behaves correctly, exit 1 = defect present.
Run: PYTHONPATH=<repo> python F18-v1-fixed-tuple-index_demo.py"""
import sys, traceback
from dataclasses import dataclass
from typing import *
from dataclass_wizard import fromdict, asdict, LoadMeta
ok = False
try:
    @dataclass
    class A:
        x: tuple[tuple[int, str], str]
    class NT(NamedTuple):
        a: int
        b: tuple[int, str]
    @dataclass
    class B:
        y: list[NT]
    LoadMeta(v1=True).bind_to(A); LoadMeta(v1=True).bind_to(B)
    a = A(((1, 'a'), 'b')); b = B([NT(1, (2, 'z'))])
    ok = fromdict(A, asdict(a)) == a and fromdict(B, asdict(b)) == b
except Exception:
    traceback.print_exc()
    ok = False
print('F18-v1-fixed-tuple-index:', 'behaves correctly' if ok else 'DEFECT PRESENT')
sys.exit(0 if ok else 1)
