"""F7: v1 engine -- helper functions generated for NamedTuple / TypedDict / Literal
must use their own parameter (`v1`), not the caller's variable index.

On the defective tree e.g. `list[NT]` fails at load with "name 'v2' is not defined".

exit 0 = behaves correctly, exit 1 = defect present.
"""
import sys
from dataclasses import dataclass
from typing import NamedTuple, TypedDict, Literal, Optional, Union

from dataclass_wizard import JSONWizard
from dataclass_wizard.errors import ParseError

ok = True
_counter = 0


class NT(NamedTuple):
    a: int
    b: str = 'dflt'


class Outer(NamedTuple):
    inner: NT
    c: float


class TD(TypedDict):
    k: int


class TDOpt(TypedDict, total=False):
    k: int
    nt: NT


Lit = Literal['a', 'b']


def load(tp, value):
    global _counter
    _counter += 1
    ns = dict(globals(), tp=tp)
    exec(f"""
@dataclass
class C{_counter}(JSONWizard):
    class _(JSONWizard.Meta):
        v1 = True
    x: tp
""", ns)
    return ns[f'C{_counter}'].from_dict({'x': value}).x


def check(label, tp, value, expected):
    global ok
    try:
        got = load(tp, value)
    except BaseException as e:
        print(f'FAIL {label}: {type(e).__name__}: {str(e).splitlines()[0]}')
        ok = False
        return
    if got != expected or type(got) is not type(expected):
        print(f'FAIL {label}: got {got!r}, expected {expected!r}')
        ok = False
    else:
        print(f'ok   {label}: {got!r}')


def check_raises(label, tp, value, exc):
    global ok
    try:
        got = load(tp, value)
    except exc as e:
        print(f'ok   {label}: raised {type(e).__name__}')
    except BaseException as e:
        print(f'FAIL {label}: {type(e).__name__}: {str(e).splitlines()[0]}')
        ok = False
    else:
        print(f'FAIL {label}: returned {got!r}, expected {exc.__name__}')
        ok = False


# directly annotated (worked before: caller's variable happens to be `v1`)
check('NT', NT, [1, 'z'], NT(1, 'z'))
check('TD', TD, {'k': '3'}, {'k': 3})
check('Literal', Lit, 'a', 'a')

# nested one or more levels deep
check('list[NT]', list[NT], [[1, 'z'], ['2']], [NT(1, 'z'), NT(2)])
check('dict[str, NT]', dict[str, NT], {'p': [1, 'z']}, {'p': NT(1, 'z')})
check('Optional[list[NT]]', Optional[list[NT]], [[1, 'z']], [NT(1, 'z')])
check('Optional[list[NT]] None', Optional[list[NT]], None, None)
check('list[tuple[int, NT]]', list[tuple[int, NT]], [['7', [1, 'z']]], [(7, NT(1, 'z'))])
check('tuple[int, NT]', tuple[int, NT], ['7', [1, 'z']], (7, NT(1, 'z')))
check('list[list[NT]]', list[list[NT]], [[[1, 'z']]], [[NT(1, 'z')]])
check('list[Outer]', list[Outer], [[[1, 'z'], '2.5']], [Outer(NT(1, 'z'), 2.5)])
check('list[TD]', list[TD], [{'k': '1'}, {'k': 2}], [{'k': 1}, {'k': 2}])
check('dict[str, list[TD]]', dict[str, list[TD]], {'q': [{'k': '1'}]}, {'q': [{'k': 1}]})
check('list[TDOpt]', list[TDOpt], [{'k': '1', 'nt': [5]}, {}], [{'k': 1, 'nt': NT(5)}, {}])
check('list[Literal]', list[Lit], ['a', 'b', 'a'], ['a', 'b', 'a'])
check('dict[str, Literal]', dict[str, Lit], {'p': 'b'}, {'p': 'b'})
check('tuple[str, Literal]', tuple[str, Lit], ['p', 'b'], ('p', 'b'))
check('list[Union[NT, None, int]]', list[Union[int, None, NT]], [[1, 'z'], None, 3],
      [NT(1, 'z'), None, 3])

# errors inside the helper still surface as library errors
check_raises('list[Literal] bad value', list[Lit], ['a', 'c'], ParseError)
check_raises('list[TD] missing key', list[TD], [{}], ParseError)

print('PASS' if ok else 'FAIL')
sys.exit(0 if ok else 1)
