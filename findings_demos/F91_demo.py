"""F91 demo (property C10): v1 engine, CatchAll field with default_factory declared after a defaulted field.
Exit 0 = behaves as the property states, 1 = defect present.
Run: PYTHONPATH=<repo> python F91-v1-catchall-default-factory-position_demo.py"""
import sys
from dataclasses import dataclass, field
from dataclass_wizard import JSONWizard, CatchAll


@dataclass
class A(JSONWizard):
    class _(JSONWizard.Meta):
        v1 = True
    a: int
    b: int = 3
    rest: CatchAll = field(default_factory=dict)


ok = True


def check(label, doc, expected):
    global ok
    try:
        got = A.from_dict(doc)
        got = (got.a, got.b, got.rest)
    except Exception as e:  # noqa
        got = '%s: %s' % (type(e).__name__, e)
    if got != expected:
        ok = False
        print('FAIL %s: %r -> %r, expected %r' % (label, doc, got, expected))
    else:
        print('ok   %s' % label)


check('unknown key is captured, mapped field keeps its default', {'a': 1, 'zz': 5}, (1, 3, {'zz': 5}))
check('no unknown key', {'a': 1}, (1, 3, {}))
check('defaulted field given', {'a': 1, 'b': 2}, (1, 2, {}))
check('defaulted field given + unknown key', {'a': 1, 'b': 2, 'zz': 5}, (1, 2, {'zz': 5}))
out = A.from_dict({'a': 1, 'b': 2, 'zz': 5}).to_dict() if ok else None
if ok and out != {'a': 1, 'b': 2, 'zz': 5}:
    ok = False
    print('FAIL to_dict(from_dict(d)) = %r' % (out,))
sys.exit(0 if ok else 1)
