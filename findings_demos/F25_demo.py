"""F22: property_wizard, underscored property `_x` + public field `x: <mutable type> = <plain value>`:
the declared plain default must reach the setter when the argument is omitted.  On the pinned tree
`_process_underscored_property` does `fval.default = v` on the Field derived from the annotation, which
keeps that Field's default_factory (list / dict / set, or the one given in Annotated[..., field(default_factory=...)]),
and `_wrapper` prefers the factory: the setter receives a fresh [] instead of the declared default.
(The mirrored style - public property + `_x: List[int] = None` - honours the declared default.)

exit 0 = behaves correctly, exit 1 = defect present.
"""
import sys
from dataclasses import dataclass, field
from typing import List, Dict, Optional, Annotated

from dataclass_wizard import property_wizard

ok = True


def mk(annotation, default):
    ns = {'dataclass': dataclass, 'field': field, 'property_wizard': property_wizard, 'List': List, 'Dict': Dict,
          'Optional': Optional, 'Annotated': Annotated, 'DEFAULT': default, 'SEEN': []}
    src = f'''
@dataclass
class Vehicle(metaclass=property_wizard):
    wheels: {annotation} = DEFAULT

    @property
    def _wheels(self):
        return self._wheels

    @_wheels.setter
    def _wheels(self, value):
        SEEN.append(value)
        self._wheels = value
'''
    exec(src, ns)
    return ns['Vehicle'], ns['SEEN']


for annotation, default in [('List[int]', None), ('list', (1, 2)), ('Dict[str, int]', None), ('set', None),
                            ('Annotated[list, field(default_factory=list)]', None),
                            # controls that already work
                            ('Optional[List[int]]', None), ('int', 7), ('str', None)]:
    cls, seen = mk(annotation, default)
    v = cls()
    if seen != [default] or v.wheels != default:
        print(f'FAIL wheels: {annotation} = {default!r}: setter received {seen!r}, v.wheels = {v.wheels!r}')
        ok = False
    else:
        print(f'ok   wheels: {annotation} = {default!r}: setter received {seen!r}')
    cls(wheels=[5])
    if seen[-1] != [5]:
        print(f'FAIL explicit argument not routed through the setter: {seen!r}')
        ok = False

sys.exit(0 if ok else 1)
