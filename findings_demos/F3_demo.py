"""F3: a negative `timedelta` is dumped via `str()` -- e.g. `timedelta(seconds=-1)` ->
'-1 day, 23:59:59' (negative days, non-negative time part) -- but loading that string
gave a different value (`timedelta(days=-2, seconds=1)`), as the leading sign was applied
to the whole string.

exit 0 = behaves correctly (dump is `str()`, load(dump(td)) == td), exit 1 = defect present.
"""
import sys
from dataclasses import dataclass
from datetime import timedelta

from dataclass_wizard import JSONWizard
from dataclass_wizard.utils.type_conv import as_timedelta

ok = True


def fail(msg):
    global ok
    ok = False
    print('FAIL', msg)


@dataclass
class A(JSONWizard):
    td: timedelta


@dataclass
class V(JSONWizard):
    class _(JSONWizard.Meta):
        v1 = True

    td: timedelta


VALUES = [
    timedelta(0), timedelta(seconds=1), timedelta(microseconds=1), timedelta(days=1),
    timedelta(days=1, seconds=1), timedelta(days=400, hours=5, microseconds=5),
    # negative values
    timedelta(seconds=-1), timedelta(microseconds=-1), timedelta(days=-1),
    timedelta(days=-2, seconds=5), timedelta(days=-1, hours=-3),
    timedelta(days=-1, seconds=1, microseconds=7), timedelta(hours=-25),
    timedelta(days=-400, hours=5, microseconds=5), timedelta(days=-99999, microseconds=1),
    timedelta(milliseconds=-1500),
]

for cls in (A, V):
    for td in VALUES:
        dumped = cls(td).to_dict()['td']
        if dumped != str(td):
            fail(f'{cls.__name__} dump {td!r}: {dumped!r}, expected str() = {str(td)!r}')
            continue
        try:
            back = cls.from_dict({'td': dumped}).td
        except BaseException as e:
            fail(f'{cls.__name__} load {dumped!r}: {type(e).__name__}: {e}')
            continue
        if back != td:
            fail(f'{cls.__name__} {td!r} -> {dumped!r} -> {back!r}')
        else:
            print(f'ok   {cls.__name__} {dumped!r:32} -> {back!r}')

# other (documented) input forms are unaffected
for s, expected in [('32', 32), ('32.7', 32.7), ('32m', 1920), ('2h32m', 9120), ('4:13', 253),
                    ('5hr34m56s', 20096), ('1.2 minutes', 72), ('-0:00:01', -1), ('-32m', -1920),
                    ('-1 day', -86400), ('-2 days', -172800), ('-1 day, 2 hours', -93600),
                    ('1 day, 0:00:01', 86401)]:
    got = as_timedelta(s)
    if got != timedelta(seconds=expected):
        fail(f'as_timedelta({s!r}) = {got!r}, expected {timedelta(seconds=expected)!r}')
    else:
        print(f'ok   as_timedelta({s!r}) = {got!r}')

for bad in ('testing', '23:59:59-04:00', '-1 day, testing', '-x days, 0:00:00'):
    try:
        got = as_timedelta(bad)
    except ValueError:
        print(f'ok   as_timedelta({bad!r}) raises ValueError')
    except BaseException as e:
        fail(f'as_timedelta({bad!r}): {type(e).__name__}: {e}')
    else:
        fail(f'as_timedelta({bad!r}) = {got!r}, expected ValueError')

print('PASS' if ok else 'FAIL')
sys.exit(0 if ok else 1)
