"""F30 demo: `for t in hooks` in dumpers._asdict_inner iterates the dump-hook dict of the
dumper class while another thread's dump caches a new type in it (`hooks[cls] = ...`).

No scheduler hook is needed: the value dumped by thread A has a `__class__` property, so the
`isinstance(obj, t)` test inside the scan runs Python code, in which A waits until the main
thread has dumped a value of another new type through the same dumper.

exit 0: both dumps return what they return when run one after the other
exit 1: a dump fails with an error that no sequential order produces (RuntimeError)."""
import sys, threading
from dataclasses import dataclass
from typing import Any
from dataclass_wizard import asdict

inside_scan, resume = threading.Event(), threading.Event()


class Slow:
    """a user type no dump hook is registered for; its isinstance checks are slow"""
    calls = 0

    @property
    def __class__(self):
        Slow.calls += 1
        if Slow.calls == 4:          # 1st call: isinstance(obj, tuple); 2nd.. : inside `for t in hooks`
            inside_scan.set()
            resume.wait(10)
        return Slow

    def __str__(self):
        return 'slow'


class MyStr(str):
    pass


@dataclass
class Box:
    v: Any


asdict(Box(1))                       # first use of Box done: only the hook cache is cold
out = {}


def thread_a():
    try:
        out['a'] = asdict(Box(Slow()))
    except BaseException as e:
        out['a'] = e


t = threading.Thread(target=thread_a)
t.start()
if not inside_scan.wait(10):
    print('could not reach the hook scan (library changed?)'); sys.exit(2)
out['b'] = asdict(Box(MyStr('x')))   # caches MyStr in the same hook dict
resume.set()
t.join()
print('A:', repr(out['a']))
print('B:', repr(out['b']))
ok = out['a'] == {'v': 'slow'} and out['b'] == {'v': 'x'}
print('OK: sequential results' if ok else 'DEFECT: outcome of no sequential order')
sys.exit(0 if ok else 1)
