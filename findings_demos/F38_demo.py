"""C15c: catch-all field with a default + Meta.skip_defaults_if -> NameError on every dump.
exit 0 = behaves correctly, exit 1 = defect present."""
import sys
from dataclasses import dataclass
from dataclass_wizard import JSONWizard, CatchAll, IS


@dataclass
class A(JSONWizard):
    class _(JSONWizard.Meta):
        skip_defaults_if = IS(None)
    x: int
    extra: CatchAll = None


try:
    d1 = A.from_dict({'x': 1, 'y': 2}).to_dict()
    d2 = A.from_dict({'x': 1}).to_dict()
except NameError as e:
    print('DEFECT:', e)
    sys.exit(1)
ok = d1 == {'x': 1, 'y': 2} and d2 == {'x': 1}
print('dump:', d1, d2, 'OK' if ok else 'WRONG')
sys.exit(0 if ok else 1)
