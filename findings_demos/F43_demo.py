"""F43: an aware datetime/time whose UTC offset is sub-minute (+00:00:SS) was dumped as
'...Z:SS' because `isoformat().replace('+00:00', 'Z', 1)` also hits the first five characters
of the offset '+00:00:30'.  Only a trailing '+00:00' is a UTC offset.

exit 0 = behaves correctly, exit 1 = defect present.
"""
import sys
from dataclasses import dataclass
from datetime import datetime, time, timezone, timedelta
from dataclass_wizard import asdict, fromdict

ok = True


@dataclass
class A:
    when_at: datetime
    at_time: time


tz = timezone(timedelta(seconds=30))
x = A(datetime(2020, 1, 1, tzinfo=tz), time(1, 2, 3, tzinfo=tz))
d = asdict(x)
if d != {'whenAt': '2020-01-01T00:00:00+00:00:30', 'atTime': '01:02:03+00:00:30'}:
    print('FAIL sub-minute offset dumped as', d); ok = False
if fromdict(A, d) != x:
    print('FAIL round trip'); ok = False
u = A(datetime(2020, 1, 1, tzinfo=timezone.utc), time(1, 2, 3, tzinfo=timezone.utc))
if asdict(u) != {'whenAt': '2020-01-01T00:00:00Z', 'atTime': '01:02:03Z'} or fromdict(A, asdict(u)) != u:
    print('FAIL utc must still be written as Z', asdict(u)); ok = False
sys.exit(0 if ok else 1)
