"""F33 demo: v1 `load_func_for_dataclass` pops the catch-all entry out of the shared alias table
(`field_to_aliases.pop(CATCH_ALL, None)`), so a second, concurrent generation for the same class
builds a function without the catch-all field.

No scheduler hook is needed: the alias set-up evaluates string annotations; the annotation of the
field AFTER the catch-all field calls a function in which thread A waits while the main thread
makes its first load (set-up, pop, generate, store).  A then finishes its set-up, and pops nothing.

exit 0: both loads equal the sequential ones;  exit 1: TypeError / other non-sequential outcome."""
import sys, threading
from dataclasses import dataclass
from dataclass_wizard import fromdict, LoadMeta, CatchAll

in_gen, resume = threading.Event(), threading.Event()
state = {'n': 0}


def slow_int():
    state['n'] += 1
    if state['n'] == 1:
        in_gen.set()
        resume.wait(10)
    return int


@dataclass
class C:
    a: int
    rest: CatchAll = None
    z: 'slow_int()' = 0


LoadMeta(v1=True).bind_to(C)
out = {}


def thread_a():
    try:
        out['a'] = fromdict(C, {'a': 1, 'x': 2, 'z': 7})
    except BaseException as e:
        out['a'] = e


t = threading.Thread(target=thread_a)
t.start()
if not in_gen.wait(10):
    print('could not reach generation (library changed?)'); sys.exit(2)
try:
    out['b'] = fromdict(C, {'a': 3, 'y': 4, 'z': 8})
except BaseException as e:
    out['b'] = e
resume.set()
t.join()
print('A:', repr(out['a']))
print('B:', repr(out['b']))
ok = out['a'] == C(1, {'x': 2}, 7) and out['b'] == C(3, {'y': 4}, 8)
print('OK: sequential results' if ok else 'DEFECT: outcome of no sequential order')
sys.exit(0 if ok else 1)
