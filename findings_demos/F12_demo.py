"""F12: `MissingFields.missing_fields` must never list an `init=False` field
(it is not an `__init__()` parameter, so it cannot be "missing" from the input).

exit 0 = behaves correctly, exit 1 = defect present.
"""
import sys
from dataclasses import dataclass, field

from dataclass_wizard import JSONWizard, fromdict
from dataclass_wizard.errors import MissingFields

ok = True


def check(label, fn, missing, provided):
    global ok
    try:
        r = fn()
    except MissingFields as e:
        got_m, got_p = list(e.missing_fields), list(e.fields)
        if got_m != missing or got_p != provided:
            print(f'FAIL {label}: missing_fields={got_m!r} (expected {missing!r}), '
                  f'fields={got_p!r} (expected {provided!r})')
            ok = False
        else:
            print(f'ok   {label}: missing_fields={got_m!r}, fields={got_p!r}')
        # the message must render, and must not mention the init=False field as missing
        msg = str(e)
        if f'Missing: {missing!r}' not in msg:
            print(f'FAIL {label}: message does not contain "Missing: {missing!r}":\n{msg}')
            ok = False
    except BaseException as e:
        print(f'FAIL {label}: {type(e).__name__}: {e}')
        ok = False
    else:
        print(f'FAIL {label}: no error, returned {r!r}')
        ok = False


@dataclass
class A(JSONWizard):
    a: int
    b: int = field(init=False)


check('A {}', lambda: A.from_dict({}), ['a'], [])


@dataclass
class B:
    a: int
    c: str
    b: int = field(init=False)
    d: int = field(init=False, default=3)
    e: int = 5

    def __post_init__(self):
        self.b = self.a * 2


check('B {c}', lambda: fromdict(B, {'c': 'x'}), ['a'], ['c'])
check('B {a}', lambda: fromdict(B, {'a': 1}), ['c'], ['a'])
check('B {}', lambda: fromdict(B, {'e': 1}), ['a', 'c'], ['e'])


# v1 engine: `missing_fields` was already right, but the init=False field showed
# up under "Provided" (`fields`) -- same cause, other branch of `MissingFields.__init__`.
@dataclass
class V(JSONWizard):
    class _(JSONWizard.Meta):
        v1 = True

    a: int
    c: str
    b: int = field(init=False)


check('v1 V {c}', lambda: V.from_dict({'c': 'x'}), ['a'], ['c'])

# sanity: when nothing is missing the instance is built and `b` is set by __post_init__
try:
    inst = fromdict(B, {'a': 2, 'c': 'x'})
    assert (inst.a, inst.b, inst.c, inst.d, inst.e) == (2, 4, 'x', 3, 5), inst
    print('ok   B complete:', inst)
except BaseException as e:
    print(f'FAIL B complete: {type(e).__name__}: {e}')
    ok = False

print('PASS' if ok else 'FAIL')
sys.exit(0 if ok else 1)
