"""Demo for F23-v1-literal-guard-key: exit 0 = behaves correctly, exit 1 = defect present.
Run: PYTHONPATH=<repo> python F23-v1-literal-guard-key_demo.py"""
import sys, traceback
from dataclasses import dataclass
from typing import *
from dataclass_wizard import fromdict, asdict, LoadMeta
ok = False
try:
    @dataclass
    class C:
        x: Literal[1]
        y: Literal[True]
    LoadMeta(v1=True).bind_to(C)
    c = C(1, True)
    ok = fromdict(C, asdict(c)) == c
except Exception:
    traceback.print_exc()
    ok = False
print('F23-v1-literal-guard-key:', 'behaves correctly' if ok else 'DEFECT PRESENT')
sys.exit(0 if ok else 1)
