"""F27: v1 patterned dates/times - a pattern is not scoped to its own field.

 (a) `Annotated[T, Pattern[...]]` stores the pattern in the shared code-generation `extras` and never removes
     it: every date / time / datetime field declared AFTER it in the class is loaded with that pattern
     (a plain `date` field then returns a `time` for '15-45' and rejects the ISO date '2022-01-03').
 (b) two `Annotated[<same date/time type>, Pattern[...]]` fields in one class get helper functions with the
     same generated name (`_load_<cls>_pattern_time`): the later pattern is used for both fields.
 (c) the generated name of a pattern ignores its time zone: `TimePattern['%H-%M']` and `UTCTimePattern['%H-%M']`
     in one class share one helper, the naive field comes back with tzinfo=UTC.

exit 0 = behaves correctly, exit 1 = defect present.
"""
import sys
from dataclasses import dataclass
from datetime import date, time
from typing import Annotated, List, Dict

from dataclass_wizard import fromdict, LoadMeta
from dataclass_wizard.errors import ParseError
from dataclass_wizard.v1 import Pattern, UTCPattern, TimePattern, UTCTimePattern

ok = True


def expect(label, fn, want):
    global ok
    try:
        got = fn()
    except BaseException as e:
        got = 'raised %s' % type(e).__name__
    if got != want:
        print(f'FAIL {label}: {got!r}, expected {want!r}')
        ok = False
    else:
        print(f'ok   {label}: {got!r}')


@dataclass
class A:
    t: Annotated[time, Pattern['%H-%M']] = None
    d: date = None              # NOT patterned


LoadMeta(v1=True).bind_to(A)
expect('(a) plain date field after a patterned one loads ISO', lambda: fromdict(A, {'d': '2022-01-03'}).d, date(2022, 1, 3))
expect('(a) plain date field does not use the time pattern', lambda: fromdict(A, {'d': '15-45'}).d, 'raised ParseError')
expect('(a) the patterned field itself', lambda: fromdict(A, {'t': '15-45'}).t, time(15, 45))


@dataclass
class B:
    x: Annotated[List[time], Pattern['%H-%M']] = None
    y: Annotated[Dict[str, time], Pattern['%H_%M']] = None
    z: Annotated[time, Pattern['%H~%M']] = None


LoadMeta(v1=True).bind_to(B)
expect('(b) first of several patterned fields', lambda: fromdict(B, {'x': ['15-45']}).x, [time(15, 45)])
expect('(b) second', lambda: fromdict(B, {'y': {'k': '15_45'}}).y, {'k': time(15, 45)})
expect('(b) third', lambda: fromdict(B, {'z': '15~45'}).z, time(15, 45))


@dataclass
class C:
    naive: TimePattern['%H-%M'] = None
    utc: UTCTimePattern['%H-%M'] = None
    lst: Annotated[List[time], UTCPattern['%H-%M']] = None


LoadMeta(v1=True).bind_to(C)
c = fromdict(C, {'naive': '15-45', 'utc': '15-45', 'lst': ['15-45']})
expect('(c) naive pattern stays naive', lambda: c.naive.tzinfo, None)
expect('(c) UTC pattern is UTC', lambda: str(c.utc.tzinfo), 'UTC')
expect('(c) UTC pattern in a list is UTC', lambda: str(c.lst[0].tzinfo), 'UTC')

sys.exit(0 if ok else 1)
