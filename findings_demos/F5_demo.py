"""F5: dump keys (aliases) must be spliced into the generated dump code via repr.

An alias containing a quote / newline must not give SyntaxError on dump, and an
alias containing a backslash must dump under exactly that key.

exit 0 = behaves correctly, exit 1 = defect present.
"""
import sys
from dataclasses import dataclass
from typing import Annotated

from dataclass_wizard import JSONWizard, EnvWizard, json_field, json_key, asdict, fromdict

ok = True


def check(label, fn, expected):
    global ok
    try:
        got = fn()
    except BaseException as e:
        print(f'FAIL {label}: {type(e).__name__}: {e}')
        ok = False
        return
    if got != expected:
        print(f'FAIL {label}: got {got!r}, expected {expected!r}')
        ok = False
    else:
        print(f'ok   {label}: {got!r}')


KEYS = ["it's", 'a\nb', 'a\\b', 'a\\x41', 'say "hi"', "\\'", 'plain', '{x}', 'tab\there']

for n, key in enumerate(KEYS):
    # 1. JSONWizard + json_field(..., all=True)
    @dataclass
    class A(JSONWizard):
        x: int = json_field(key, all=True, default=0)

    check(f'json_field {key!r}', lambda: A(5).to_dict(), {key: 5})
    # ... and it round trips
    check(f'json_field {key!r} round-trip', lambda: A.from_dict(A(5).to_dict()), A(5))

    # 2. Annotated json_key(..., all=True), plain dataclass
    @dataclass
    class B:
        y: Annotated[str, json_key(key, all=True)] = ''

    check(f'json_key   {key!r}', lambda: asdict(B('v')), {key: 'v'})

    # 3. EnvWizard (environ/dumpers.py).  Keys with a newline or a double quote are
    #    left out here: they already break the generated `__init__` (load side,
    #    environ/wizard.py), which is a separate matter from the dump code.
    if '\n' in key or '"' in key:
        continue

    class E(EnvWizard):
        z: int = json_field(key, all=True, default=7)

    check(f'EnvWizard  {key!r}', lambda: E().to_dict(), {key: 7})


# nested path + tag key/value with awkward characters (already repr'd; guard against regressions)
from dataclass_wizard import path_field

@dataclass
class P(JSONWizard):
    class _(JSONWizard.Meta):
        tag_key = "t'k"
        tag = "t'v\\n"

    p: int = path_field(["a'b", 'c\\d'], default=1)

check('path/tag', lambda: P(3).to_dict(), {"a'b": {'c\\d': 3}, "t'k": "t'v\\n"})

print('PASS' if ok else 'FAIL')
sys.exit(0 if ok else 1)
