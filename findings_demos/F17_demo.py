"""F17: v1 engine -- for a class whose generated loader has no per-field `try` block
(its only init field is a `CatchAll`, or it has no init fields and `v1_on_unknown_key`
is RAISE/WARN), a non-dict input leaked a bare TypeError / IndexError instead of a
library error naming the class (as happens for every other class).

exit 0 = behaves correctly, exit 1 = defect present.
"""
import sys
from dataclasses import dataclass, field

from dataclass_wizard import JSONWizard, CatchAll, fromdict
from dataclass_wizard.errors import JSONWizardError, ParseError, MissingData, UnknownKeysError

ok = True


def fail(msg):
    global ok
    ok = False
    print('FAIL', msg)


@dataclass
class D(JSONWizard):
    class _(JSONWizard.Meta):
        v1 = True

    extra: CatchAll = None


@dataclass
class D2(JSONWizard):
    class _(JSONWizard.Meta):
        v1 = True

    extra: CatchAll            # no default


@dataclass
class N(JSONWizard):
    class _(JSONWizard.Meta):
        v1 = True
        v1_on_unknown_key = 'RAISE'

    computed: int = field(init=False, default=0)


# reference: a class with an ordinary field already behaves like this
@dataclass
class Ref(JSONWizard):
    class _(JSONWizard.Meta):
        v1 = True

    x: int = 0
    extra: CatchAll = None


for cls in (Ref, D, D2, N):
    name = cls.__name__
    for bad in (5, None, [1], 'ab', [], 1.5, True):
        try:
            got = fromdict(cls, bad)
        except JSONWizardError as e:
            want = MissingData if bad is None else ParseError
            msg = str(e)
            if not isinstance(e, want):
                fail(f'{name} <- {bad!r}: {type(e).__name__}, expected {want.__name__}')
            elif name not in msg:
                fail(f'{name} <- {bad!r}: message does not name the class: {msg!r}')
            else:
                print(f'ok   {name} <- {bad!r}: {type(e).__name__}')
        except BaseException as e:
            fail(f'{name} <- {bad!r}: bare {type(e).__name__}: {e}')
        else:
            fail(f'{name} <- {bad!r}: no error, returned {got!r}')

# valid input is unaffected
checks = [
    (D, {}, D(None)), (D, {'a': 1}, D({'a': 1})),
    (D2, {}, D2({})), (D2, {'a': 1}, D2({'a': 1})),
    (N, {}, N()),
    (Ref, {'x': '2', 'q': 1}, Ref(2, {'q': 1})),
]
for cls, doc, expected in checks:
    try:
        got = fromdict(cls, doc)
        if got != expected:
            fail(f'{cls.__name__} <- {doc!r}: got {got!r}, expected {expected!r}')
        else:
            print(f'ok   {cls.__name__} <- {doc!r}: {got!r}'.replace('\n', ''))
    except BaseException as e:
        fail(f'{cls.__name__} <- {doc!r}: {type(e).__name__}: {e}')

try:
    fromdict(N, {'zzz': 1})
except UnknownKeysError as e:
    print(f'ok   N <- unknown key: UnknownKeysError({e.unknown_keys!r})')
except BaseException as e:
    fail(f'N <- unknown key: {type(e).__name__}: {e}')
else:
    fail('N <- unknown key: no error')

print('PASS' if ok else 'FAIL')
sys.exit(0 if ok else 1)
