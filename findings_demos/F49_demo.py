"""Demo for F27-v1-none-annotation: exit 0 = behaves correctly, exit 1 = defect present.
Run: PYTHONPATH=<repo> python F27-v1-none-annotation_demo.py"""
import sys, traceback
from dataclasses import dataclass
from typing import *
from dataclass_wizard import fromdict, asdict, LoadMeta
ok = False
try:
    @dataclass
    class N:
        x: list[None]
        y: tuple[int, None]
        z: None = None
    LoadMeta(v1=True).bind_to(N)
    n = N([None], (1, None))
    ok = fromdict(N, asdict(n)) == n
except Exception:
    traceback.print_exc()
    ok = False
print('F27-v1-none-annotation:', 'behaves correctly' if ok else 'DEFECT PRESENT')
sys.exit(0 if ok else 1)
