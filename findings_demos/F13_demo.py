"""F13: EnvWizard -- after a variable is deleted from `os.environ`, a reload must fall
back to another still-set variable that maps to the same field, not to the default.

`My-Var` and `myvar` both "clean" to `myvar`, which is how the field `my_var` finds them.

exit 0 = behaves correctly, exit 1 = defect present.
"""
import os
import sys

from dataclass_wizard import EnvWizard
from dataclass_wizard.environ import lookups
from dataclass_wizard.environ.lookups import Env, clean

ok = True


def fail(msg):
    global ok
    ok = False
    print('FAIL', msg)


def consistent():
    """`cleaned_to_env` must be consistent with the current variable names."""
    names = Env.var_names
    c2e = Env.cleaned_to_env
    stale = {k: v for k, v in c2e.items() if v not in names or clean(v) != k}
    absent = {clean(n) for n in names} - set(c2e)
    if stale or absent:
        fail(f'cleaned_to_env inconsistent: stale={stale!r} absent={sorted(absent)!r}')


for name in ('My-Var', 'myvar', 'MY_VAR', 'my_var', 'Other-Var', 'othervar'):
    os.environ.pop(name, None)

os.environ['My-Var'] = 'A'
os.environ['myvar'] = 'B'


class E(EnvWizard):
    my_var: str = 'dflt'
    other_var: str = 'dflt2'


first = E(_reload=True).my_var
print('1. both set            ->', first)
if first not in ('A', 'B'):
    fail(f'expected A or B, got {first!r}')
consistent()

# delete whichever variable was picked; the other one is still set
picked, survivor = ('My-Var', 'myvar') if first == 'A' else ('myvar', 'My-Var')
del os.environ[picked]
second = E(_reload=True).my_var
print(f'2. deleted {picked!r:9} ->', second)
if second != os.environ[survivor]:
    fail(f'{survivor!r} is still set to {os.environ[survivor]!r}, but got {second!r}')
consistent()

# without a reload the cached state is used, and gives the same answer
third = E().my_var
print('3. no reload           ->', third)
if third != second:
    fail(f'expected {second!r}, got {third!r}')

# delete the survivor too -> default
del os.environ[survivor]
fourth = E(_reload=True).my_var
print('4. both deleted        ->', fourth)
if fourth != 'dflt':
    fail(f'expected default, got {fourth!r}')
consistent()

# set one again -> picked up by a reload
os.environ['My-Var'] = 'C'
fifth = E(_reload=True).my_var
print("5. 'My-Var' set again   ->", fifth)
if fifth != 'C':
    fail(f"expected 'C', got {fifth!r}")
consistent()

# a newly added colliding variable, then removing it again, must return to the older one
os.environ['Other-Var'] = 'X'
if (v := E(_reload=True).other_var) != 'X':
    fail(f"expected 'X', got {v!r}")
os.environ['othervar'] = 'Y'
v = E(_reload=True).other_var
if v not in ('X', 'Y'):
    fail(f"expected X or Y, got {v!r}")
gone = 'Other-Var' if v == 'X' else 'othervar'
del os.environ[gone]
v2 = E(_reload=True).other_var
print('6. other_var after del ->', v2)
if v2 != ('Y' if v == 'X' else 'X'):
    fail(f'other_var: expected the surviving variable, got {v2!r}')
consistent()

print('PASS' if ok else 'FAIL')
sys.exit(0 if ok else 1)
