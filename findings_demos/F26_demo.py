"""F26: default engine, TimePattern / Annotated[<time subclass>, Pattern(...)] whose pattern contains '-' or '+':
a string that matches neither the pattern nor ISO-8601 must be rejected with a ParseError naming the pattern.
On the pinned tree the generated `pattern_to_dt` (models.py:199-206 and 222-229) falls off its end:
`TimePattern['%H-%M']` loads 'zzz' as None (no error), and a `time` subclass raises a bare
AttributeError ("'NoneType' object has no attribute 'hour'").  Patterns without '-'/'+' raise ParseError.

exit 0 = behaves correctly, exit 1 = defect present.
"""
import sys
from dataclasses import dataclass
from datetime import time
from typing import Annotated

from dataclass_wizard import fromdict, TimePattern, Pattern
from dataclass_wizard.errors import ParseError

ok = True


class MyTime(time):
    pass


def check(label, ann, s, pattern):
    global ok

    @dataclass
    class C:
        f: ann
    try:
        r = fromdict(C, {'f': s})
    except ParseError as e:
        if pattern in str(e):
            print(f'ok   {label}: {s!r} rejected with ParseError naming {pattern!r}')
        else:
            print(f'FAIL {label}: ParseError does not name the pattern: {e}')
            ok = False
    except BaseException as e:
        print(f'FAIL {label}: {s!r} raised {type(e).__name__}: {e}')
        ok = False
    else:
        print(f'FAIL {label}: {s!r} accepted, loaded as {r.f!r}')
        ok = False


check("TimePattern['%H-%M']", TimePattern['%H-%M'], 'zzz', '%H-%M')
check("TimePattern['%H+%M']", TimePattern['%H+%M'], '25+99', '%H+%M')
check("Annotated[MyTime, Pattern('%H-%M')]", Annotated[MyTime, Pattern('%H-%M')], 'zzz', '%H-%M')
check("control TimePattern['%H.%M']", TimePattern['%H.%M'], 'zzz', '%H.%M')

# valid inputs keep working (pattern first, then ISO)


@dataclass
class D:
    a: TimePattern['%H-%M']
    b: Annotated[MyTime, Pattern('%H-%M')]


d = fromdict(D, {'a': '15-45', 'b': '15:45:01'})
if d.a != time(15, 45) or d.b != MyTime(15, 45, 1) or type(d.b) is not MyTime:
    print(f'FAIL valid inputs: {d!r}')
    ok = False
else:
    print(f'ok   valid inputs: {d!r}')

sys.exit(0 if ok else 1)
