"""F20 (residual of F6): SkipIf values that pass `is_builtin` although their repr,
in-lined into the generated dump function, does not denote them.

  * IS(object()), EQ(int), EQ(len), EQ((Color.RED,)) -> SyntaxError at the first dump
  * EQ((nan,))                                        -> NameError when the test runs
  * IS(x) for x = 10**10 / 'hello world!' / (1, 2) / 1.5 held by the field itself:
    the generated `o.f is 10000000000` compares with a literal copy -> field kept
    although `x is x` (Condition.evaluate) says skip.

exit 0 = behaves correctly, exit 1 = defect present.
"""
import enum
import sys
import warnings
from dataclasses import dataclass
from typing import Annotated, Any

from dataclass_wizard import JSONWizard, SkipIf, EQ, NE, IS, IS_NOT

warnings.simplefilter('ignore', SyntaxWarning)
ok = True
_counter = 0


class Color(enum.Enum):
    RED = 1


def dump_with(cond, value):
    global _counter
    _counter += 1
    name = f'A{_counter}'          # unique class name: no per-qualname state is shared
    src = f"""
@dataclass
class {name}(JSONWizard):
    x: Annotated[Any, SkipIf(cond)] = None
"""
    ns = dict(globals(), cond=cond)
    exec(src, ns)
    return ns[name](value).to_dict()


def check(label, cond, value):
    global ok
    expected_skip = cond.evaluate(value)
    try:
        got = dump_with(cond, value)
    except BaseException as e:
        print(f'FAIL {label} x={value!r}: {type(e).__name__}: {e}')
        ok = False
        return
    if ('x' not in got) != expected_skip:
        print(f"FAIL {label} x={value!r}: skipped={'x' not in got}, Condition.evaluate says {expected_skip}")
        ok = False


o = object()
nan_t = (float('nan'),)
big, text, tup, flt = 10 ** 10, ''.join(['hello ', 'world!']), tuple([1, 2]), float('1.5')
for lbl, cond, vals in [
    ('IS(object())', IS(o), [o, object(), None]),
    ('EQ(int)', EQ(int), [int, str, 1]),
    ('NE(len)', NE(len), [len, abs]),
    ('EQ((Color.RED,))', EQ((Color.RED,)), [(Color.RED,), (1,)]),
    ('EQ((nan,))', EQ(nan_t), [nan_t, (float('nan'),), 1]),
    ('IS(10**10)', IS(big), [big, 10 ** 5 * 10 ** 5, 3]),
    ('IS_NOT(str)', IS_NOT(text), [text, 'hello ' + 'world!'[:], 'x']),
    ('IS(tuple)', IS(tup), [tup, tuple([1, 2])]),
    ('IS(float)', IS(flt), [flt, float('1.5')]),
    # controls that must keep working
    ('EQ(5)', EQ(5), [5, 5.0, True, 6, 'a']),
    ("EQ('it''s')", EQ("it's"), ["it's", 'its']),
    ('EQ((1, 2))', EQ((1, 2)), [(1, 2), (1, 3), [1, 2]]),
    ('IS(None)', IS(None), [None, 0, False]),
    ('IS_NOT(True)', IS_NOT(True), [True, 1, None]),
    ('EQ(-0.5)', EQ(-0.5), [-0.5, 0.5]),
]:
    for v in vals:
        check(lbl, cond, v)

print('F20:', 'OK' if ok else 'DEFECT PRESENT')
sys.exit(0 if ok else 1)
