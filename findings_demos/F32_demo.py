"""F32 demo: class_helper.dataclass_field_to_default registers `FIELD_TO_DEFAULT[cls] = {}`
before filling it, so a concurrent first use generates code from a half-filled dict.

No scheduler hook is needed: the fill loop calls `default_factory()` of the class, in which
thread A waits while the main thread makes its first dump.

exit 0: the dump equals the sequential one;  exit 1: default-valued fields are not skipped."""
import sys, threading
from dataclasses import dataclass, field
from dataclass_wizard import asdict, DumpMeta

in_fill, resume = threading.Event(), threading.Event()
state = {'n': 0}


def slow_list():
    state['n'] += 1
    if state['n'] == 2:              # 1st call: constructing the instance below; 2nd: the fill loop
        in_fill.set()
        resume.wait(10)
    return []


@dataclass
class D:
    a: int = 1
    b: list = field(default_factory=slow_list)
    c: int = 3


DumpMeta(skip_defaults=True).bind_to(D)
inst = D()
out = {}


def thread_a():
    try:
        out['a'] = asdict(inst)
    except BaseException as e:
        out['a'] = e


t = threading.Thread(target=thread_a)
t.start()
if not in_fill.wait(10):
    print('could not reach the fill loop (library changed?)'); sys.exit(2)
try:
    out['b'] = asdict(inst)          # sees FIELD_TO_DEFAULT[D] == {'a': 1}: `c` is not known to have a default
except BaseException as e:
    out['b'] = e
resume.set()
t.join()
print('A:', repr(out['a']))
print('B:', repr(out['b']))
ok = out['a'] == {} and out['b'] == {}
print('OK: sequential results' if ok else 'DEFECT: outcome of no sequential order (expected {} twice)')
sys.exit(0 if ok else 1)
