"""F35: v1 must load a numeric timestamp for a `datetime` field as an aware UTC datetime
(as the default engine and EnvWizard do, and as `as_datetime_v1` documents: "return a UTC
datetime"), independent of the machine's time zone.

exit 0 = behaves correctly, exit 1 = defect present.
"""
import os, sys, time
os.environ['TZ'] = 'America/New_York'
time.tzset()
from dataclasses import dataclass
from datetime import datetime, timezone
from typing import List, Optional
from dataclass_wizard import JSONWizard, fromdict, LoadMeta


@dataclass
class V0:
    dt: datetime
    dts: List[Optional[datetime]]


@dataclass
class V1:
    dt: datetime
    dts: List[Optional[datetime]]


LoadMeta(v1=True).bind_to(V1)
doc = {'dt': 0, 'dts': [None, 1651077045, 1.5]}
a, b = fromdict(V0, doc), fromdict(V1, doc)
want = datetime(1970, 1, 1, tzinfo=timezone.utc)
ok = True
for name, inst in (('default engine', a), ('v1', b)):
    good = inst.dt == want and inst.dt.tzinfo is not None and all(x is None or x.tzinfo is not None for x in inst.dts)
    print('%s %s: dt=%r dts=%r' % ('ok  ' if good else 'FAIL', name, inst.dt, inst.dts))
    ok = ok and good
sys.exit(0 if ok else 1)
