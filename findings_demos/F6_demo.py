"""F6: SkipIf conditions whose value can't be in-lined into generated code.

  * EQ(nan) / LT(inf) ...  -> NameError at dump (repr `nan` / `inf` in-lined)
  * EQ([1]) / EQ({}) ...   -> TypeError: unhashable type (inside `is_builtin`)

exit 0 = behaves correctly, exit 1 = defect present.
"""
import sys
from dataclasses import dataclass
from typing import Any

from dataclass_wizard import (JSONWizard, skip_if_field, SkipIf,
                              EQ, NE, LT, LE, GT, GE, IS, IS_NOT)

ok = True
nan, inf = float('nan'), float('inf')


_counter = 0


def dump_with(cond, value, meta_level=False):
    # every class gets a unique name, so that no per-class state cached by the
    # library under the class (qual)name is shared between the checks.
    global _counter
    _counter += 1
    name = f'A{_counter}'
    if meta_level:
        src = f"""
@dataclass
class {name}(JSONWizard):
    class _(JSONWizard.Meta):
        skip_if = cond
    x: Any = None
"""
    else:
        src = f"""
@dataclass
class {name}(JSONWizard):
    x: Any = skip_if_field(SkipIf(cond), default=None)
"""
    ns = dict(globals(), cond=cond)
    exec(src, ns)
    return ns[name](value).to_dict()


def check(label, cond, value, skipped):
    global ok
    for meta_level in (False, True):
        where = 'Meta.skip_if' if meta_level else 'skip_if_field'
        try:
            got = dump_with(cond, value, meta_level)
        except BaseException as e:
            print(f'FAIL {label} [{where}] x={value!r}: {type(e).__name__}: {e}')
            ok = False
            continue
        was_skipped = 'x' not in got
        if was_skipped != skipped:
            print(f'FAIL {label} [{where}] x={value!r}: skipped={was_skipped}, expected {skipped}')
            ok = False
        else:
            print(f'ok   {label} [{where}] x={value!r}: skipped={was_skipped}')


# non-finite floats -- plain Python comparison semantics
check('EQ(nan)', EQ(nan), nan, False)       # nan == nan is False
check('EQ(nan)', EQ(nan), 1.0, False)
check('NE(nan)', NE(nan), 1.0, True)
check('IS(nan)', IS(nan), nan, True)        # the very same object
check('EQ(inf)', EQ(inf), inf, True)
check('EQ(inf)', EQ(inf), 1.0, False)
check('EQ(-inf)', EQ(-inf), -inf, True)
check('LT(inf)', LT(inf), 1e300, True)
check('LT(inf)', LT(inf), inf, False)
check('GE(inf)', GE(inf), inf, True)
check('GT(-inf)', GT(-inf), 0, True)
check('LE(-inf)', LE(-inf), 0, False)

# un-hashable values
check('EQ([1])', EQ([1]), [1], True)
check('EQ([1])', EQ([1]), [2], False)
check('EQ([])', EQ([]), [], True)
check('EQ({})', EQ({}), {}, True)
check('EQ({})', EQ({}), {'a': 1}, False)
check('NE({})', NE({}), {'a': 1}, True)
check('EQ(set())', EQ(set()), set(), True)
check("EQ({'k': [nan]})", EQ({'k': [inf]}), {'k': [inf]}, True)
lst = [1]
check('IS(lst)', IS(lst), lst, True)
check('IS(lst)', IS(lst), [1], False)
check('IS_NOT(lst)', IS_NOT(lst), [1], True)
st = {1}
check('IS(st)', IS(st), st, True)
check('IS(st)', IS(st), {1}, False)
check('EQ(([1],))', EQ(([1],)), ([1],), True)   # hashable type, un-hashable value

# same root cause (`o in {None, True, False, ...}` goes by ==/hash): a non-builtin
# value that merely *equals* True/False was in-lined via its repr
from decimal import Decimal
check('EQ(Decimal(1))', EQ(Decimal(1)), Decimal(1), True)
check('EQ(Decimal(1))', EQ(Decimal(1)), Decimal(2), False)

# regression guard: values that have always worked
check('IS(None)', IS(None), None, True)
check('EQ(0)', EQ(0), 0, True)
check('EQ(1.5)', EQ(1.5), 1.5, True)
check("EQ('a')", EQ('a'), 'a', True)
check("EQ('a')", EQ('a'), 'b', False)
check('EQ((1, 2))', EQ((1, 2)), (1, 2), True)
check('IS(True)', IS(True), True, True)
check('IS(True)', IS(True), 1, False)

print('PASS' if ok else 'FAIL')
sys.exit(0 if ok else 1)
