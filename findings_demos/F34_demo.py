"""F34 demo: Env.reload() reads the cached class property Env.var_names BEFORE `environ` is
loaded, which caches an empty set; a concurrent EnvWizard() then misses a variable that is set.

No scheduler hook is needed: `os.environ` is wrapped so that its first `.copy()` (made by the
reloading thread, after it has cached the empty `var_names`) waits for the main thread.

exit 0: both instantiations see MY_VAR;  exit 1: MissingVars."""
import os, sys, threading

os.environ['MY_VAR'] = '42'
in_reload, resume = threading.Event(), threading.Event()
state = {'n': 0}
real_environ = os.environ


class SlowEnviron(dict):
    def copy(self):
        state['n'] += 1
        if state['n'] == 1:
            in_reload.set()
            resume.wait(10)
        return dict(self)


from dataclass_wizard import EnvWizard


class E(EnvWizard):
    my_var: int


os.environ = SlowEnviron(real_environ)
out = {}


def thread_a():
    try:
        out['a'] = E(_reload=True).my_var
    except BaseException as e:
        out['a'] = e


try:
    t = threading.Thread(target=thread_a)
    t.start()
    if not in_reload.wait(10):
        print('could not reach Env.reload (library changed?)'); sys.exit(2)
    try:
        out['b'] = E().my_var
    except BaseException as e:
        out['b'] = e
    resume.set()
    t.join()
finally:
    os.environ = real_environ
print('A:', repr(out['a']))
print('B:', repr(out['b']))
ok = out['a'] == 42 and out['b'] == 42
print('OK: sequential results' if ok else 'DEFECT: outcome of no sequential order')
sys.exit(0 if ok else 1)
