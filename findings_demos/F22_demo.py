"""Demo for F22-v1-generic-helper-name: exit 0 = behaves correctly, exit 1 = defect present.
Run: PYTHONPATH=<repo> python F22-v1-generic-helper-name_demo.py"""
import sys, traceback
from dataclasses import dataclass
from typing import *
from dataclass_wizard import fromdict, asdict, LoadMeta
ok = False
try:
    @dataclass
    class A:
        x: tuple[Literal['a'], Literal['b']]
    @dataclass
    class B:
        y: tuple[Union[int, str], Union[float, bool]]
    LoadMeta(v1=True).bind_to(A); LoadMeta(v1=True).bind_to(B)
    a = A(('a', 'b')); b = B((1, 2.5))
    r = fromdict(B, asdict(b))
    ok = fromdict(A, asdict(a)) == a and r == b and type(r.y[0]) is int
except Exception:
    traceback.print_exc()
    ok = False
print('F22-v1-generic-helper-name:', 'behaves correctly' if ok else 'DEFECT PRESENT')
sys.exit(0 if ok else 1)
