"""F14a: `wiz gen-schema <in> <out>` with an input that is not a JSON object/array document
must exit non-zero with a diagnostic AND leave a pre-existing output file byte-for-byte intact.
On the pinned tree argparse's FileType('w') opens (= truncates) the output while the
arguments are parsed, before the input has been read or validated.

Run with PYTHONPATH=<repo>.  exit 0 = behaves correctly, exit 1 = defect present.
"""
import os, subprocess, sys, tempfile

ok = True
d = tempfile.mkdtemp(prefix='f14a_')
for label, text in [('syntax error', '{"a": '), ('scalar root', '5'), ('generator raises', '{"": {}}')]:
    inp, out = os.path.join(d, 'in.json'), os.path.join(d, 'out.py')
    open(inp, 'w').write(text)
    open(out, 'w').write('# precious\nX = 1\n')
    p = subprocess.run([sys.executable, '-m', 'dataclass_wizard.wizard_cli.cli', 'gs', inp, out],
                       capture_output=True, text=True, stdin=subprocess.DEVNULL)
    after = open(out).read() if os.path.exists(out) else None
    good = p.returncode != 0 and p.stderr.strip() and after == '# precious\nX = 1\n'
    print('%-17s rc=%d diagnostic=%s output %s' % (label, p.returncode, bool(p.stderr.strip()),
                                                    'intact' if after == '# precious\nX = 1\n' else 'CHANGED to %r' % after))
    ok = ok and bool(good)
# a valid document still (over)writes the output
open(inp, 'w').write('{"a": 1}')
open(out, 'w').write('old')
p = subprocess.run([sys.executable, '-m', 'dataclass_wizard.wizard_cli.cli', 'gs', inp, out],
                   capture_output=True, text=True, stdin=subprocess.DEVNULL)
good = p.returncode == 0 and 'class Data(JSONWizard)' in open(out).read()
print('valid document    rc=%d output %s' % (p.returncode, 'written' if good else 'NOT written'))
ok = ok and good
sys.exit(0 if ok else 1)
