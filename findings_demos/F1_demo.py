"""F1: Meta.raise_on_unknown_json_key must raise on EVERY load, not just the first.

exit 0 = behaves correctly, exit 1 = defect present.
"""
import logging
import sys
from dataclasses import dataclass

from dataclass_wizard import JSONWizard
from dataclass_wizard.errors import UnknownJSONKey

logging.disable(logging.CRITICAL)


@dataclass
class A(JSONWizard):
    class _(JSONWizard.Meta):
        raise_on_unknown_json_key = True

    x: int


ok = True
for attempt in (1, 2, 3):
    try:
        r = A.from_dict({'x': 1, 'zzz': 2})
    except UnknownJSONKey as e:
        print(f'attempt {attempt}: raised {type(e).__name__} (json_key={e.unknown_keys!r})')
        if e.unknown_keys != 'zzz':
            ok = False
    else:
        print(f'attempt {attempt}: FAIL - returned {r!r} instead of raising')
        ok = False

# a document with only known keys must still load, before and after
try:
    assert A.from_dict({'x': 1}) == A(1)
    assert A.from_dict({'X': 1}) == A(1)
except Exception as e:  # pragma: no cover
    print('FAIL - known-key document:', repr(e))
    ok = False

print('PASS' if ok else 'FAIL')
sys.exit(0 if ok else 1)
