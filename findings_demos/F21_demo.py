"""F21: EnvWizard splices the environment variable name into the generated __init__ with bare
double quotes inside an f-string.  exit 0 = behaves correctly, exit 1 = defect present."""
import os, sys
NAMES = ['A"B', 'A\nB', 'A{B', 'A}B', 'A\\tB', 'A{0}B', "A'B", 'PLAIN']
for i, n in enumerate(NAMES):
    os.environ[n] = str(i + 1)
os.environ['PFX_' + 'A"B'] = '77'
from dataclass_wizard import EnvWizard, json_field

bad = 0
for i, n in enumerate(NAMES):
    try:
        E = type('E', (EnvWizard,), {'__annotations__': {'x': int}, 'x': json_field(n, all=True)})
        got = E().x
    except BaseException as e:  # noqa
        print('%r: %s: %s' % (n, type(e).__name__, str(e)[:60].replace('\n', ' ')))
        bad += 1
        continue
    if got != i + 1:
        print('%r: loaded %r, expected %r' % (n, got, i + 1))
        bad += 1
# with a prefix
try:
    E = type('E', (EnvWizard,), {'__annotations__': {'x': int}, 'x': json_field('A"B', all=True)})
    if E(_env_prefix='PFX_').x != 77:
        print('prefix: wrong value'); bad += 1
except BaseException as e:  # noqa
    print('prefix: %s' % type(e).__name__); bad += 1
print('DEFECT (%d cases)' % bad if bad else 'OK')
sys.exit(1 if bad else 0)
