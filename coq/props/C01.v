(* C01 — dump-then-load is the identity (default engine).
   Only statements closed by `exact`/short glue and Print Assumptions.
   Models: coq/model/CoreDump.v (dump), coq/model/CoreLoad.v (load); the domain of the
   statement: coq/model/CoreRT.v (rtd = conforming values of the supported grammar with the
   leaf laws and representation invariants spelled out). *)
From DW Require Import CoreRT T_CoreDumpHooks CoreRoundTrip CoreRTAny CoreRTLists StrConvProofs.
From Coq Require Import ZArith.

(* For EVERY stdlib behaviour `orc`, key transform / tag key (dc, lc), annotation t and value v of
   the round-trip domain: the model of asdict succeeds and the model of fromdict maps its result
   back to v - same value, same concrete types (pv equality is type-exact).
   rtd covers TypedDict (total / non-total, Required / NotRequired), tagged dataclasses inside Unions
   (explicit or auto-assigned tags, any member count, injective tag assignment) and containers at `Any`
   positions (exactly the values the dumper maps to themselves) - at every nesting position.
   `_partial`: not covered by rtd, hence not proved here (correspondence + direct predicates only):
   the text formats (json / PyYAML / tomllib are oracles), untyped namedtuple; bytes are outside the
   property (F4); negative timedelta is refuted below (F3). *)
Theorem C01_roundtrip_partial :
  forall orc dc lc t v, d_dt dc = DtIso -> rtd orc dc lc t v ->
  exists w, dump dump_hooks_v0 dc v = Ok w /\ load orc lc t w = Ok v.
Proof.
  intros orc dc lc t v Hiso Hr. destruct (rt_main orc dc lc Hiso t v Hr) as (w & Hd & Hl & _).
  exists w. split; assumption.
Qed.
Print Assumptions C01_roundtrip_partial.

(* ---- the three regions added to the domain, each stated on its own ------------------------------------

   (1) TypedDict.  For EVERY TypedDict declaration with distinct key names (required keys `req`, non-required
   keys `opt`: total=False / NotRequired), every choice opt' of the optional keys that are present, and values
   that are in the domain at their key's type (any type of the grammar, at any nesting): the dict dumps through
   dump_with_dict (keys untouched by the key transform, values by runtime type) and TypedDictParser loads it
   back: required keys read, optional keys read when present, nothing else. *)
Theorem C01_roundtrip_typeddict :
  forall orc dc lc tid req opt opt' kvs1 kvs2, d_dt dc = DtIso ->
  Forall2 (fun kt kv => fst kv = VStr (fst kt) /\ rtd orc dc lc (snd kt) (snd kv)) req kvs1 ->
  sublist opt' opt ->
  Forall2 (fun kt kv => fst kv = VStr (fst kt) /\ rtd orc dc lc (snd kt) (snd kv)) opt' kvs2 ->
  NoDup (map fst req ++ map fst opt) ->
  exists w, dump dump_hooks_v0 dc (VDict DDict false (kvs1 ++ kvs2)) = Ok w /\
            load orc lc (TTypedDict tid req opt) w = Ok (VDict DDict false (kvs1 ++ kvs2)).
Proof.
  intros orc dc lc tid req opt opt' kvs1 kvs2 Hiso H1 Hs H2 Hn.
  destruct (rt_main orc dc lc Hiso _ _ (RTD orc dc lc tid req opt opt' kvs1 kvs2 H1 Hs H2 Hn)) as (w & Hd & Hl & _).
  exists w. split; assumption.
Qed.
Print Assumptions C01_roundtrip_typeddict.

(* (2) Tagged dataclasses inside a Union.  For EVERY Union `ts` (any number of members) that is admissible -
   non-dataclass members pairwise distinguishable by wire type, no `dict[...]` member beside dataclass members,
   every dataclass member tagged and the tag assignment injective (union_ok) -, every dataclass member
   `TData c fts` of it and every instance whose FIELD VALUES are in the domain at their annotated types
   (so the field-level coercions of the class's own loader are included): the dumped dict carries the tag,
   no parser of the exact-type scan claims it, tag_to_parser[tag] is that class's loader, and the instance
   comes back.  This is the C13 dispatch statement composed with the C01 field-level round trip. *)
Theorem C01_roundtrip_tagged_union :
  forall orc dc lc ts c fts xs, d_dt dc = DtIso ->
  In (TData c fts) ts -> union_ok ts = true ->
  keys_ok dc lc c = true -> List.length (c_fields c) = List.length fts ->
  Forall2 (fun ft x => rtd orc dc lc (fst ft) x) fts xs ->
  exists w, dump dump_hooks_v0 dc (VInst c xs) = Ok w /\ load orc lc (TUnion ts) w = Ok (VInst c xs).
Proof.
  intros orc dc lc ts c fts xs Hiso Hin Hok Hk Hlen H2.
  assert (Hr : rtd orc dc lc (TUnion ts) (VInst c xs)).
  { eapply RUnion; [exact Hin | exact Hok | discriminate | apply RData; assumption]. }
  destruct (rt_main orc dc lc Hiso _ _ Hr) as (w & Hd & Hl & _). exists w. split; assumption.
Qed.
Print Assumptions C01_roundtrip_tagged_union.

(* a member of an admissible Union that is a dataclass IS tagged, and tags of different members differ *)
Theorem C01_union_ok_tagged :
  forall ts c fts, union_ok ts = true -> In (TData c fts) ts ->
  (exists tg, c_tag c = Some tg) /\ str_nodup (tags_of ts) = true /\ existsb is_wdict ts = false.
Proof.
  intros ts c fts Hok Hin. unfold union_ok in Hok. apply andb_true_iff in Hok as [Hok Hdm].
  apply andb_true_iff in Hok as [Hd _].
  assert (Hisd : existsb is_data ts = true) by (apply existsb_exists; exists (TData c fts); split; [assumption | reflexivity]).
  unfold data_members_ok in Hdm. rewrite Hisd in Hdm. cbn [negb orb] in Hdm. apply andb_true_iff in Hdm as [Hnw Hnd].
  apply negb_true_iff in Hnw.
  destruct (union_member_wire ts [] (TData c fts) Hd Hin) as [[k Hk]|(c' & fts' & tg & E & Htg)]; [discriminate | discriminate |].
  inversion E; subst. eauto.
Qed.
Print Assumptions C01_union_ok_tagged.

(* (3) Containers under Any.  The loader of an `Any` annotation is the identity, so the round trip at an Any
   position holds exactly when the dumper maps the runtime value to itself.  `anyv` is that set, proved in BOTH
   directions: JSON scalars, list, tuple, dict, OrderedDict (keys dumped like values), NamedTuple instances and
   int/str-mixin Enum members of such values at every nesting round-trip; every other well-formed runtime value
   (set / frozenset / deque -> list, defaultdict -> dict, plain Enum -> value, UUID / Decimal / Path / date /
   datetime / time / timedelta / bytes -> str, dataclass instance -> dict) does NOT come back.  Decision taken
   from the property text ("instances whose field values match their annotations", "same concrete value types",
   "payloads those formats can carry"): the property's domain at an Any position is what the wire can give back
   with the same types - json_any (what a JSON parser itself produces) for every text format, anyv for the
   dict-level fromdict(asdict(x)); a datetime / set / dataclass under Any is a conforming value the declared type
   carries no information to rebuild, and is outside the property (no finding). *)
Theorem C01_roundtrip_any_containers :
  forall orc dc lc v, anyv v = true ->
  exists w, dump dump_hooks_v0 dc v = Ok w /\ load orc lc TAny w = Ok v.
Proof. intros orc dc lc v H. exists v. split; [apply dump_any; exact H | reflexivity]. Qed.
Print Assumptions C01_roundtrip_any_containers.

Theorem C01_any_exact :
  forall orc dc lc v, wfv v = true ->
  ((exists w, dump dump_hooks_v0 dc v = Ok w /\ load orc lc TAny w = Ok v) <-> anyv v = true).
Proof.
  intros orc dc lc v Hw. split.
  - intros (w & Hd & Hl). cbn [load] in Hl. inversion Hl; subst. eapply dump_fix_any; eassumption.
  - intros H. exists v. split; [apply dump_any; exact H | reflexivity].
Qed.
Print Assumptions C01_any_exact.

Theorem C01_any_json : forall v, json_any v = true -> anyv v = true.
Proof. exact json_any_anyv. Qed.
Print Assumptions C01_any_json.

(* The domain is a set of conforming values: rtd only ADDS conditions to `conforms`. *)
Theorem C01_domain_conforms : forall orc dc lc t v, rtd orc dc lc t v -> conforms t v.
Proof. exact rtd_conforms. Qed.
Print Assumptions C01_domain_conforms.

(* Library-own leaf logic, proved (not assumed): the loader's replace('Z','+00:00',1) undoes the
   dumper's "trailing +00:00 -> Z" on every text without a 'Z' (isoformat() output). *)
Theorem C01_z_inverse :
  forall s, no_z s = true -> replace_first z_text utc_off (iso_z s) = s.
Proof. exact z_roundtrip. Qed.
Print Assumptions C01_z_inverse.

(* The class-level hypothesis keys_ok of rtd holds under NONE for any distinct identifiers ... *)
Theorem C01_keys_none :
  forall dc lc c, d_xf dc = XNone -> Forall (fun f => f_alias f = None) (c_fields c) -> c_tag c = None ->
  NoDup (map f_name (c_fields c)) -> keys_ok dc lc c = true.
Proof. exact keys_ok_none. Qed.
Print Assumptions C01_keys_none.

(* ... and under EVERY key transform for canonical snake_case names (words of two or more lower-case letters followed by digits). *)
Theorem C01_keys_canonical :
  forall dc lc c, Forall canonical_snake (map f_name (c_fields c)) ->
  Forall (fun f => f_alias f = None) (c_fields c) -> c_tag c = None ->
  NoDup (map f_name (c_fields c)) -> keys_ok dc lc c = true.
Proof. exact keys_ok_canonical. Qed.
Print Assumptions C01_keys_canonical.

(* F3: outside the leaf law. With the answers recorded from the implementation
   (str(timedelta(seconds=-1)) = '-1 day, 23:59:59'; pytimeparse reads it as -172799 s) the faithful
   model loses the value: a conforming instance does not come back. *)
Definition td_m1 : tok := mkTok KTimedelta (S "-1 day, 23:59:59") [] (-1000000).
Definition td_back : tok := mkTok KTimedelta (S "-2 days, 0:00:01") [] (-172799000000).
Definition f3_orc := tbl_orc [((S "td_parse", VStr (S "-1 day, 23:59:59")), Some (VTok td_back))].
Theorem C01_refuted_neg_timedelta :
  exists dc lc t v w v', conforms t v /\ wfv v = true /\ neg_timedelta (match v with VTok k => k | _ => td_back end) = true /\
    dump dump_hooks_v0 dc v = Ok w /\ load f3_orc lc t w = Ok v' /\ v' <> v.
Proof.
  exists (mkCfg XCamel DtIso (S "__tag__")), (mkL (S "__tag__")), (TTok KTimedelta), (VTok td_m1),
         (VStr (S "-1 day, 23:59:59")), (VTok td_back).
  split; [exact (CTok false td_m1)|]. repeat split; try reflexivity. discriminate.
Qed.
Print Assumptions C01_refuted_neg_timedelta.

(* Non-vacuity: a concrete class model and instance in the domain, with a toy stdlib. *)
Definition ex_d : tok := mkTok KDateTime (S "2020-01-01T00:00:00+00:00") [] 1577836800.
Definition ex_orc := tbl_orc [((S "datetime_iso", VStr (S "2020-01-01T00:00:00+00:00")), Some (VTok ex_d))].
Definition ex_inner := mkC 2 (S "Inner") [mkF (S "when_at") None] None.
Definition ex_outer := mkC 1 (S "Outer") [mkF (S "my_ids") None; mkF (S "sub_item") None; mkF (S "opt_val") None] None.
Definition ex_t : ty :=
  TData ex_outer [(TSeq SSet TInt, None); (TData ex_inner [(TTok KDateTime, None)], None); (TUnion [TStr; TNone; TSeq SList TInt], None)].
Definition ex_v : pv :=
  VInst ex_outer [VSeq SSet false [VInt 3; VInt 1]; VInst ex_inner [VTok ex_d]; VSeq SList false [VInt 7]].
Definition ex_dc := mkCfg XPascal DtIso (S "__tag__").
Definition ex_lc := mkL (S "__tag__").
Example C01_example_domain : rtd ex_orc ex_dc ex_lc ex_t ex_v.
Proof.
  apply RData; [reflexivity | reflexivity |].
  constructor; [|constructor; [|constructor; [|constructor]]]; cbn [fst].
  - apply RSeq; [reflexivity | repeat constructor | intros _; split; reflexivity].
  - apply RData; [reflexivity | reflexivity |]. constructor; [|constructor]. cbn [fst].
    exact (RTok ex_orc ex_dc ex_lc ex_d (conj eq_refl eq_refl)).
  - eapply RUnion with (t := TSeq SList TInt); [cbn; tauto | reflexivity | discriminate |].
    apply RSeq; [reflexivity | repeat constructor | discriminate].
Qed.
Example C01_example_dump :
  dump dump_hooks_v0 ex_dc ex_v =
  Ok (VDict DDict false
        [(VStr (S "MyIds"), VSeq SList false [VInt 3; VInt 1]);
         (VStr (S "SubItem"), VDict DDict false [(VStr (S "WhenAt"), VStr (S "2020-01-01T00:00:00Z"))]);
         (VStr (S "OptVal"), VSeq SList false [VInt 7])]).
Proof. reflexivity. Qed.

(* ---- non-vacuity of the three added regions ------------------------------------------------------ *)
(* (1) a non-total TypedDict with a nested list value, one optional key absent, inside a dataclass field *)
Definition ex_td : ty :=
  TTypedDict 7 [(S "name", TStr); (S "ids", TSeq SList TInt)] [(S "note", TOptional TStr); (S "rank", TInt)].
Definition ex_td_v : pv :=
  VDict DDict false ([(VStr (S "name"), VStr (S "n")); (VStr (S "ids"), VSeq SList false [VInt 1; VInt 2])] ++ [(VStr (S "rank"), VInt 3)]).
Example C01_example_typeddict : rtd ex_orc ex_dc ex_lc ex_td ex_td_v.
Proof.
  apply RTD with (opt' := [(S "rank", TInt)]).
  - constructor; [split; [reflexivity | constructor]|]. constructor; [|constructor].
    split; [reflexivity|]. apply RSeq; [reflexivity | repeat constructor | discriminate].
  - apply sub_drop. apply sub_keep. apply sub_nil.
  - constructor; [split; [reflexivity | constructor] | constructor].
  - cbn. repeat (constructor; [cbn; intuition discriminate|]). constructor.
Qed.
Example C01_example_typeddict_rt :
  bind (dump dump_hooks_v0 ex_dc ex_td_v) (load ex_orc ex_lc ex_td) = Ok ex_td_v.
Proof. reflexivity. Qed.

(* (2) Union[ClsA, int, ClsB, None] with tags; a ClsA instance whose field is a set *)
Definition ex_ca := mkC 11 (S "ClsA") [mkF (S "my_ids") None] (Some (S "A")).
Definition ex_cb := mkC 12 (S "ClsB") [mkF (S "txt") None] (Some (S "B")).
Definition ex_tu : list ty :=
  [TData ex_ca [(TSeq SSet TInt, None)]; TInt; TData ex_cb [(TStr, None)]; TNone].
Definition ex_tu_v : pv := VInst ex_ca [VSeq SSet false [VInt 3; VInt 1]].
Example C01_example_union_ok : union_ok ex_tu = true.
Proof. reflexivity. Qed.
Example C01_example_tagged_union : rtd ex_orc ex_dc ex_lc (TUnion ex_tu) ex_tu_v.
Proof.
  eapply RUnion with (t := TData ex_ca [(TSeq SSet TInt, None)]); [cbn; tauto | reflexivity | discriminate |].
  apply RData; [reflexivity | reflexivity |]. constructor; [|constructor]. cbn [fst].
  apply RSeq; [reflexivity | repeat constructor | intros _; split; reflexivity].
Qed.
Example C01_example_tagged_union_rt :
  bind (dump dump_hooks_v0 ex_dc ex_tu_v) (load ex_orc ex_lc (TUnion ex_tu)) = Ok ex_tu_v /\
  dump dump_hooks_v0 ex_dc ex_tu_v =
    Ok (VDict DDict false [(VStr (S "MyIds"), VSeq SList false [VInt 3; VInt 1]); (VStr (S "__tag__"), VStr (S "A"))]).
Proof. split; reflexivity. Qed.
(* outside union_ok: two members with one tag (the later class wins: the instance comes back as the wrong class) *)
Definition ex_cb' := mkC 12 (S "ClsB") [mkF (S "my_ids") None] (Some (S "A")).
Example C01_example_tag_collision :
  union_ok [TData ex_ca [(TSeq SSet TInt, None)]; TData ex_cb' [(TSeq SSet TInt, None)]] = false /\
  bind (dump dump_hooks_v0 ex_dc ex_tu_v)
       (load ex_orc ex_lc (TUnion [TData ex_ca [(TSeq SSet TInt, None)]; TData ex_cb' [(TSeq SSet TInt, None)]]))
  = Ok (VInst ex_cb' [VSeq SSet false [VInt 3; VInt 1]]).
Proof. split; reflexivity. Qed.

(* (3) nested containers under Any; what is outside *)
Definition ex_any_v : pv :=
  VDict DDict false [(VStr (S "k"), VSeq SList false [VInt 1; VNone; VDict DDict false [(VStr (S "z"), VFloat (S "0x1.8p+0"))]]);
                     (VStr (S "t"), VSeq STuple false [VBool true; VStr (S "x")])].
Example C01_example_any : anyv ex_any_v = true /\ rtd ex_orc ex_dc ex_lc TAny ex_any_v.
Proof. split; [reflexivity | apply RAny; reflexivity]. Qed.
Example C01_example_any_outside :
  anyv (VSeq SSet false [VInt 1]) = false /\ anyv (VTok ex_d) = false /\ anyv (VDict DDefault false []) = false /\
  json_any (VSeq STuple false [VInt 1]) = false /\
  bind (dump dump_hooks_v0 ex_dc (VSeq SSet false [VInt 1])) (load ex_orc ex_lc TAny) = Ok (VSeq SList false [VInt 1]).
Proof. repeat split; reflexivity. Qed.
