(* C01 — dump-then-load is the identity (default engine).
   Only statements closed by `exact`/short glue and Print Assumptions.
   Models: coq/model/CoreDump.v (dump), coq/model/CoreLoad.v (load); the domain of the
   statement: coq/model/CoreRT.v (rtd = conforming values of the supported grammar with the
   leaf laws and representation invariants spelled out). *)
From DW Require Import CoreRT T_CoreDumpHooks CoreRoundTrip StrConvProofs.
From Coq Require Import ZArith.

(* For EVERY stdlib behaviour `orc`, key transform / tag key (dc, lc), annotation t and value v of
   the round-trip domain: the model of asdict succeeds and the model of fromdict maps its result
   back to v - same value, same concrete types (pv equality is type-exact).
   `_partial`: not covered by rtd, hence not proved here (correspondence + direct predicates only):
   TypedDict, tagged dataclasses inside a Union, containers at `Any` positions, and the text
   formats; bytes are outside the property (F4); negative timedelta is refuted below (F3). *)
Theorem C01_roundtrip_partial :
  forall orc dc lc t v, d_dt dc = DtIso -> rtd orc dc lc t v ->
  exists w, dump dump_hooks_v0 dc v = Ok w /\ load orc lc t w = Ok v.
Proof.
  intros orc dc lc t v Hiso Hr. destruct (rt_main orc dc lc Hiso t v Hr) as (w & Hd & Hl & _).
  exists w. split; assumption.
Qed.
Print Assumptions C01_roundtrip_partial.

(* The domain is a set of conforming values: rtd only ADDS conditions to `conforms`. *)
Theorem C01_domain_conforms : forall orc dc lc t v, rtd orc dc lc t v -> conforms t v.
Proof. exact rtd_conforms. Qed.
Print Assumptions C01_domain_conforms.

(* Library-own leaf logic, proved (not assumed): the loader's replace('Z','+00:00',1) undoes the
   dumper's "trailing +00:00 -> Z" on every text without a 'Z' (isoformat() output). *)
Theorem C01_z_inverse :
  forall s, no_z s = true -> replace_first z_text utc_off (iso_z s) = s.
Proof. exact z_roundtrip. Qed.
Print Assumptions C01_z_inverse.

(* The class-level hypothesis keys_ok of rtd holds under NONE for any distinct identifiers ... *)
Theorem C01_keys_none :
  forall dc lc c, d_xf dc = XNone -> Forall (fun f => f_alias f = None) (c_fields c) -> c_tag c = None ->
  NoDup (map f_name (c_fields c)) -> keys_ok dc lc c = true.
Proof. exact keys_ok_none. Qed.
Print Assumptions C01_keys_none.

(* ... and under EVERY key transform for canonical snake_case names (words of two or more lower-case letters followed by digits). *)
Theorem C01_keys_canonical :
  forall dc lc c, Forall canonical_snake (map f_name (c_fields c)) ->
  Forall (fun f => f_alias f = None) (c_fields c) -> c_tag c = None ->
  NoDup (map f_name (c_fields c)) -> keys_ok dc lc c = true.
Proof. exact keys_ok_canonical. Qed.
Print Assumptions C01_keys_canonical.

(* F3: outside the leaf law. With the answers recorded from the implementation
   (str(timedelta(seconds=-1)) = '-1 day, 23:59:59'; pytimeparse reads it as -172799 s) the faithful
   model loses the value: a conforming instance does not come back. *)
Definition td_m1 : tok := mkTok KTimedelta (S "-1 day, 23:59:59") [] (-1000000).
Definition td_back : tok := mkTok KTimedelta (S "-2 days, 0:00:01") [] (-172799000000).
Definition f3_orc := tbl_orc [((S "td_parse", VStr (S "-1 day, 23:59:59")), Some (VTok td_back))].
Theorem C01_refuted_neg_timedelta :
  exists dc lc t v w v', conforms t v /\ wfv v = true /\ neg_timedelta (match v with VTok k => k | _ => td_back end) = true /\
    dump dump_hooks_v0 dc v = Ok w /\ load f3_orc lc t w = Ok v' /\ v' <> v.
Proof.
  exists (mkCfg XCamel DtIso (S "__tag__")), (mkL (S "__tag__")), (TTok KTimedelta), (VTok td_m1),
         (VStr (S "-1 day, 23:59:59")), (VTok td_back).
  split; [exact (CTok false td_m1)|]. repeat split; try reflexivity. discriminate.
Qed.
Print Assumptions C01_refuted_neg_timedelta.

(* Non-vacuity: a concrete class model and instance in the domain, with a toy stdlib. *)
Definition ex_d : tok := mkTok KDateTime (S "2020-01-01T00:00:00+00:00") [] 1577836800.
Definition ex_orc := tbl_orc [((S "datetime_iso", VStr (S "2020-01-01T00:00:00+00:00")), Some (VTok ex_d))].
Definition ex_inner := mkC 2 (S "Inner") [mkF (S "when_at") None] None.
Definition ex_outer := mkC 1 (S "Outer") [mkF (S "my_ids") None; mkF (S "sub_item") None; mkF (S "opt_val") None] None.
Definition ex_t : ty :=
  TData ex_outer [(TSeq SSet TInt, None); (TData ex_inner [(TTok KDateTime, None)], None); (TUnion [TStr; TNone; TSeq SList TInt], None)].
Definition ex_v : pv :=
  VInst ex_outer [VSeq SSet false [VInt 3; VInt 1]; VInst ex_inner [VTok ex_d]; VSeq SList false [VInt 7]].
Definition ex_dc := mkCfg XPascal DtIso (S "__tag__").
Definition ex_lc := mkL (S "__tag__").
Example C01_example_domain : rtd ex_orc ex_dc ex_lc ex_t ex_v.
Proof.
  apply RData; [reflexivity | reflexivity |].
  constructor; [|constructor; [|constructor; [|constructor]]]; cbn [fst].
  - apply RSeq; [reflexivity | repeat constructor | intros _; split; reflexivity].
  - apply RData; [reflexivity | reflexivity |]. constructor; [|constructor]. cbn [fst].
    exact (RTok ex_orc ex_dc ex_lc ex_d (conj eq_refl eq_refl)).
  - eapply RUnion with (t := TSeq SList TInt); [cbn; tauto | reflexivity | discriminate |].
    apply RSeq; [reflexivity | repeat constructor | discriminate].
Qed.
Example C01_example_dump :
  dump dump_hooks_v0 ex_dc ex_v =
  Ok (VDict DDict false
        [(VStr (S "MyIds"), VSeq SList false [VInt 3; VInt 1]);
         (VStr (S "SubItem"), VDict DDict false [(VStr (S "WhenAt"), VStr (S "2020-01-01T00:00:00Z"))]);
         (VStr (S "OptVal"), VSeq SList false [VInt 7])]).
Proof. reflexivity. Qed.
