(* C16 — field properties get their declared default through the setter, in every
   style.  Only statements closed by `exact` / short glue and Print Assumptions.
   Model: coq/model/PropWiz.v (property_wizard.py + the part of dataclasses it relies
   on), matrix tables: coq/model/PropWizMatrix.v.

   History: finding F25 (property_wizard.py:162 `fval.default = v` kept an
   annotation-derived default_factory, so `x: List[int] = None` + property `_x` routed a
   fresh [] through the setter) was repaired in /repo (commit f33a064); the model is the
   repaired behaviour and the theorems below carry no region hypothesis.  The matrix
   cells of that shape (UnderPub x {KValue, KValueNone} x annotations implying a fresh
   product) are part of C16_matrix, so reverting the repair breaks the correspondence
   AND the direct predicate on concrete inputs. *)
From DW Require Import PyStr PropWiz PropWizMatrix PropWizDict PropWizExec PropWizPass PropWizMany PropWizFinal.
From DW Require Import PropWizObj T_PropWizDefaultsAlg PropWizDefaults.
From Coq Require Import Permutation.

(* ---- the finite matrix: 4 styles x 10 default kinds x 47 annotation kinds ---------------- *)
(* In every cell the single-property class has the constructor signature
   (wheels = <property>), the property object is wrapped and stored under the public name
   only, constructing without the argument routes the declared default (fresh per
   instance for factories) through the setter, constructing with a value and assigning
   later route that value. *)
Theorem C16_matrix :
  forall c, In c (list_prod styles (list_prod dkinds ann_table)) -> cell_ok c = true.
Proof. exact matrix_cells. Qed.
Print Assumptions C16_matrix.

Theorem C16_matrix_size : List.length (list_prod styles (list_prod dkinds ann_table)) = 1880.
Proof. vm_compute; reflexivity. Qed.
Print Assumptions C16_matrix_size.

(* The "both annotated" variant of docs/using_field_properties.rst (public field carrying the
   default + `_wheels: int = field(init=False)` "to make the IDE happier", in either order, the
   underscored line bare / empty Field / carrying a default, a value or a factory): the
   default declared on the underscored line wins when there is one, else the one carried by
   Annotated on the public field or implied by ITS type - never the `int` of the helper line. *)
Theorem C16_matrix_both :
  forall c, In c (list_prod [true; false] (list_prod ukinds (list_prod pub_kinds ann_table))) -> cell2_ok c = true.
Proof. exact matrix_both_cells. Qed.
Print Assumptions C16_matrix_both.

(* ---- declaration lists of any length ------------------------------------------------------ *)
(* Constructor signature = public names in declaration order (field properties with the
   property object as default, plain fields with their own default), for both layouts. *)
Theorem C16_signature :
  forall ds b, names_ok ds -> Layout ds b -> fields_ordered ds ->
  dataclass_fields (make_class b) = Ok (flat_map spec_field ds).
Proof. intros ds b Hok. exact (fields_closed_form ds Hok b). Qed.
Print Assumptions C16_signature.

(* For ALL declaration lists with distinct public names (field properties in the four
   styles, plain fields, read-only and ordinary properties), both layouts, ALL argument
   subsets and every allocation counter: setter log, instance (getter values) and
   allocation are those of the per-declaration specification `spec_init`, whose default
   for a field property is `eff_default`: the class-level value / Field when field and
   property have different names, the default carried by Annotated or implied by the
   type otherwise. *)
Theorem C16_many :
  forall ds b args next,
  names_ok ds -> Layout ds b -> fields_ordered ds -> args_known ds args -> args_plain args ->
  construct (make_class b) args next =
  spec_init eff_default ds args {| log := []; inst := []; nxt := next |}.
Proof. intros ds b args next Hok. exact (construct_closed_form ds Hok b args next). Qed.
Print Assumptions C16_many.

(* the same, spelled out for the layout "all fields first, then all properties" *)
Theorem C16_many_fields_first :
  forall ds args next,
  names_ok ds -> fields_ordered ds -> args_known ds args -> args_plain args ->
  construct (make_class (flat_map field_stmts ds ++ flat_map prop_stmts ds)) args next =
  spec_init eff_default ds args {| log := []; inst := []; nxt := next |}.
Proof.
  intros ds args next Hok. exact (construct_closed_form ds Hok _ args next (or_intror eq_refl)).
Qed.
Print Assumptions C16_many_fields_first.

(* a class satisfying all the hypotheses: required plain field, the four styles, a
   factory, a read-only and an ordinary property; two arguments supplied *)
Definition ex_ds : list decl :=
  [ DPlain (S "vin") (TConc CStr) None;
    DProp PubUnder (S "wheels") (TUnion [TConc CInt; TConc CStr]) (Some (RVal (VInt 4)));
    DProp PubPub (S "doors") (TAnnot (TConc CInt) [EField (fd_def (VInt 2))]) (Some (RVal VNone));
    DReadOnly (S "count");
    DProp UnderPub (S "tags") (TGen (GConc CList) false) (Some (RField (fd_fac (FacUser 1))));
    DProp UnderUnder (S "owner") (TUnion [TConc CStr; TNoneType]) None;
    DOrdinary (S "note");
    DPlain (S "extra") (TGen (GConc CDict) true) (Some (RField (fd_fac (FacConc CDict)))) ].
Definition ex_args : dict value := [(S "vin", VStr (S "X1")); (S "doors", VInt 5)].

Example C16_many_hypotheses_hold :
  names_ok ex_ds /\ Layout ex_ds (body_fields_first ex_ds) /\ fields_ordered ex_ds /\
  args_known ex_ds ex_args /\ args_plain ex_args /\
  spec_init eff_default ex_ds ex_args {| log := []; inst := []; nxt := 0 |} =
  Ok {| log := [(S "wheels", VInt 4); (S "doors", VInt 5); (S "tags", VNew (FacUser 1) 0); (S "owner", VNone)];
        inst := [(S "vin", VStr (S "X1")); (S "_wheels", VInt 4); (S "_doors", VInt 5);
                 (S "_tags", VNew (FacUser 1) 0); (S "_owner", VNone); (S "extra", VNew (FacConc CDict) 1)];
        nxt := 2 |}.
Proof.
  repeat split.
  - repeat constructor; cbn; intuition discriminate.
  - repeat constructor.
  - now right.
  - repeat constructor.
  - repeat constructor.
Qed.

(* the declaration that used to be mishandled (F25): the declared plain default wins *)
Example C16_plain_default_wins :
  let d := DProp UnderPub (S "wheels") (TGen (GConc CList) false) (Some (RVal VNone)) in
  construct (make_class (body_blocks [d])) [] 0 =
  Ok {| log := [(S "wheels", VNone)]; inst := [(S "_wheels", VNone)]; nxt := 0 |}.
Proof. reflexivity. Qed.

(* ---- assignment after construction ----------------------------------------------------------- *)
Theorem C16_assign :
  forall ds b sty x t rh r v,
  names_ok ds -> Layout ds b -> In (DProp sty x t rh) ds -> is_prop v = false ->
  set_attr (attrs (make_class b)) r x v =
  Ok {| log := log r ++ [(x, v)]; inst := dset (under_of x) v (inst r); nxt := nxt r |}.
Proof. intros ds b sty x t rh r v Hok. exact (assign_closed ds Hok b sty x t rh r v). Qed.
Print Assumptions C16_assign.

(* ---- default_factory products are fresh per instance ------------------------------------------ *)
(* Two constructions in a row (the second starts where the first stopped allocating), the
   argument omitted both times: the setter receives two products with different identities,
   each allocated during its own construction. *)
Theorem C16_factory_fresh :
  forall ds b args1 args2 n0 r1 r2 sty x t rh f,
  names_ok ds -> Layout ds b -> fields_ordered ds ->
  args_known ds args1 -> args_plain args1 -> args_known ds args2 -> args_plain args2 ->
  In (DProp sty x t rh) ds -> is_classvar t = false ->
  dget x args1 = None -> dget x args2 = None ->
  fd_factory (eff_default sty t rh) = Some f -> allocating f = true ->
  construct (make_class b) args1 n0 = Ok r1 ->
  construct (make_class b) args2 (nxt r1) = Ok r2 ->
  exists i1 i2, In (x, VNew f i1) (log r1) /\ In (x, VNew f i2) (log r2) /\
                (n0 <= i1 < nxt r1)%N /\ (nxt r1 <= i2 < nxt r2)%N.
Proof.
  intros ds b args1 args2 n0 r1 r2 sty x t rh f Hok L Ho K1 P1 K2 P2 Hin Hcv A1 A2 Hf Hal C1 C2.
  rewrite (construct_closed_form ds Hok b _ _ L Ho K1 P1) in C1.
  rewrite (construct_closed_form ds Hok b _ _ L Ho K2 P2) in C2.
  destruct (spec_init_alloc eff_default args1 ds sty x t rh f _ _ C1 Hin Hcv A1 Hf Hal) as (i1 & B1 & L1).
  destruct (spec_init_alloc eff_default args2 ds sty x t rh f _ _ C2 Hin Hcv A2 Hf Hal) as (i2 & B2 & L2).
  exists i1, i2. cbn in B1, B2. auto.
Qed.
Print Assumptions C16_factory_fresh.

Example C16_factory_fresh_instance :
  In (DProp UnderPub (S "tags") (TGen (GConc CList) false) (Some (RField (fd_fac (FacUser 1))))) ex_ds /\
  fd_factory (eff_default UnderPub (TGen (GConc CList) false) (Some (RField (fd_fac (FacUser 1))))) = Some (FacUser 1) /\
  allocating (FacUser 1) = true /\ dget (S "tags") ex_args = None.
Proof. repeat split. cbn. tauto. Qed.

(* ---- read-only and ordinary properties are left untouched --------------------------------------- *)
Theorem C16_readonly_untouched :
  forall ds b d, names_ok ds -> Layout ds b -> In d ds ->
  match d with
  | DReadOnly x => dget x (attrs (make_class b)) = Some (CProp false None)
  | DOrdinary x => dget x (attrs (make_class b)) = Some (CProp true None)
  | _ => True
  end.
Proof. intros ds b d Hok. exact (untouched_closed ds Hok b d). Qed.
Print Assumptions C16_readonly_untouched.


(* ==== the zero-value derivation (property_wizard.py:182-302), tied to the SOURCE TEXT ================= *)
(* gen/T_PropWizDefaultsAlg.v is printed on every run by harness/tables/PropWizDefaultsAlg.py from the
   current source of _process_field, _default_from_annotation, _default_from_type,
   _default_from_generic_type and _default_from_typing_args: same order of tests, same caught exception
   per `try`, same callee and argument per call, every library operation a primitive of
   model/PropWizObj.v.  Closed with `dfa` for the recursive calls, the translated function IS `dfa`, for
   ALL annotations of the grammar - so everything proved about `dfa` (the matrix, C16_many, the
   theorems below) is about the decision structure the source spells out NOW; an edit of that structure
   (an `isinstance` turned into a type test, a reordered branch, a cached helper with another argument,
   a different fallback) either fails the translator or this proof. *)
Theorem C16_defaults_source_tie :
  forall t, default_from_annotation_src dfa_obj (OT t) = dfa t.
Proof. exact defaults_source_tie. Qed.
Print Assumptions C16_defaults_source_tie.

(* ... and `dfa` is the ONLY function satisfying the source's recursion equation *)
Theorem C16_defaults_source_unique :
  forall f : ty -> fdef,
  (forall t, f t = default_from_annotation_src (lift_obj f) (OT t)) -> forall t, f t = dfa t.
Proof. exact defaults_source_unique. Qed.
Print Assumptions C16_defaults_source_unique.

Theorem C16_process_field_source_tie :
  forall fd t, process_field_src dfa_obj (OT t) (OFd fd) = process_field fd (Some t).
Proof. exact process_field_source_tie. Qed.
Print Assumptions C16_process_field_source_tie.

(* the translated text, on a nested annotation: Annotated[Optional[...]] without a Field falls to the
   Union, whose None member wins; with a Field that has no default it falls to the inner type *)
Example C16_defaults_source_example :
  default_from_annotation_src dfa_obj
    (OT (TRef (Some (TAnnot (TUnion [TConc CMyList; TConc CInt]) [EOther; EField fd_empty; EField (fd_def (VInt 3))]))))
  = fd_fac (FacConc CMyList).
Proof. reflexivity. Qed.

(* ---- what the derived default IS, for ALL annotations ------------------------------------------------ *)
(* `implied` (model/PropWizObj.v) is the specification transcribed from the property text; `routed_of`
   is what _wrapper sends to the setter for a Field (fresh product / the value / None). *)
Theorem C16_defaults_spec : forall t, routed_of (dfa t) = implied t.
Proof. exact dfa_meets_implied. Qed.
Print Assumptions C16_defaults_spec.

(* (i) None iff NoneType is a member - at ANY position; otherwise the zero value of the FIRST member *)
Theorem C16_defaults_union_none :
  forall args, In TNoneType args -> routed_of (dfa (TUnion args)) = RValue VNone.
Proof. exact union_with_none. Qed.
Print Assumptions C16_defaults_union_none.

Theorem C16_defaults_union_first :
  forall a rest, ~ In TNoneType (a :: rest) -> routed_of (dfa (TUnion (a :: rest))) = member_routed a.
Proof. exact union_without_none. Qed.
Print Assumptions C16_defaults_union_first.

Theorem C16_defaults_union_none_iff :
  forall a rest, member_routed a <> RValue VNone ->
  (routed_of (dfa (TUnion (a :: rest))) = RValue VNone <-> In TNoneType (a :: rest)).
Proof. exact union_none_iff. Qed.
Print Assumptions C16_defaults_union_none_iff.

Theorem C16_defaults_union_none_any_order :
  forall args args', Permutation args args' -> In TNoneType args ->
  routed_of (dfa (TUnion args)) = routed_of (dfa (TUnion args')).
Proof. exact union_none_any_order. Qed.
Print Assumptions C16_defaults_union_none_any_order.

Theorem C16_defaults_literal_first : forall v vs, routed_of (dfa (TLiteral (v :: vs))) = RValue v.
Proof. exact literal_first. Qed.
Print Assumptions C16_defaults_literal_first.

Theorem C16_defaults_generic_origin : forall c i, routed_of (dfa (TGen (GConc c) i)) = zero_routed c.
Proof. exact generic_origin. Qed.
Print Assumptions C16_defaults_generic_origin.

(* (ii) a default_factory (fresh product per instance) exactly when the zero value is an instance of
   list / dict / set OR OF A SUBCLASS (OrderedDict, defaultdict, Counter, user subclasses of list / set);
   every other zero value (deque and user objects included) is ONE object made at class creation.
   Stated for annotations that carry no dataclasses.Field of their own. *)
Theorem C16_defaults_factory_iff_collection :
  forall t f, no_field_extra t = true ->
  (routed_of (dfa t) = RFresh f <->
   exists c, zero_class t = Some c /\ is_lds_base (conc_base c) = true /\ f = FacConc c).
Proof. exact factory_iff_collection. Qed.
Print Assumptions C16_defaults_factory_iff_collection.

Example C16_defaults_factory_subclasses :
  routed_of (dfa (TUnion [TGen (GConc CCounter) true; TConc CInt])) = RFresh (FacConc CCounter) /\
  routed_of (dfa (TAnnot (TRef (Some (TConc CMySet))) [EOther])) = RFresh (FacConc CMySet) /\
  routed_of (dfa (TConc CDeque)) = RValue (VZero CDeque) /\
  routed_of (dfa (TUnion [TConc CMyList; TNoneType])) = RValue VNone.
Proof. repeat split. Qed.

(* (iii) the default depends on the ORDER of the members, which Python's == on typing objects ignores
   (Union[int, str] == Union[str, int], Literal[1, 2] == Literal[2, 1]): two == annotations have
   different defaults, so a table keyed by the annotation object must not be shared between fields.
   In the model the derivation is a function of the annotation alone (no state), and by
   C16_many every field property of a class gets the default of ITS OWN declaration. *)
Theorem C16_defaults_union_order_matters :
  forall a b rest, ~ In TNoneType (a :: b :: rest) -> member_routed a <> member_routed b ->
  Permutation (a :: b :: rest) (b :: a :: rest) /\
  routed_of (dfa (TUnion (a :: b :: rest))) <> routed_of (dfa (TUnion (b :: a :: rest))).
Proof. exact union_order_matters. Qed.
Print Assumptions C16_defaults_union_order_matters.

Theorem C16_defaults_literal_order_matters :
  forall v w vs, v <> w ->
  Permutation (v :: w :: vs) (w :: v :: vs) /\
  routed_of (dfa (TLiteral (v :: w :: vs))) <> routed_of (dfa (TLiteral (w :: v :: vs))).
Proof. exact literal_order_matters. Qed.
Print Assumptions C16_defaults_literal_order_matters.

(* one class, two field properties whose annotations are == in Python: each gets its own default *)
Example C16_defaults_own_default_per_field :
  construct (make_class (body_blocks
     [ DProp PubPub (S "a") (TUnion [TConc CInt; TConc CStr]) None;
       DProp PubPub (S "b") (TUnion [TConc CStr; TConc CInt]) None;
       DProp UnderUnder (S "c") (TLiteral [VInt 1; VInt 2]) None;
       DProp UnderUnder (S "d") (TLiteral [VInt 2; VInt 1]) None ])) [] 0 =
  Ok {| log := [(S "a", VInt 0); (S "b", VStr []); (S "c", VInt 1); (S "d", VInt 2)];
        inst := [(S "_a", VInt 0); (S "_b", VStr []); (S "_c", VInt 1); (S "_d", VInt 2)]; nxt := 0 |}.
Proof. reflexivity. Qed.
