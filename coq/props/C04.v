(* C04 — loading applies the documented coercions, and only those.
   Statements only (closed by `exact` / short glue) + Print Assumptions.
   Model: CoerceModel.v (code-shaped, three engines).  Reference: CoerceRef.v
   ([doc_scalar], [lift]: transcription of the documentation).  The standard-library
   functions the library only calls are the universally quantified record [O : oracles]. *)
From DW Require Import PyStr T_Truthy CoerceModel CoerceRef CoerceProofs.
From Coq Require Import Lia.

(* Tie T: the truthy set regenerated from type_conv.TRUTHY_VALUES is the documented one
   (TRUE, T, YES, Y, ON, 1; compared case-folded). *)
Theorem C04_truthy_is_documented :
  truthy_values = [S "1"; S "on"; S "t"; S "true"; S "y"; S "yes"] /\
  forall w, mem_str w (map lower truthy_doc) = mem_str w truthy_values.
Proof. split; [reflexivity|exact truthy_is_documented]. Qed.
Print Assumptions C04_truthy_is_documented.

(* as_bool (default engine, Env) on every input: bools unchanged, strings by the
   case-insensitive documented set (stated with upper-casing, the code lower-cases),
   numbers by == 1, everything else False. *)
Theorem C04_bool :
  forall j, as_bool j =
    match j with
    | JBool b => b
    | JStr s => doc_truthy s
    | JInt z => Z.eqb z 1
    | JFloat f => fl_eq_Z f 1
    | _ => false
    end.
Proof. exact as_bool_doc. Qed.
Print Assumptions C04_bool.

(* the v1 code template computes the same function *)
Theorem C04_bool_v1 : forall j, load_bool_v1 j = as_bool j.
Proof. exact load_bool_v1_doc. Qed.
Print Assumptions C04_bool_v1.

(* round() of the model is "nearest integer, ties to even" on every exact dyadic, and that
   specification determines the result *)
Theorem C04_round_half_even : forall m e n, fl_round (FDy m e) = Ok n -> rounds_to (FDy m e) n.
Proof. exact fl_round_sound. Qed.
Print Assumptions C04_round_half_even.
Example C04_round_example : fl_round (FDy 5 (-1)) = Ok 2%Z /\ fl_round (FDy 7 (-1)) = Ok 4%Z /\ fl_round (FDy (-1) (-1)) = Ok 0%Z.
Proof. repeat split. Qed.

Theorem C04_round_unique : forall f n n', rounds_to f n -> rounds_to f n' -> n = n'.
Proof. exact rounds_to_unique. Qed.
Print Assumptions C04_round_unique.
Example C04_rounds_to_example : rounds_to (FDy 5 (-1)) 2 /\ ~ rounds_to (FDy 5 (-1)) 3.
Proof. split; cbn; unfold fl_num, fl_den; cbn; [split; [lia|reflexivity]|intros [_ H]; specialize (H eq_refl); discriminate]. Qed.

(* an integer string (accepted by int()) is non-empty and has no decimal point, so the
   float-string branch and the integer-string branch of as_int never overlap *)
Theorem C04_int_of_str_shape :
  forall s z, py_int_of_str s = Ok z -> s <> [] /\ contains_char c_dot s = false.
Proof. exact int_of_str_shape. Qed.
Print Assumptions C04_int_of_str_shape.
Example C04_int_of_str_example : py_int_of_str (S " -1_000 ") = Ok (-1000)%Z /\ py_int_of_str (S "1__0") = Err EValue.
Proof. split; reflexivity. Qed.

(* THE scalar theorem: whatever the documentation says about (engine, scalar type, value),
   the model does — for all three engines. *)
Theorem C04_scalar_ref :
  forall O e s j r, doc_scalar O e s j r -> load_scalar O e s j = r.
Proof. exact scalar_ref. Qed.
Print Assumptions C04_scalar_ref.
Example C04_scalar_ref_example O :
  doc_scalar O V0 SInt (JFloat (FDy 5 (-1))) (Ok (VInt 2)) /\
  doc_scalar O V1 SInt (JFloat (FDy 5 (-1))) (Err EValue) /\
  doc_scalar O Env SBool (JStr (S "oN")) (Ok (VBool true)).
Proof.
  repeat split.
  - apply d_int_float_round; [reflexivity|]. cbn. split; [lia|reflexivity].
  - apply d_int_float_fractional. cbn. unfold fl_num, fl_den. cbn. intro n. lia.
  - exact (d_bool_str O Env (S "oN")).
Qed.

(* int, default engine and Env: ''/None -> 0, bool rejected, floats and float strings rounded
   half-even, integer strings *)
Theorem C04_int_v0 :
  forall O e j r, is_v1 e = false -> doc_scalar O e SInt j r ->
  rmap VInt (as_int O j) = r.
Proof.
  intros O e j r He H. rewrite <- (scalar_ref O e SInt j r) by assumption.
  destruct e; try discriminate; reflexivity.
Qed.
Print Assumptions C04_int_v0.

(* int, v1: fractional floats and float strings rejected, None not coerced *)
Theorem C04_int_v1 :
  forall O j r, doc_scalar O V1 SInt j r -> rmap VInt (load_int_v1 O j) = r.
Proof.
  intros O j r H. rewrite <- (scalar_ref O V1 SInt j r) by assumption. reflexivity.
Qed.
Print Assumptions C04_int_v1.

Theorem C04_str :
  forall O e j r, doc_scalar O e SStr j r -> rmap VStr (as_str O j) = r.
Proof.
  intros O e j r H. rewrite <- (scalar_ref O e SStr j r) by assumption. reflexivity.
Qed.
Print Assumptions C04_str.

(* the code's replace('Z', '+00:00', 1) is the documented suffix rewrite whenever the only Z
   of the string is its last character, and the identity when there is none *)
Theorem C04_datetime_z_suffix :
  (forall s', no_Z s' = true -> z_rewrite (s' ++ S "Z") = s' ++ S "+00:00") /\
  (forall s, no_Z s = true -> z_rewrite s = s).
Proof. split; [exact z_rewrite_suffix|exact z_rewrite_noZ]. Qed.
Print Assumptions C04_datetime_z_suffix.
Example C04_datetime_z_example : z_rewrite (S "2020-01-02T03:04:05Z") = S "2020-01-02T03:04:05+00:00".
Proof. reflexivity. Qed.

(* every engine: a number at a datetime position goes to fromtimestamp(x, tz=utc);
   bool is not a number for the default engine and Env *)
Theorem C04_datetime_numeric_utc :
  forall O e j x, as_number j = Some x ->
  load_scalar O e SDateTime j = rmap VDateTime (o_dt_fromts O true x).
Proof.
  intros O e j x Hx. destruct j; try discriminate; injection Hx as <-; destruct e; reflexivity.
Qed.
Print Assumptions C04_datetime_numeric_utc.
Example C04_as_number_example :
  as_number (JInt (-1)) = Some (NInt (-1)) /\ as_number (JFloat (FDy 3 (-1))) = Some (NFloat (FDy 3 (-1))) /\
  as_number (JBool true) = None /\ as_number (JStr (S "1")) = None.
Proof. repeat split. Qed.

(* v1 (after the repair of F35, commit 666094c): the tz argument of as_datetime_v1 is utc, for
   whatever oracle answers — in particular never the naive local fromtimestamp(x, None) *)
Theorem C04_datetime_numeric_v1 :
  forall O j x, as_number j = Some x ->
  load_scalar O V1 SDateTime j = rmap VDateTime (o_dt_fromts O true x).
Proof. intros O j x Hx. destruct j; try discriminate; injection Hx as <-; reflexivity. Qed.
Print Assumptions C04_datetime_numeric_v1.

(* EnvWizard: digit strings at a datetime position are timestamps (UTC) *)
Theorem C04_datetime_env_numeric_string :
  forall O s f, numeric_doc s = true -> o_float_of_str O s = Ok f ->
  load_scalar O Env SDateTime (JStr s) = rmap VDateTime (o_dt_fromts O true (NFloat f)).
Proof. intros O s f Hn Hf. exact (scalar_ref O Env SDateTime _ _ (d_dt_env_numstr O s f Hn Hf)). Qed.
Print Assumptions C04_datetime_env_numeric_string.
Example C04_numeric_doc_example : numeric_doc (S "1651077045") = true /\ numeric_doc (S "1.23") = true /\ numeric_doc (S "1.2.3") = false /\ numeric_doc (S ".") = false.
Proof. repeat split. Qed.

(* timedelta dispatch, all engines: numeric-form strings via float(), other strings via
   pytimeparse, numbers as seconds; bool / None / containers rejected with TypeError *)
Theorem C04_timedelta_dispatch :
  forall O e j,
  load_scalar O e STimedelta j =
    rmap VTimedelta
      match j with
      | JStr s =>
          if numeric_doc s then bind (o_float_of_str O s) (fun f => o_timedelta O (NFloat f))
          else bind (o_timeparse O s) (fun r => match r with Some x => o_timedelta O x | None => Err EValue end)
      | JInt z => o_timedelta O (NInt z)
      | JFloat f => o_timedelta O (NFloat f)
      | _ => Err EType
      end.
Proof.
  intros O e j. destruct j; try reflexivity. cbn [load_scalar as_timedelta]. now rewrite numeric_form_doc.
Qed.
Print Assumptions C04_timedelta_dispatch.

(* Enum by value (string and integer values), Decimal via str *)
Theorem C04_enum :
  forall O e ms j r, doc_scalar O e (SEnum ms) j r -> rmap VEnum (enum_lookup ms j) = r.
Proof.
  intros O e ms j r H. rewrite <- (scalar_ref O e (SEnum ms) j r) by assumption. reflexivity.
Qed.
Print Assumptions C04_enum.
Example C04_enum_example O :
  doc_scalar O V0 (SEnum ([(JStr (S "red"), S "RED")] ++ (JInt 1, S "ONE") :: [])) (JInt 1) (Ok (VEnum (S "ONE"))).
Proof. apply d_enum_int. intros v n [H|[]]. now injection H as <- <-. Qed.

Theorem C04_decimal :
  forall O e j r, doc_scalar O e SDecimal j r -> load_scalar O e SDecimal j = r.
Proof. intros O e j r H. apply scalar_ref; assumption. Qed.
Print Assumptions C04_decimal.

(* THE lifting theorem: for every engine, every container context c (Optional, list,
   tuple[t, ...], fixed tuple with arbitrary neighbours, dict value; nested to any depth) and
   every type t: if g describes the load at the hole, the documented element-wise meaning of
   the context describes the load at plug c t.  By induction on contexts. *)
Theorem C04_everywhere :
  forall O e c t (g : jv -> option (res pv)),
  (forall j r, g j = Some r -> load O e t j = r) ->
  forall j R, lift O e c g j = Some R -> load O e (plug c t) j = R.
Proof. exact everywhere. Qed.
Print Assumptions C04_everywhere.
Example C04_everywhere_example O :
  let g := fun j => Some (load O V0 (TS SInt) j) in
  lift O V0 (CDict KStr (CList (COpt CHole))) g (JDict [(S "a", JList [JNone; JStr (S " 7 "); JFloat (FDy 5 (-1))])])
  = Some (Ok (VDict [(VStr (S "a"), VList [VNone; VInt 7; VInt 2])])).
Proof. reflexivity. Qed.

(* ... and with the DOCUMENTED scalar coercion at the hole the documented result is what the
   model loads, at every nesting depth *)
Theorem C04_everywhere_ref :
  forall O e c s (g : jv -> option (res pv)),
  (forall j r, g j = Some r -> doc_scalar O e s j r) ->
  forall j R, lift O e c g j = Some R -> load O e (plug c (TS s)) j = R.
Proof. exact everywhere_ref. Qed.
Print Assumptions C04_everywhere_ref.
Example C04_everywhere_ref_example O :
  let g := fun j => match j with JStr s => Some (Ok (VBool (doc_truthy s))) | _ => None end in
  (forall j r, g j = Some r -> doc_scalar O Env SBool j r) /\
  lift O Env (CList CHole) g (JStr (S "yes, no ,ON")) = Some (Ok (VList [VBool true; VBool false; VBool true])).
Proof.
  split; [|reflexivity]. intros j r H. destruct j; try discriminate. injection H as <-.
  apply d_bool_str.
Qed.

(* dict KEYS are coercion positions too: the key of an entry is loaded by the documented
   coercion of the key annotation (str, int, Enum and str-mixin Enum / StrEnum by value), with
   its concrete result type, for every engine and at every depth (compose with C04_everywhere) *)
Theorem C04_dict_key_ref :
  forall O e kt key k' (g : jv -> option (res pv)) v v',
  doc_scalar O e (sty_of_kty kt) (JStr key) (Ok k') -> g v = Some (Ok v') ->
  lift O e (CDict kt CHole) g (JDict [(key, v)]) = Some (Ok (VDict [(k', v')])).
Proof.
  intros O e kt key k' g v v' Hk Hv. cbn [lift doc_items option_map doc_entries]. rewrite Hv.
  rewrite (scalar_ref O e _ _ _ Hk). reflexivity.
Qed.
Print Assumptions C04_dict_key_ref.
Example C04_dict_key_enum_example O :
  load O V1 (TList (TDict (KStrEnum [(JStr (S "red"), S "SRED"); (JStr (S "Blue"), S "SBLUE")]) (TS SInt)))
       (JList [JDict [(S "Blue", JStr (S "1")); (S "red", JFloat (FDy 2 0))]])
  = Ok (VList [VDict [(VEnum (S "SBLUE"), VInt 1); (VEnum (S "SRED"), VInt 2)]]).
Proof. reflexivity. Qed.

(* EnvWizard: a string that does not start with '[' splits on ',' and every piece is stripped;
   a string that does not start with '{' and whose pieces all contain '=' (distinct keys)
   becomes the dict of stripped key / value pairs *)
Theorem C04_env_split :
  forall O s, first_is "["%char (lstrip s) = false ->
  as_list O (JStr s) = Ok (JList (map (fun w => JStr (strip w)) (split_on ","%char s))).
Proof. exact env_split. Qed.
Print Assumptions C04_env_split.
Example C04_env_split_example O :
  first_is "["%char (lstrip (S "  first_user@abc.com ,  second-user@xyz.org")) = false /\
  as_list O (JStr (S "  first_user@abc.com ,  second-user@xyz.org")) =
    Ok (JList [JStr (S "first_user@abc.com"); JStr (S "second-user@xyz.org")]).
Proof. split; reflexivity. Qed.

Theorem C04_env_split_dict :
  forall O s d, first_is "{"%char (lstrip s) = false ->
  shorthand_pairs (split_on ","%char s) = Some d -> distinct_keys d = true ->
  as_dict O (JStr s) = Ok (JDict d).
Proof. exact env_split_dict. Qed.
Print Assumptions C04_env_split_dict.
Example C04_env_split_dict_example :
  shorthand_pairs (split_on ","%char (S "sharpened=Y,  uses_left = 3")) =
    Some [(S "sharpened", JStr (S "Y")); (S "uses_left", JStr (S "3"))] /\
  distinct_keys [(S "sharpened", JStr (S "Y")); (S "uses_left", JStr (S "3"))] = true.
Proof. split; reflexivity. Qed.

(* open defect F36: EnvWizard checks the element count of a fixed-arity tuple against len()
   of the raw string, so the shorthand string whose split list loads fine is rejected *)
Theorem C04_env_tuple_refuted :
  forall O,
  load O Env (TTup [TS SInt; TS SBool]) (JList (shorthand_list (S "1,yes"))) = Ok (VTuple [VInt 1; VBool true]) /\
  load O Env (TTup [TS SInt; TS SBool]) (JStr (S "1,yes")) = Err EOther.
Proof. intro O. split; reflexivity. Qed.
Print Assumptions C04_env_tuple_refuted.
