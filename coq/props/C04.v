(* placeholder while the harness is being validated *)
From DW Require Import PyStr CoerceModel.
