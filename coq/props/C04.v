(* C04 — loading applies the documented coercions, and only those.
   Statements only (closed by `exact` / short glue) + Print Assumptions.
   Model: CoerceModel.v (code-shaped, three engines).  Reference: CoerceRef.v
   ([doc_scalar], [lift]: transcription of the documentation).  The standard-library
   functions the library only calls are the universally quantified record [O : oracles]. *)
From DW Require Import PyStr CharFacts T_Truthy CoerceModel CoerceRef CoerceProofs CoerceFloatProofs.
From Coq Require Import Lia.

(* Tie T: the truthy set regenerated from type_conv.TRUTHY_VALUES is the documented one
   (TRUE, T, YES, Y, ON, 1; compared case-folded). *)
Theorem C04_truthy_is_documented :
  truthy_values = [S "1"; S "on"; S "t"; S "true"; S "y"; S "yes"] /\
  forall w, mem_str w (map lower truthy_doc) = mem_str w truthy_values.
Proof. split; [reflexivity|exact truthy_is_documented]. Qed.
Print Assumptions C04_truthy_is_documented.

(* as_bool (default engine, Env) on every input: bools unchanged, strings by the
   case-insensitive documented set (stated with upper-casing, the code lower-cases),
   numbers by == 1, everything else False. *)
Theorem C04_bool :
  forall j, as_bool j =
    match j with
    | JBool b => b
    | JStr s => doc_truthy s
    | JInt z => Z.eqb z 1
    | JFloat f => fl_eq_Z f 1
    | _ => false
    end.
Proof. exact as_bool_doc. Qed.
Print Assumptions C04_bool.

(* the v1 code template computes the same function *)
Theorem C04_bool_v1 : forall j, load_bool_v1 j = as_bool j.
Proof. exact load_bool_v1_doc. Qed.
Print Assumptions C04_bool_v1.

(* round() of the model is "nearest integer, ties to even" on every exact dyadic, and that
   specification determines the result *)
Theorem C04_round_half_even : forall m e n, fl_round (FDy m e) = Ok n -> rounds_to (FDy m e) n.
Proof. exact fl_round_sound. Qed.
Print Assumptions C04_round_half_even.
Example C04_round_example : fl_round (FDy 5 (-1)) = Ok 2%Z /\ fl_round (FDy 7 (-1)) = Ok 4%Z /\ fl_round (FDy (-1) (-1)) = Ok 0%Z.
Proof. repeat split. Qed.

Theorem C04_round_unique : forall f n n', rounds_to f n -> rounds_to f n' -> n = n'.
Proof. exact rounds_to_unique. Qed.
Print Assumptions C04_round_unique.
Example C04_rounds_to_example : rounds_to (FDy 5 (-1)) 2 /\ ~ rounds_to (FDy 5 (-1)) 3.
Proof. split; cbn; unfold fl_num, fl_den; cbn; [split; [lia|reflexivity]|intros [_ H]; specialize (H eq_refl); discriminate]. Qed.

(* an integer string (accepted by int()) is non-empty and has no decimal point, so the
   float-string branch and the integer-string branch of as_int never overlap *)
Theorem C04_int_of_str_shape :
  forall s z, py_int_of_str s = Ok z -> s <> [] /\ contains_char c_dot s = false.
Proof. exact int_of_str_shape. Qed.
Print Assumptions C04_int_of_str_shape.
Example C04_int_of_str_example : py_int_of_str (S " -1_000 ") = Ok (-1000)%Z /\ py_int_of_str (S "1__0") = Err EValue.
Proof. split; reflexivity. Qed.

(* THE scalar theorem: whatever the documentation says about (engine, scalar type, value),
   the model does — for all three engines. *)
Theorem C04_scalar_ref :
  forall O e s j r, doc_scalar O e s j r -> load_scalar O e s j = r.
Proof. exact scalar_ref. Qed.
Print Assumptions C04_scalar_ref.
Example C04_scalar_ref_example O :
  doc_scalar O V0 SInt (JFloat (FDy 5 (-1))) (Ok (VInt 2)) /\
  doc_scalar O V1 SInt (JFloat (FDy 5 (-1))) (Err EValue) /\
  doc_scalar O Env SBool (JStr (S "oN")) (Ok (VBool true)).
Proof.
  repeat split.
  - apply d_int_float_round; [reflexivity|]. cbn. split; [lia|reflexivity].
  - apply d_int_float_fractional. cbn. unfold fl_num, fl_den. cbn. intro n. lia.
  - exact (d_bool_str O Env (S "oN")).
Qed.

(* int, default engine and Env: ''/None -> 0, bool rejected, floats and float strings rounded
   half-even, integer strings *)
Theorem C04_int_v0 :
  forall O e j r, is_v1 e = false -> doc_scalar O e SInt j r ->
  rmap VInt (as_int j) = r.
Proof.
  intros O e j r He H. rewrite <- (scalar_ref O e SInt j r) by assumption.
  destruct e; try discriminate; reflexivity.
Qed.
Print Assumptions C04_int_v0.

(* int, v1: fractional floats and float strings rejected, None not coerced *)
Theorem C04_int_v1 :
  forall O j r, doc_scalar O V1 SInt j r -> rmap VInt (load_int_v1 j) = r.
Proof.
  intros O j r H. rewrite <- (scalar_ref O V1 SInt j r) by assumption. reflexivity.
Qed.
Print Assumptions C04_int_v1.

Theorem C04_str :
  forall O e j r, doc_scalar O e SStr j r -> rmap VStr (as_str O j) = r.
Proof.
  intros O e j r H. rewrite <- (scalar_ref O e SStr j r) by assumption. reflexivity.
Qed.
Print Assumptions C04_str.

(* the code's replace('Z', '+00:00', 1) is the documented suffix rewrite whenever the only Z
   of the string is its last character, and the identity when there is none *)
Theorem C04_datetime_z_suffix :
  (forall s', no_Z s' = true -> z_rewrite (s' ++ S "Z") = s' ++ S "+00:00") /\
  (forall s, no_Z s = true -> z_rewrite s = s).
Proof. split; [exact z_rewrite_suffix|exact z_rewrite_noZ]. Qed.
Print Assumptions C04_datetime_z_suffix.
Example C04_datetime_z_example : z_rewrite (S "2020-01-02T03:04:05Z") = S "2020-01-02T03:04:05+00:00".
Proof. reflexivity. Qed.

(* every engine: a number at a datetime position goes to fromtimestamp(x, tz=utc);
   bool is not a number for the default engine and Env *)
Theorem C04_datetime_numeric_utc :
  forall O e j x, as_number j = Some x ->
  load_scalar O e SDateTime j = rmap VDateTime (o_dt_fromts O true x).
Proof.
  intros O e j x Hx. destruct j; try discriminate; injection Hx as <-; destruct e; reflexivity.
Qed.
Print Assumptions C04_datetime_numeric_utc.
Example C04_as_number_example :
  as_number (JInt (-1)) = Some (NInt (-1)) /\ as_number (JFloat (FDy 3 (-1))) = Some (NFloat (FDy 3 (-1))) /\
  as_number (JBool true) = None /\ as_number (JStr (S "1")) = None.
Proof. repeat split. Qed.

(* v1 (after the repair of F35, commit 666094c): the tz argument of as_datetime_v1 is utc, for
   whatever oracle answers — in particular never the naive local fromtimestamp(x, None) *)
Theorem C04_datetime_numeric_v1 :
  forall O j x, as_number j = Some x ->
  load_scalar O V1 SDateTime j = rmap VDateTime (o_dt_fromts O true x).
Proof. intros O j x Hx. destruct j; try discriminate; injection Hx as <-; reflexivity. Qed.
Print Assumptions C04_datetime_numeric_v1.

(* EnvWizard: digit strings at a datetime position are timestamps (UTC) *)
Theorem C04_datetime_env_numeric_string :
  forall O s f, numeric_doc s = true -> py_float_of_str s = Ok f ->
  load_scalar O Env SDateTime (JStr s) = rmap VDateTime (o_dt_fromts O true (NFloat f)).
Proof. intros O s f Hn Hf. exact (scalar_ref O Env SDateTime _ _ (d_dt_env_numstr O s f Hn Hf)). Qed.
Print Assumptions C04_datetime_env_numeric_string.
Example C04_numeric_doc_example : numeric_doc (S "1651077045") = true /\ numeric_doc (S "1.23") = true /\ numeric_doc (S "1.2.3") = false /\ numeric_doc (S ".") = false.
Proof. repeat split. Qed.

(* timedelta dispatch, all engines: numeric-form strings via float(), other strings via
   pytimeparse, numbers as seconds; bool / None / containers rejected with TypeError *)
Theorem C04_timedelta_dispatch :
  forall O e j,
  load_scalar O e STimedelta j =
    rmap VTimedelta
      match j with
      | JStr s =>
          if numeric_doc s then bind (py_float_of_str s) (fun f => o_timedelta O (NFloat f))
          else bind (o_timeparse O s) (fun r => match r with Some x => o_timedelta O x | None => Err EValue end)
      | JInt z => o_timedelta O (NInt z)
      | JFloat f => o_timedelta O (NFloat f)
      | _ => Err EType
      end.
Proof.
  intros O e j. destruct j; try reflexivity. cbn [load_scalar as_timedelta]. now rewrite numeric_form_doc.
Qed.
Print Assumptions C04_timedelta_dispatch.

(* Enum by value (string and integer values), Decimal via str *)
Theorem C04_enum :
  forall O e ms j r, doc_scalar O e (SEnum ms) j r -> rmap VEnum (enum_lookup ms j) = r.
Proof.
  intros O e ms j r H. rewrite <- (scalar_ref O e (SEnum ms) j r) by assumption. reflexivity.
Qed.
Print Assumptions C04_enum.
Example C04_enum_example O :
  doc_scalar O V0 (SEnum ([(JStr (S "red"), S "RED")] ++ (JInt 1, S "ONE") :: [])) (JInt 1) (Ok (VEnum (S "ONE"))).
Proof. apply d_enum_int. intros v n [H|[]]. now injection H as <- <-. Qed.

Theorem C04_decimal :
  forall O e j r, doc_scalar O e SDecimal j r -> load_scalar O e SDecimal j = r.
Proof. intros O e j r H. apply scalar_ref; assumption. Qed.
Print Assumptions C04_decimal.

(* THE lifting theorem: for every engine, every container context c (Optional, list,
   tuple[t, ...], fixed tuple with arbitrary neighbours, dict value; nested to any depth) and
   every type t: if g describes the load at the hole, the documented element-wise meaning of
   the context describes the load at plug c t.  By induction on contexts. *)
Theorem C04_everywhere :
  forall O e c t (g : jv -> option (res pv)),
  (forall j r, g j = Some r -> load O e t j = r) ->
  forall j R, lift O e c g j = Some R -> load O e (plug c t) j = R.
Proof. exact everywhere. Qed.
Print Assumptions C04_everywhere.
Example C04_everywhere_example O :
  let g := fun j => Some (load O V0 (TS SInt) j) in
  lift O V0 (CDict KStr (CList (COpt CHole))) g (JDict [(S "a", JList [JNone; JStr (S " 7 "); JFloat (FDy 5 (-1))])])
  = Some (Ok (VDict [(VStr (S "a"), VList [VNone; VInt 7; VInt 2])])).
Proof. reflexivity. Qed.

(* ... and with the DOCUMENTED scalar coercion at the hole the documented result is what the
   model loads, at every nesting depth *)
Theorem C04_everywhere_ref :
  forall O e c s (g : jv -> option (res pv)),
  (forall j r, g j = Some r -> doc_scalar O e s j r) ->
  forall j R, lift O e c g j = Some R -> load O e (plug c (TS s)) j = R.
Proof. exact everywhere_ref. Qed.
Print Assumptions C04_everywhere_ref.
Example C04_everywhere_ref_example O :
  let g := fun j => match j with JStr s => Some (Ok (VBool (doc_truthy s))) | _ => None end in
  (forall j r, g j = Some r -> doc_scalar O Env SBool j r) /\
  lift O Env (CList CHole) g (JStr (S "yes, no ,ON")) = Some (Ok (VList [VBool true; VBool false; VBool true])).
Proof.
  split; [|reflexivity]. intros j r H. destruct j; try discriminate. injection H as <-.
  apply d_bool_str.
Qed.

(* dict KEYS are coercion positions too: the key of an entry is loaded by the documented
   coercion of the key annotation (str, int, Enum and str-mixin Enum / StrEnum by value), with
   its concrete result type, for every engine and at every depth (compose with C04_everywhere) *)
Theorem C04_dict_key_ref :
  forall O e kt key k' (g : jv -> option (res pv)) v v',
  doc_scalar O e (sty_of_kty kt) (JStr key) (Ok k') -> g v = Some (Ok v') ->
  lift O e (CDict kt CHole) g (JDict [(key, v)]) = Some (Ok (VDict [(k', v')])).
Proof.
  intros O e kt key k' g v v' Hk Hv. cbn [lift doc_items option_map doc_entries]. rewrite Hv.
  rewrite (scalar_ref O e _ _ _ Hk). reflexivity.
Qed.
Print Assumptions C04_dict_key_ref.
Example C04_dict_key_enum_example O :
  load O V1 (TList (TDict (KStrEnum [(JStr (S "red"), S "SRED"); (JStr (S "Blue"), S "SBLUE")]) (TS SInt)))
       (JList [JDict [(S "Blue", JStr (S "1")); (S "red", JFloat (FDy 2 0))]])
  = Ok (VList [VDict [(VEnum (S "SBLUE"), VInt 1); (VEnum (S "SRED"), VInt 2)]]).
Proof. reflexivity. Qed.

(* EnvWizard: a string that does not start with '[' splits on ',' and every piece is stripped;
   a string that does not start with '{' and whose pieces all contain '=' (distinct keys)
   becomes the dict of stripped key / value pairs *)
Theorem C04_env_split :
  forall O s, first_is "["%char (lstrip s) = false ->
  as_list O (JStr s) = Ok (JList (map (fun w => JStr (strip w)) (split_on ","%char s))).
Proof. exact env_split. Qed.
Print Assumptions C04_env_split.
Example C04_env_split_example O :
  first_is "["%char (lstrip (S "  first_user@abc.com ,  second-user@xyz.org")) = false /\
  as_list O (JStr (S "  first_user@abc.com ,  second-user@xyz.org")) =
    Ok (JList [JStr (S "first_user@abc.com"); JStr (S "second-user@xyz.org")]).
Proof. split; reflexivity. Qed.

Theorem C04_env_split_dict :
  forall O s d, first_is "{"%char (lstrip s) = false ->
  shorthand_pairs (split_on ","%char s) = Some d -> distinct_keys d = true ->
  as_dict O (JStr s) = Ok (JDict d).
Proof. exact env_split_dict. Qed.
Print Assumptions C04_env_split_dict.
Example C04_env_split_dict_example :
  shorthand_pairs (split_on ","%char (S "sharpened=Y,  uses_left = 3")) =
    Some [(S "sharpened", JStr (S "Y")); (S "uses_left", JStr (S "3"))] /\
  distinct_keys [(S "sharpened", JStr (S "Y")); (S "uses_left", JStr (S "3"))] = true.
Proof. split; reflexivity. Qed.

(* open defect F36: EnvWizard checks the element count of a fixed-arity tuple against len()
   of the raw string, so the shorthand string whose split list loads fine is rejected *)
Theorem C04_env_tuple_refuted :
  forall O,
  load O Env (TTup [TS SInt; TS SBool]) (JList (shorthand_list (S "1,yes"))) = Ok (VTuple [VInt 1; VBool true]) /\
  load O Env (TTup [TS SInt; TS SBool]) (JStr (S "1,yes")) = Err EOther.
Proof. intro O. split; reflexivity. Qed.
Print Assumptions C04_env_tuple_refuted.

(* ===== numerals: which strings take the detour through float, and what it costs =============
   float(str) and float(int) are concrete in the model (CoerceFloat.v: correct rounding of
   binary64 on exact dyadics), so "int(float(s)) loses precision above 2^53" is a fact of the
   model and the theorems below say where the engines may and may not take that detour. *)

(* INTEGER STRINGS ARE EXACT.  For every integer literal - optional sign, any number of digits
   (groups joined by single underscores), blanks around it, unbounded magnitude; by induction
   over the digit lists - every engine loads exactly the integer the digits denote (Horner value
   [il_val], defined in CoerceRef.v independently of the model's int()). *)
Theorem C04_int_string_exact :
  forall O e l, il_wf l = true -> load_scalar O e SInt (JStr (il_str l)) = Ok (VInt (il_val l)).
Proof. exact load_int_lit. Qed.
Print Assumptions C04_int_string_exact.
Example C04_int_string_example :
  let l := {| il_ws1 := S " "; il_sgn := SgMinus; il_first := (D9, []);
              il_more := [(D0, [D0; D7]); (D1, [D9; D9]); (D2, [D5; D4]); (D7, [D4; D0]); (D9, [D9; D3])];
              il_ws2 := [c_nl] |} in
  il_wf l = true /\ il_str l = S " -9_007_199_254_740_993" ++ [c_nl] /\ il_val l = (- (2 ^ 53 + 1))%Z.
Proof. repeat split. Qed.

(* ... at every position: Optional, list element, tuple slots, dict values, any depth *)
Theorem C04_int_string_everywhere :
  forall O e c (g : jv -> option (res pv)),
  (forall j r, g j = Some r ->
     exists l, il_wf l = true /\ j = JStr (il_str l) /\ r = Ok (VInt (il_val l))) ->
  forall j R, lift O e c g j = Some R -> load O e (plug c (TS SInt)) j = R.
Proof.
  intros O e c g Hg. apply everywhere. intros j r Hj.
  destruct (Hg j r Hj) as (l & Hw & -> & ->). cbn [load]. apply load_int_lit. exact Hw.
Qed.
Print Assumptions C04_int_string_everywhere.
Example C04_int_string_everywhere_example O :
  let g := fun j => if jv_eqb j (JStr (S "-9007199254740993")) then Some (Ok (VInt (-9007199254740993))) else None in
  (forall j r, g j = Some r -> exists l, il_wf l = true /\ j = JStr (il_str l) /\ r = Ok (VInt (il_val l))) /\
  lift O V1 (CDict KStr (CTup [TS SStr] (COpt CHole) [])) g
       (JDict [(S "k", JList [JStr (S "v"); JStr (S "-9007199254740993")])])
  = Some (Ok (VDict [(VStr (S "k"), VTuple [VStr (S "v"); VInt (-9007199254740993)])])).
Proof.
  split; [|reflexivity]. intros j r H.
  destruct (jv_eqb j (JStr (S "-9007199254740993"))) eqn:E; [|discriminate]. injection H as <-.
  destruct j as [| | | |s| |]; try discriminate. cbn [jv_eqb] in E. apply pstr_eqb_eq in E. subst s.
  exists {| il_ws1 := []; il_sgn := SgMinus; il_first := (D9, [D0; D0; D7; D1; D9; D9; D2; D5; D4; D7; D4; D0; D9; D9; D3]);
            il_more := []; il_ws2 := [] |}.
  repeat split.
Qed.

(* ... and as a dict KEY of type int (keys are coercion positions): the key of the loaded dict is
   the exact integer, in every engine (compose with C04_everywhere for depth) *)
Theorem C04_int_string_dict_key :
  forall O e l (g : jv -> option (res pv)) v v',
  il_wf l = true -> g v = Some (Ok v') ->
  lift O e (CDict KInt CHole) g (JDict [(il_str l, v)]) = Some (Ok (VDict [(VInt (il_val l), v')])) /\
  (forall t, (forall j r, g j = Some r -> load O e t j = r) ->
     load O e (TDict KInt t) (JDict [(il_str l, v)]) = Ok (VDict [(VInt (il_val l), v')])).
Proof.
  intros O e l g v v' Hw Hv.
  assert (H : lift O e (CDict KInt CHole) g (JDict [(il_str l, v)]) = Some (Ok (VDict [(VInt (il_val l), v')]))).
  { cbn [lift doc_items option_map doc_entries sty_of_kty]. rewrite Hv. rewrite (load_int_lit O e l Hw). reflexivity. }
  split; [exact H|]. intros t Hg.
  exact (everywhere O e (CDict KInt CHole) t g Hg _ _ H).
Qed.
Print Assumptions C04_int_string_dict_key.

(* the decision itself: a non-empty string WITHOUT a decimal point never goes through float in
   any engine - it is handed to int() as it is (signed or not, digits or not) *)
Theorem C04_int_string_no_float_route :
  forall O e s, s <> [] -> contains_char c_dot s = false ->
  load_scalar O e SInt (JStr s) = rmap VInt (py_int_of_str s).
Proof.
  intros O e s Hne Hd. destruct e; cbn [load_scalar as_int load_int_v1]; rewrite Hd;
    try reflexivity; destruct s; congruence.
Qed.
Print Assumptions C04_int_string_no_float_route.
(* why that matters: the same string sent through float first (what `not s.isdigit()` instead of
   `'.' in s` would do to every signed string) comes back as a different integer *)
Example C04_float_detour_is_lossy :
  bind (py_float_of_str (S "-9007199254740993")) (fun f => if fl_is_integer f then fl_trunc f else Err EValue)
    = Ok (-9007199254740992)%Z /\
  py_int_of_str (S "-9007199254740993") = Ok (-9007199254740993)%Z.
Proof. split; vm_compute; reflexivity. Qed.

(* "FLOAT STRINGS" d.000 (a point followed by zeros only): every engine takes the detour through
   float(s) - round() in the default engine / Env, is_integer() and int() in v1 - and below 2^53
   the detour is exact *)
Theorem C04_int_point_zero_exact :
  forall O e l k, nl_wf l = true -> nl_frac l = Some k -> (Z.abs (nl_val l) < 2 ^ 53)%Z ->
  load_scalar O e SInt (JStr (nl_str l)) = Ok (VInt (nl_val l)).
Proof. exact load_int_point_zero. Qed.
Print Assumptions C04_int_point_zero_exact.
Example C04_int_point_zero_example :
  let l := {| nl_ws1 := []; nl_sgn := SgMinus; nl_int := [D4; D2]; nl_frac := Some 2%nat; nl_ws2 := S " " |} in
  nl_wf l = true /\ nl_str l = S "-42.00 " /\ nl_val l = (-42)%Z /\ (Z.abs (nl_val l) < 2 ^ 53)%Z.
Proof. repeat split. Qed.

(* ... and from 2^53 + 1 on it is the value of the double: the documentation calls these
   "float strings", they are read as floats (binary64), in all three engines alike.  The bound
   of the previous theorem is sharp. *)
Theorem C04_int_point_zero_is_a_float :
  forall O e, load_scalar O e SInt (JStr (S "9007199254740993.0")) = Ok (VInt 9007199254740992) /\
              load_scalar O e SInt (JStr (S "9007199254740993")) = Ok (VInt 9007199254740993).
Proof. intros O e. destruct e; split; vm_compute; reflexivity. Qed.
Print Assumptions C04_int_point_zero_is_a_float.

(* float(str) of the model is correctly rounded: with (a, b) = num/den on the grid 2^e, the
   mantissa m is the integer nearest to a/b (ties to even), the grid is the binary64 grid of the
   value (2^52 <= m <= 2^53 with e >= -1074, or the subnormal grid e = -1074), and the result is
   below 2^1024 (otherwise the model answers overflow: inf for strings, OverflowError for ints) *)
Theorem C04_float_nearest :
  forall num den m e, (0 < num)%Z -> (0 < den)%Z -> b64_round_pos num den = Some (m, e) ->
  let a := fst (b64_scaled num den e) in
  let b := snd (b64_scaled num den e) in
  (0 < b)%Z /\
  (2 * Z.abs (a - m * b) <= b)%Z /\ ((2 * Z.abs (a - m * b) = b)%Z -> Z.even m = true) /\
  (-1074 <= e)%Z /\
  ((2 ^ 52 <= m <= 2 ^ 53)%Z \/ (e = -1074 /\ 0 <= m <= 2 ^ 52)%Z) /\
  ((0 <= e)%Z -> (m * 2 ^ e < 2 ^ 1024)%Z).
Proof. exact b64_round_pos_nearest. Qed.
Print Assumptions C04_float_nearest.
Example C04_float_nearest_example :
  py_float_of_str (S "9007199254740993") = Ok (FDy (2 ^ 52) 1) /\
  py_float_of_str (S "-2.5e0") = Ok (FDy (-5629499534213120) (-51)) /\
  py_float_of_str (S "4.9e-324") = Ok (FDy 1 (-1074)) /\
  py_float_of_str (S "1.7976931348623159e308") = Ok (FInf false) /\
  py_float_of_str (S "1_0.5e1_0") = Ok (FDy 6881280000000000 (-16)) /\
  py_float_of_str (S "1__0") = Err EValue /\
  fl_of_Z (2 ^ 1024 - 2 ^ 970) = Err EOverflow /\
  b64_round_pos 1 3 = Some (6004799503160661, -54)%Z.
Proof. repeat split; vm_compute; reflexivity. Qed.

(* float positions: float(s) of a plain numeral (optional sign, digits, optionally a point and
   zeros) and float(z) of a JSON int are exact below 2^53, in every engine *)
Theorem C04_float_exact :
  forall O e,
  (forall l, nl_wf l = true -> (Z.abs (nl_val l) < 2 ^ 53)%Z ->
     exists j, (0 <= j)%Z /\
       load_scalar O e SFloat (JStr (nl_str l)) = Ok (VFloat (FDy (nl_val l * 2 ^ j) (- j))) /\
       fl_eq_Z (FDy (nl_val l * 2 ^ j) (- j)) (nl_val l) = true) /\
  (forall z, (Z.abs z < 2 ^ 53)%Z ->
     exists j, (0 <= j)%Z /\
       load_scalar O e SFloat (JInt z) = Ok (VFloat (FDy (z * 2 ^ j) (- j))) /\
       fl_eq_Z (FDy (z * 2 ^ j) (- j)) z = true).
Proof.
  intros O e. split.
  - intros l Hw Hn. destruct (load_float_num O e l Hw Hn) as (j & Hj & E).
    exists j. repeat split; [exact Hj|exact E|apply fl_eq_Z_exact; exact Hj].
  - intros z Hz. destruct (load_float_int O e z Hz) as (j & Hj & E).
    exists j. repeat split; [exact Hj|exact E|apply fl_eq_Z_exact; exact Hj].
Qed.
Print Assumptions C04_float_exact.

(* Tie T for the ALGORITHM: `as_bool_src` / `as_int_src` / `as_int_v1_src` are translated by
   harness/tables/CoerceDispatchAlg.py from the CURRENT source text of utils/type_conv.py on every run:
   for each kind of JSON value the chain of exact-type tests (`t is bool`, `t is str`, `t is base_type`,
   `t is float` ... in the order the source writes them; bool is NOT an int for `is`) is evaluated and the
   branch taken is translated.  They equal the model's functions on every value, so C04_bool, C04_int_v0,
   C04_int_v1 and the integer-string theorems are about the dispatch the source spells out now. *)
From DW Require Import T_CoerceDispatchAlg CoerceDispatchSrcTie.
Theorem C04_dispatch_source_tie :
  (forall j, as_bool_src j = as_bool j) /\ (forall j, as_int_src j = as_int j) /\
  (forall j, as_int_v1_src j = as_int_v1 j).
Proof. exact (conj as_bool_src_eq (conj as_int_src_eq as_int_v1_src_eq)). Qed.
Print Assumptions C04_dispatch_source_tie.
