(* C15 — generated code is well-formed for every class; spelling never changes behaviour.
   Only statements closed by `exact`/short glue, each followed by Print Assumptions.
   Models: GenPyLit (Python string literals), GenNames (name structure of the
   generated functions).  Proofs: GenPyLitProofs, GenNamesBase/Closed/Collide. *)
From DW Require Import PyStr GenPyLit GenNames GenPyLitProofs GenNamesBase GenNamesClosed GenNamesCollide.

(* ===================== 1. every repr splice is safe ========================== *)

(* For EVERY byte string s (quotes, backslashes, braces, newlines, NUL, DEL, bytes >= 128):
   reading back the text repr(s) yields s.  This is what makes every `{x!r}` splice
   (aliases, tag keys, tags, path components, field names, defaults) transport x. *)
Theorem C15_repr_roundtrip : forall s : pstr, parse_literal (py_repr s) = Some s.
Proof. exact repr_roundtrip. Qed.
Print Assumptions C15_repr_roundtrip.

(* ... also inside a longer line: whatever text follows (unless it starts with another
   quote, which Python would read as an adjacent literal / triple quote — no generator
   does that), the lexer consumes exactly repr(s) and yields s. *)
Theorem C15_repr_self_delimiting :
  forall s rest : pstr, no_quote_head rest = true -> lex_literal (py_repr s ++ rest) = LOk s rest.
Proof. exact repr_lex_prefix. Qed.
Print Assumptions C15_repr_self_delimiting.
Example C15_repr_self_delimiting_ex : no_quote_head (S ",asdict(o.x)") = true.
Proof. reflexivity. Qed.

(* repr(s) never contains a raw line break or NUL: a splice cannot break the line /
   indentation structure of the generated source. *)
Theorem C15_repr_line_safe : forall s : pstr, forallb line_safe_char (py_repr s) = true.
Proof. exact repr_line_safe. Qed.
Print Assumptions C15_repr_line_safe.

(* Why repr is needed: a BARE double-quote splice (as environ/wizard.py used before the F21
   fix, and dumpers.py before the F5 fix, with single quotes) is safe only for text without
   double quote, backslash, braces, line breaks, NUL ... *)
Theorem C15_bare_splice_partial :
  forall s : pstr, bare_safe s = true -> parse_literal (bare_dq s) = Some s.
Proof. exact bare_splice_safe. Qed.
Print Assumptions C15_bare_splice_partial.
Example C15_bare_splice_partial_ex : bare_safe (S "MY_VAR-1") = true.
Proof. reflexivity. Qed.

(* ... and fails otherwise: a name with a double quote is not a literal at all, a name
   with backslash-t is read back as a different name. *)
Theorem C15_bare_splice_refuted :
  (exists s, parse_literal (bare_dq s) = None) /\
  (exists s v, parse_literal (bare_dq s) = Some v /\ v <> s).
Proof. exact bare_splice_refuted. Qed.
Print Assumptions C15_bare_splice_refuted.

(* ===================== 2. every generated body is closed ==================== *)
(* closedb batch f = true  <->  every name the body loads is a parameter, a name bound
   in the body, a closure parameter of __create_<f>_fn__, a key of the globals dict, a
   function of the same batch, or a builtin; same for the names of the def line. *)

Theorem C15_closed_v0_load :
  forall sh : v0l_shape,
    incl (free_names (v0_load_fn sh)) (allowed [] (v0_load_fn sh)) /\
    incl (e_loads (fn_header (v0_load_fn sh))) (allowed [] (v0_load_fn sh)).
Proof. intro sh. apply closedb_elim. exact (v0_load_closed sh). Qed.
Print Assumptions C15_closed_v0_load.

(* default-engine / EnvWizard dump (after the repair of F38 / C15c: the default of a
   catch-all field is always passed into the closure) *)
Theorem C15_closed_v0_dump :
  forall sh : v0d_shape,
    incl (free_names (v0_dump_fn sh)) (allowed [] (v0_dump_fn sh)) /\
    incl (e_loads (fn_header (v0_dump_fn sh))) (allowed [] (v0_dump_fn sh)).
Proof. intro sh. apply closedb_elim. exact (v0_dump_closed sh). Qed.
Print Assumptions C15_closed_v0_dump.

(* EnvWizard __init__ and dict *)
Theorem C15_closed_env :
  forall sh : env_shape,
    incl (free_names (env_init_fn sh)) (allowed [] (env_init_fn sh)) /\
    incl (e_loads (fn_header (env_init_fn sh))) (allowed [] (env_init_fn sh)) /\
    incl (free_names (env_dict_fn sh)) (allowed [] (env_dict_fn sh)) /\
    incl (e_loads (fn_header (env_dict_fn sh))) (allowed [] (env_dict_fn sh)).
Proof.
  intro sh. destruct (closedb_elim _ _ (env_init_closed sh)) as [H1 H2].
  destruct (closedb_elim _ _ (env_dict_closed sh)) as [H3 H4]. auto.
Qed.
Print Assumptions C15_closed_env.

(* v1 load function of a class, in a batch that contains the helper functions of the
   nested dataclasses it calls *)
Theorem C15_closed_v1_load :
  forall (batch : list pstr) (sh : v1_shape), incl (v1_calls sh) batch ->
    incl (free_names (v1_load_fn sh)) (allowed batch (v1_load_fn sh)) /\
    incl (e_loads (fn_header (v1_load_fn sh))) (allowed batch (v1_load_fn sh)).
Proof. intros batch sh H. apply closedb_elim. exact (v1_load_closed batch sh H). Qed.
Print Assumptions C15_closed_v1_load.
Example C15_closed_v1_load_ex :
  let sh := {| v_cls := S "Root";
               v_fields := [ {| vf_name := S "cls"; vf_ty := VList (VData (S "Item")); vf_has_default := false; vf_key := KAliasN (S "a'b") [S "c"] |};
                             {| vf_name := S "o"; vf_ty := VEnum (S "int"); vf_has_default := true; vf_key := KPath1 [S "x"; S "y"] |} ];
               v_pre := true; v_unknown := UkRaise; v_tag_key := Some (S "{k}") |} in
  incl (v1_calls sh) [v1_fn_name (S "Item"); v1_fn_name (S "Root")].
Proof. cbn. intros x [<-|[]]. now left. Qed.

(* ===================== 3. derived identifiers never collide ================== *)

(* `{i}` of an index is injective, so `_skip_{i}`, `_default_{i}`, `_skip_if_{i}`, `v{i}`
   are pairwise distinct for distinct indices *)
Theorem C15_show_nat_injective : forall n m, show_nat n = show_nat m -> n = m.
Proof. exact show_nat_inj. Qed.
Print Assumptions C15_show_nat_injective.

Theorem C15_index_names_injective : forall p i j, idx_name p i = idx_name p j -> i = j.
Proof. exact idx_name_inj. Qed.
Print Assumptions C15_index_names_injective.

(* default-engine dump: EVERY identifier of cls_asdict (parameters, bound names, closure
   parameters, globals, builtins — hence every loaded name of a closed body) is either one
   of a fixed list or index-based; none is derived from a field name, alias, path or tag
   (those occur only as repr-spliced literals and as attribute names `o.<field>`), and an
   index-based identifier is never one of the fixed ones.  So ANY renaming of fields /
   aliases / tags leaves the identifiers of the dump function unchanged. *)
Theorem C15_v0_dump_rename_invariant :
  forall sh : v0d_shape,
    incl (s_loads (v0d_body sh)) (v0d_pool sh) /\
    (forall x, In x (v0d_pool sh) -> In x v0d_fixed_names \/ index_based x) /\
    (forall x, index_based x -> ~ In x v0d_fixed_names).
Proof.
  intro sh. split; [exact (v0d_body_pool sh)|]. split.
  - exact (v0_dump_names_index_based sh).
  - exact v0_dump_index_not_fixed.
Qed.
Print Assumptions C15_v0_dump_rename_invariant.

(* default-engine load: the only identifiers that start with `_default_` are the
   closure parameters `_default_<field>`; distinct fields give distinct ones. *)
Theorem C15_v0_load_no_collision :
  forall sh : v0l_shape,
    incl (s_loads (v0l_body sh)) (v0l_pool sh) /\
    (forall x, In x (v0l_pool sh) -> starts_with p_default x = true -> In x (v0l_defaults sh)) /\
    (NoDup (map lf_name (l_paths sh)) -> NoDup (v0l_defaults sh)).
Proof.
  intro sh. split; [exact (v0l_body_pool sh)|]. split.
  - exact (v0_load_default_prefix sh).
  - exact (v0_load_defaults_nodup sh).
Qed.
Print Assumptions C15_v0_load_no_collision.

(* v1: field `x` becomes the local `__x`.  Distinct fields give distinct locals, and a
   local can only meet a closure variable of the same function or a helper of the
   batch — never one of the generator's plain names (o, cls, field, fields, i, e, v1, tp,
   f, init_kwargs, MISSING, ... nor a builtin).  MISSING for the full statement: the
   closure variables `__TRUTHY`, `__pre_from_dict__`, `__as_datetime`, `__<T>_fromisoformat`
   ... (finding C15b, next theorem). *)
Theorem C15_v1_field_locals_partial :
  forall (batch : list pstr) (sh : v1_shape),
    (NoDup (map vf_name (v_fields sh)) -> NoDup (v1_field_locals sh)) /\
    (forall n, ~ In (v1_field_local n) (v1_closure sh ++ batch) -> ~ In (v1_field_local n) (v1_own batch sh)).
Proof.
  intros batch sh. split; [exact (v1_field_locals_nodup sh)|].
  intros n H HI. apply H. exact (v1_field_local_vs_own batch sh n HI).
Qed.
Print Assumptions C15_v1_field_locals_partial.
Example C15_v1_field_locals_partial_ex :
  ~ In (v1_field_local (S "cls")) (v1_closure v1_witness ++ [v1_fn_name (S "A")]).
Proof. intro H. apply mem_str_In in H. vm_compute in H. discriminate. Qed.

Theorem C15_v1_field_local_refuted :
  exists sh n, NoDup (map vf_name (v_fields sh)) /\
               In (v1_field_local n) (v1_field_locals sh) /\
               In (v1_field_local n) (v1_closure sh) /\
               In (v1_field_local n) (s_binds (v1_body sh)).
Proof. exists v1_witness, (S "TRUTHY"). exact v1_field_local_refuted. Qed.
Print Assumptions C15_v1_field_local_refuted.

(* EnvWizard: field names are PARAMETERS of the generated __init__.  If no field name is
   one of the generator's names (env_reserved) or starts with _tp_/_parser_/_dflt_, the
   parameter list has no duplicate and no field name meets an identifier of the generator. *)
Theorem C15_env_no_collision_partial :
  forall sh : env_shape, env_names_ok sh = true -> NoDup (map ef_name (e_fields sh)) ->
    NoDup (env_fixed_params ++ map ef_name (e_fields sh)) /\
    forall f, In f (e_fields sh) -> ~ In (ef_name f) (env_own sh).
Proof. exact env_no_collision. Qed.
Print Assumptions C15_env_no_collision_partial.
Example C15_env_no_collision_partial_ex :
  env_names_ok {| e_fields := [ {| ef_name := S "o"; ef_var := None; ef_default := EdNone |};
                                {| ef_name := S "init_kwargs"; ef_var := Some (S "V"); ef_default := EdValue |} ];
                  e_env_file := true; e_secrets_dir := true; e_prefix := None |} = true.
Proof. vm_compute. reflexivity. Qed.

(* ... and a field named MISSING (one of the names the property lists) is at once a
   parameter and the global sentinel the body compares with (finding C15a). *)
Theorem C15_env_collision_refuted :
  exists sh, NoDup (map ef_name (e_fields sh)) /\ env_names_ok sh = false /\
    In (S "MISSING") (fn_params (env_init_fn sh)) /\
    In (S "MISSING") (fn_globals (env_init_fn sh)) /\ In (S "MISSING") (s_loads (fn_body (env_init_fn sh))).
Proof. exists env_witness. exact env_collision_refuted. Qed.
Print Assumptions C15_env_collision_refuted.

(* ===================== 4. name-keyed helper tables (v1) ======================= *)

Theorem C15_v1_fn_name_injective : forall a b, v1_fn_name a = v1_fn_name b -> a = b.
Proof. exact v1_fn_name_inj. Qed.
Print Assumptions C15_v1_fn_name_injective.

Theorem C15_type_local_injective :
  forall n1 i1 n2 i2, v1_type_local n1 i1 = v1_type_local n2 i2 -> n1 = n2 /\ i1 = i2.
Proof. exact type_local_inj. Qed.
Print Assumptions C15_type_local_injective.

(* FunctionBuilder.functions is keyed by a name derived from __name__, the recursion guard
   by the type object.  For ANY sequence of registrations (any merge order), if distinct
   types have distinct names, every call site reaches the loader of its own type ... *)
Theorem C15_helper_table_partial :
  forall regs r, injective_on_type_names regs -> In r regs -> resolves regs r = Some (snd r).
Proof. exact helper_table_partial. Qed.
Print Assumptions C15_helper_table_partial.
Example C15_helper_table_partial_ex : injective_on_type_names [(S "int", 1%N); (S "list", 2%N); (S "int", 1%N)].
Proof.
  intros r1 r2 H1 H2 E. cbn in H1, H2.
  destruct H1 as [<-|[<-|[<-|[]]]]; destruct H2 as [<-|[<-|[<-|[]]]]; cbn in *; try reflexivity; discriminate.
Qed.

(* ... and likewise the type locals `<Name>_<field_i>` of one function. *)
Theorem C15_type_local_table_partial :
  forall fi regs r, injective_on_type_names regs -> In r regs ->
    lookup_last (v1_type_local (fst r) fi) (local_table fi regs) = Some (snd r).
Proof. exact type_local_table_partial. Qed.
Print Assumptions C15_type_local_table_partial.

(* F9: two distinct types named Item: the call site written for the first reaches the
   loader of the second; same for two enums named alike in one field. *)
Theorem C15_helper_table_refuted_same_name :
  exists regs r, ~ injective_on_type_names regs /\ In r regs /\ resolves regs r <> Some (snd r).
Proof.
  exists f9_regs, (S "Item", 1%N). destruct helper_table_refuted as (H1 & H2 & _).
  split; [exact H1|]. split; [now left|]. rewrite H2. discriminate.
Qed.
Print Assumptions C15_helper_table_refuted_same_name.

Theorem C15_type_local_refuted_same_name :
  exists regs r fi, In r regs /\ lookup_last (v1_type_local (fst r) fi) (local_table fi regs) <> Some (snd r).
Proof.
  exists f9_regs, (S "Item", 1%N), 1. destruct helper_table_refuted as (_ & _ & H3).
  split; [now left|]. cbn [fst snd]. rewrite H3. discriminate.
Qed.
Print Assumptions C15_type_local_refuted_same_name.
