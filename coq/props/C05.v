(* C05 — load returns a conforming instance or raises (default engine).
   Only statements closed by `exact`/short glue and Print Assumptions.
   Model: coq/model/CoreLoad.v (load = model of loaders.py + parsers.py),
   conformance: coq/model/CoreSchema.v. *)
From DW Require Import CoreLoad CoreLoadProofs T_CoreDumpHooks.
From Coq Require Import ZArith.

(* Full strength, every input: for EVERY annotation t over the grammar, EVERY oracle
   (stdlib behaviour), EVERY input value j whatsoever (no well-typedness hypothesis;
   outside the modelled input fragment the model answers Err, never a value), whatever
   the loader returns is a value of the annotated type - up to exactly two leniencies
   (constructors LNoneAny, LTupleShort of conforms_g true):
   a field annotated `None` keeps its input, a fixed-arity tuple may come back shorter when
   the missing members could be None.  (A third one, a Union without None passing None
   through, finding F44, was repaired in /repo f6e8c59 and is gone from the relation.) *)
Theorem C05_v0_conforms_lax :
  forall orc cfg t j v, wf_ty_g true t -> load orc cfg t j = Ok v -> conforms_g true t v.
Proof. exact load_conforms_lax. Qed.
Print Assumptions C05_v0_conforms_lax.

(* The property as stated (strict conformance) holds on the region safe_ty:
   no `None` annotation on its own, no fixed-arity tuple member may be None, no two-member Union written
   None-first (Union[None, X]: the default engine wraps the parser of its FIRST argument, NoneType).
   Missing for the full statement: exactly the three refuted cases below. *)
Theorem C05_v0_partial :
  forall orc cfg t j v, wf_ty t -> safe_ty t = true -> load orc cfg t j = Ok v -> conforms t v.
Proof. exact load_conforms_strict. Qed.
Print Assumptions C05_v0_partial.

(* Outside that region the faithful model violates the property (witnesses replayed on the
   implementation by harness/props/c05.py; findings F45, F46, F55). *)
Definition no_orc : pstr -> pv -> ores := fun _ _ => OMiss.
Definition cfg0 := mkL (S "__tag__").

(* Regression witness of the repaired finding F44: null at a Union without None is rejected,
   and still accepted when None is a member. *)
Example C05_union_none_rejected :
  load no_orc cfg0 (TUnion [TInt; TStr]) VNone = Err (ERaise (S "ParseError")) /\
  load no_orc cfg0 (TUnion [TInt; TNone; TStr]) VNone = Ok VNone.
Proof. split; reflexivity. Qed.

Theorem C05_refuted_union_none_first :
  exists t j v, wf_ty t /\ load no_orc cfg0 t j = Ok v /\ ~ conforms t v.
Proof.
  exists (TUnion [TNone; TInt]), (VStr (S "junk")), (VStr (S "junk")). split; [|split; [reflexivity|]].
  - constructor. repeat constructor.
  - intros H. inversion H as [| | | | | | | | | | | | | | |? t' ? Hin Hc| | | | | |]; subst; try discriminate.
    destruct Hin as [<-|[<-|[]]]; inversion Hc; discriminate.
Qed.
Print Assumptions C05_refuted_union_none_first.

Theorem C05_refuted_tuple_short :
  exists t j v, wf_ty t /\ load no_orc cfg0 t j = Ok v /\ ~ conforms t v.
Proof.
  exists (TTuple [TInt; TOptional TStr]), (VSeq SList true [VInt 1]), (VSeq STuple false [VInt 1]).
  split; [|split; [reflexivity|]].
  - constructor. repeat constructor.
  - intros H. inversion H as [| | | | | | | | | |? ? ? H2| | | | | | | | | | |]; subst; try discriminate.
    inversion H2 as [|? ? ? ? _ H3]; subst. inversion H3.
Qed.
Print Assumptions C05_refuted_tuple_short.

Theorem C05_refuted_none_annotation :
  exists t j v, wf_ty t /\ load no_orc cfg0 t j = Ok v /\ ~ conforms t v.
Proof.
  exists TNone, (VInt 5), (VInt 5). split; [constructor | split; [reflexivity|]].
  intros H. inversion H; discriminate.
Qed.
Print Assumptions C05_refuted_none_annotation.

(* Tie T: the load hook registry regenerated from the source is the documented one. *)
Theorem C05_load_hooks_table :
  load_hooks_v0 =
    [(S "str", S "as_str"); (S "int", S "as_int"); (S "float", S "load_to_float"); (S "bool", S "load_to_bool");
     (S "bytes", S "load_after_type_check"); (S "bytearray", S "load_after_type_check");
     (S "NoneType", S "default_load_to"); (S "Enum", S "load_to_enum"); (S "UUID", S "load_to_uuid");
     (S "set", S "load_to_iterable"); (S "frozenset", S "load_to_iterable"); (S "deque", S "load_to_iterable");
     (S "list", S "load_to_iterable"); (S "tuple", S "load_to_tuple"); (S "namedtuple", S "load_to_named_tuple_untyped");
     (S "NamedTupleMeta", S "load_to_named_tuple"); (S "defaultdict", S "load_to_defaultdict"); (S "dict", S "load_to_dict");
     (S "Decimal", S "load_to_decimal"); (S "Path", S "load_to_path"); (S "datetime", S "as_datetime");
     (S "time", S "as_time"); (S "date", S "as_date"); (S "timedelta", S "as_timedelta")].
Proof. reflexivity. Qed.
Print Assumptions C05_load_hooks_table.

(* Non-vacuity: a well-formed, safe class model and a malformed-but-accepted document. *)
Definition ex_c := mkC 1 (S "Outer") [mkF (S "my_ids") None; mkF (S "pair") (Some (S "P")); mkF (S "opt_flag") None] None.
Definition ex_t : ty :=
  TData ex_c [(TSeq SSet TInt, None); (TTuple [TStr; TBool], None); (TOptional TBool, Some VNone)].
Example C05_example_hyps : wf_ty ex_t /\ safe_ty ex_t = true.
Proof.
  split; [|reflexivity]. constructor; [|reflexivity].
  repeat (constructor; cbn [fst snd]; try (intros d Hd; inversion Hd; subst)); try reflexivity; repeat constructor.
Qed.
Example C05_example_load :
  load no_orc cfg0 ex_t
    (VDict DDict true [(VStr (S "myIds"), VSeq SList true [VInt 2; VInt 2; VInt 3]);
                       (VStr (S "P"), VSeq SList true [VNone; VInt 1]);
                       (VStr (S "junk"), VNone)])
  = Ok (VInst ex_c [VSeq SSet false [VInt 2; VInt 3]; VSeq STuple false [VStr []; VBool true]; VNone]).
Proof. reflexivity. Qed.
