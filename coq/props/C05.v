(* C05 — load returns a conforming instance or raises (default engine).
   Only statements closed by `exact`/short glue and Print Assumptions.
   Model: coq/model/CoreLoad.v (load = model of loaders.py + parsers.py),
   conformance: coq/model/CoreSchema.v. *)
From DW Require Import CoreLoad CoreLoadProofs T_CoreDumpHooks.
From Coq Require Import ZArith.

(* Full strength, every input: for EVERY annotation t over the grammar, EVERY oracle
   (stdlib behaviour), EVERY input value j whatsoever (no well-typedness hypothesis;
   outside the modelled input fragment the model answers Err, never a value), whatever
   the loader returns is a value of the annotated type - up to exactly two leniencies
   (constructors LNoneAny, LTupleShort of conforms_g true):
   a field annotated `None` keeps its input, a fixed-arity tuple may come back shorter when
   the missing members could be None.  (A third one, a Union without None passing None
   through, finding F44, was repaired in /repo f6e8c59 and is gone from the relation.) *)
Theorem C05_v0_conforms_lax :
  forall orc cfg t j v, wf_ty_g true t -> load orc cfg t j = Ok v -> conforms_g true t v.
Proof. exact load_conforms_lax. Qed.
Print Assumptions C05_v0_conforms_lax.

(* The property as stated (strict conformance) holds on the region safe_ty:
   no `None` annotation on its own, no fixed-arity tuple member may be None, no two-member Union written
   None-first (Union[None, X]: the default engine wraps the parser of its FIRST argument, NoneType).
   Missing for the full statement: exactly the three refuted cases below. *)
Theorem C05_v0_partial :
  forall orc cfg t j v, wf_ty t -> safe_ty t = true -> load orc cfg t j = Ok v -> conforms t v.
Proof. exact load_conforms_strict. Qed.
Print Assumptions C05_v0_partial.

(* Outside that region the faithful model violates the property (witnesses replayed on the
   implementation by harness/props/c05.py; findings F45, F46, F55). *)
Definition no_orc : pstr -> pv -> ores := fun _ _ => OMiss.
Definition cfg0 := mkL (S "__tag__").

(* Regression witness of the repaired finding F44: null at a Union without None is rejected,
   and still accepted when None is a member. *)
Example C05_union_none_rejected :
  load no_orc cfg0 (TUnion [TInt; TStr]) VNone = Err (ERaise (S "ParseError")) /\
  load no_orc cfg0 (TUnion [TInt; TNone; TStr]) VNone = Ok VNone.
Proof. split; reflexivity. Qed.

Theorem C05_refuted_union_none_first :
  exists t j v, wf_ty t /\ load no_orc cfg0 t j = Ok v /\ ~ conforms t v.
Proof.
  exists (TUnion [TNone; TInt]), (VStr (S "junk")), (VStr (S "junk")). split; [|split; [reflexivity|]].
  - constructor. repeat constructor.
  - intros H. inversion H as [| | | | | | | | | | | | | | |? t' ? Hin Hc| | | | | |]; subst; try discriminate.
    destruct Hin as [<-|[<-|[]]]; inversion Hc; discriminate.
Qed.
Print Assumptions C05_refuted_union_none_first.

Theorem C05_refuted_tuple_short :
  exists t j v, wf_ty t /\ load no_orc cfg0 t j = Ok v /\ ~ conforms t v.
Proof.
  exists (TTuple [TInt; TOptional TStr]), (VSeq SList true [VInt 1]), (VSeq STuple false [VInt 1]).
  split; [|split; [reflexivity|]].
  - constructor. repeat constructor.
  - intros H. inversion H as [| | | | | | | | | |? ? ? H2| | | | | | | | | | |]; subst; try discriminate.
    inversion H2 as [|? ? ? ? _ H3]; subst. inversion H3.
Qed.
Print Assumptions C05_refuted_tuple_short.

Theorem C05_refuted_none_annotation :
  exists t j v, wf_ty t /\ load no_orc cfg0 t j = Ok v /\ ~ conforms t v.
Proof.
  exists TNone, (VInt 5), (VInt 5). split; [constructor | split; [reflexivity|]].
  intros H. inversion H; discriminate.
Qed.
Print Assumptions C05_refuted_none_annotation.

(* Tie T: the load hook registry regenerated from the source is the documented one. *)
Theorem C05_load_hooks_table :
  load_hooks_v0 =
    [(S "str", S "as_str"); (S "int", S "as_int"); (S "float", S "load_to_float"); (S "bool", S "load_to_bool");
     (S "bytes", S "load_after_type_check"); (S "bytearray", S "load_after_type_check");
     (S "NoneType", S "default_load_to"); (S "Enum", S "load_to_enum"); (S "UUID", S "load_to_uuid");
     (S "set", S "load_to_iterable"); (S "frozenset", S "load_to_iterable"); (S "deque", S "load_to_iterable");
     (S "list", S "load_to_iterable"); (S "tuple", S "load_to_tuple"); (S "namedtuple", S "load_to_named_tuple_untyped");
     (S "NamedTupleMeta", S "load_to_named_tuple"); (S "defaultdict", S "load_to_defaultdict"); (S "dict", S "load_to_dict");
     (S "Decimal", S "load_to_decimal"); (S "Path", S "load_to_path"); (S "datetime", S "as_datetime");
     (S "time", S "as_time"); (S "date", S "as_date"); (S "timedelta", S "as_timedelta")].
Proof. reflexivity. Qed.
Print Assumptions C05_load_hooks_table.

(* Non-vacuity: a well-formed, safe class model and a malformed-but-accepted document. *)
Definition ex_c := mkC 1 (S "Outer") [mkF (S "my_ids") None; mkF (S "pair") (Some (S "P")); mkF (S "opt_flag") None] None.
Definition ex_t : ty :=
  TData ex_c [(TSeq SSet TInt, None); (TTuple [TStr; TBool], None); (TOptional TBool, Some VNone)].
Example C05_example_hyps : wf_ty ex_t /\ safe_ty ex_t = true.
Proof.
  split; [|reflexivity]. constructor; [|reflexivity].
  repeat (constructor; cbn [fst snd]; try (intros d Hd; inversion Hd; subst)); try reflexivity; repeat constructor.
Qed.
Example C05_example_load :
  load no_orc cfg0 ex_t
    (VDict DDict true [(VStr (S "myIds"), VSeq SList true [VInt 2; VInt 2; VInt 3]);
                       (VStr (S "P"), VSeq SList true [VNone; VInt 1]);
                       (VStr (S "junk"), VNone)])
  = Ok (VInst ex_c [VSeq SSet false [VInt 2; VInt 3]; VSeq STuple false [VStr []; VBool true]; VNone]).
Proof. reflexivity. Qed.

(* ======================================================================================
   The v1 engine.  Model: coq/model/V1Base.v V1Gen.v V1Eval.v (shared with C02 / C14: the
   loader specification `load_v1` / `load_cls` and the generated-code evaluator `run_main`);
   conformance: coq/model/V1Conf.v; proofs: coq/proofs/V1ConfProofs.v.
   (From here on `ty`, `pv`, `Ok` ... are those of V1Base.) *)
From DW Require Import PyStr V1Base V1Gen V1Errors V1Eval V1GenNames V1Conf V1ConfProofs.
From Coq Require Import List Bool.
Import ListNotations.

(* Full strength: for EVERY class table (cyclic ones included), EVERY annotation of the v1 grammar,
   EVERY behaviour of the leaf conversions that returns values of the leaf's own type (leaf_sound:
   the one premise, audited on every run on the oracle tables), EVERY budget and EVERY input value
   (no well-typedness hypothesis): whatever the v1 loader specification returns is a value of the
   annotated type - exact container kind, element types, hashable set elements and dict keys, fixed-tuple
   arity, NamedTuple, TypedDict required / declared keys, Literal by value and type, Optional,
   Union member, nested dataclass with every init field.  The strict relation, with ONE addition (dl = true):
   a field whose key is absent holds the default its class DECLARES (a declared default that is not a value
   of the annotation is the declaration, not the loader - the wf_ty hypothesis of the default engine).
   None of the leniencies of the default engine (None annotation, short tuples, Union[None, X]) exists in v1. *)
Theorem C05_v1_conforms :
  forall Or ct, leaf_sound Or ->
  forall n t v x, load_v1 Or ct n t v = Ok x -> conforms_v1 ct true n t x = true.
Proof. exact load_v1_conforms. Qed.
Print Assumptions C05_v1_conforms.

(* fromdict(cls, o) *)
Theorem C05_v1_cls_conforms :
  forall Or ct, leaf_sound Or ->
  forall n c o x, load_cls Or ct n c o = Ok x -> conforms_cls ct true n c x = true.
Proof. exact load_cls_conforms. Qed.
Print Assumptions C05_v1_cls_conforms.

(* The GENERATED CODE: generate the loader of class c, run it on any document; what it returns is a
   conforming instance.  `_partial`: under the decidable premise of compiler correctness (C02_gen_sound):
   the function names in the generator's final recursion guard are pairwise distinct - it fails only
   for two different NamedTuple / TypedDict / dataclass types of one __name__ (open finding F9 of C02). *)
Theorem C05_v1_code_conforms_partial :
  forall Or ct gn c f g, leaf_sound Or ->
  gen_main ct gn c = Ok (f, g) -> names_distinct g = true ->
  forall n o x, run_main Or ct gn n c o = Ok x -> conforms_cls ct true n c x = true.
Proof.
  intros Or ct gn c f g Hl Hg Hd.
  exact (run_main_conforms Or ct gn c f g Hl Hg (names_distinct_coherent ct gn c f g Hg Hd)).
Qed.
Print Assumptions C05_v1_code_conforms_partial.

(* the same under the weaker premise `coherent` (every guard entry's function was generated for its type) *)
Theorem C05_v1_code_conforms_coherent_partial :
  forall Or ct gn c f g, leaf_sound Or ->
  gen_main ct gn c = Ok (f, g) -> coherent g = true ->
  forall n o x, run_main Or ct gn n c o = Ok x -> conforms_cls ct true n c x = true.
Proof. exact run_main_conforms. Qed.
Print Assumptions C05_v1_code_conforms_coherent_partial.

(* The premise is decidable on the finite oracle tables the harness evaluates the model with
   (`table_sound`, printed by case_conf on every run), so on those the statement is closed. *)
Theorem C05_v1_table_oracle :
  forall tbl dt, table_sound tbl = true -> leaf_sound (table_oracle tbl dt).
Proof. exact table_sound_leaf. Qed.
Print Assumptions C05_v1_table_oracle.

(* ... and it is needed: with a leaf conversion that passes its input through, the faithful
   specification returns a non-conforming value. *)
Definition id_oracle : oracle := {| conv := fun _ _ v => Ok v; dumpleaf := fun v => v |}.
Theorem C05_v1_leaf_premise_needed :
  exists Or t v x, load_v1 Or [] 0 t v = Ok x /\ conforms_v1 [] true 0 t x = false.
Proof. exists id_oracle, (TSeq KList (TLeaf LInt)), (VSeq KList [VStr (S "a")]), (VSeq KList [VStr (S "a")]). split; reflexivity. Qed.
Print Assumptions C05_v1_leaf_premise_needed.

(* ---- non-vacuity ------------------------------------------------------------------------ *)
(* a toy oracle with the premise: int / str / bool load as themselves, a string loads as the int
   that is its length *)
Definition toy1 : oracle :=
  {| conv := fun l _ v => match l, v with
                          | LInt, VInt _ | LStr, VStr _ | LBool, VBool _ => Ok v
                          | LInt, VStr s => Ok (VInt (Z.of_nat (List.length s)))
                          | _, _ => bare "ValueError" end;
     dumpleaf := fun v => v |}.
Example C05_v1_toy_sound : leaf_sound toy1.
Proof.
  intros l o v x H. cbn in H.
  destruct l; try discriminate; destruct v; try discriminate; inversion H; subst; reflexivity.
Qed.

Definition fd1 (n : string) (t : ty) (d : option pv) : fdecl :=
  {| f_name := S n; f_ty := t; f_default := d; f_keys := [S n]; f_dkey := S n |}.
Definition tI := TLeaf LInt.
Definition tS := TLeaf LStr.
(* class 0 = Node: self-referential through Optional and a list; a Union, a Literal, a fixed tuple,
   a NamedTuple, a TypedDict with an optional key, a dict of sets, a defaulted field *)
Definition ex_ct : ctable :=
  [{| c_name := S "Node";
      c_fields := [fd1 "ident" (TUnion (TCons [] tI (TCons [] (TSeq KList tS) TNil))) None;
                   fd1 "mode" (TLit [LitStr (S "a"); LitInt 1]) None;
                   fd1 "pair" (TTuple (TCons [] tI (TCons [] (TOpt tS) TNil))) None;
                   fd1 "pt" (TNamed (S "Pt") (TCons (S "xx") tI (TCons (S "yy") tI TNil))) None;
                   fd1 "td" (TTyped (S "Td") (TCons (S "rk") tI TNil) (TCons (S "ok") tS TNil)) None;
                   fd1 "tags" (TDict None tS (TSeq KSet tI)) None;
                   fd1 "kids" (TSeq KList (TData 0)) (Some (VSeq KList []));
                   fd1 "next" (TOpt (TData 0)) (Some VNone)] |}].
Definition ex_leafdoc : pv :=
  VDict None [(VStr (S "ident"), VSeq KList [VStr (S "p")]); (VStr (S "mode"), VInt 1);
              (VStr (S "pair"), VSeq KList [VStr (S "1"); VNone; VInt 7]);
              (VStr (S "pt"), VSeq KList [VInt 1; VInt 2]);
              (VStr (S "td"), VDict None [(VStr (S "zz"), VNone); (VStr (S "rk"), VStr (S "1"))]);
              (VStr (S "tags"), VDict None [(VStr (S "k"), VSeq KList [VInt 2; VInt 2; VStr (S "1")])])].
Definition ex_doc : pv :=
  match ex_leafdoc with
  | VDict dd kvs => VDict dd (kvs ++ [(VStr (S "next"), ex_leafdoc); (VStr (S "junk"), VInt 0)])
  | v => v
  end.
Definition ex_leaf : pv :=
  VInst 0 [(S "ident", VSeq KList [VStr (S "p")]); (S "mode", VInt 1);
           (S "pair", VSeq KTuple [VInt 1; VNone]); (S "pt", VNamed (S "Pt") [VInt 1; VInt 2]);
           (S "td", VDict None [(VStr (S "rk"), VInt 1)]);
           (S "tags", VDict None [(VStr (S "k"), VSeq KSet [VInt 2; VInt 1])]);
           (S "kids", VSeq KList []); (S "next", VNone)].
(* a malformed-but-accepted document loads (coercions, extra tuple element, unknown keys, duplicates) ... *)
Example C05_v1_example_load :
  load_cls toy1 ex_ct 6 0 ex_doc =
  Ok (match ex_leaf with
      | VInst c fs => VInst c (firstn 7 fs ++ [(S "next", ex_leaf)])
      | v => v end).
Proof. vm_compute. reflexivity. Qed.
(* ... the generator's names are distinct, so the code theorem applies ... *)
Example C05_v1_example_hyps :
  exists f g, gen_main ex_ct 2 0 = Ok (f, g) /\ names_distinct g = true.
Proof. vm_compute. eexists. eexists. split; reflexivity. Qed.
(* ... and the relation is not trivially true: wrong concrete types, arity, Literal type, missing
   required key, undeclared key, wrong class are all rejected *)
Example C05_v1_conforms_rejects :
  conforms_cls ex_ct true 6 0 ex_leaf = true /\
  conforms_v1 ex_ct true 6 tI (VBool true) = false /\
  conforms_v1 ex_ct true 6 (TSeq KList tI) (VSeq KTuple [VInt 1]) = false /\
  conforms_v1 ex_ct true 6 (TTuple (TCons [] tI (TCons [] (TOpt tS) TNil))) (VSeq KTuple [VInt 1]) = false /\
  conforms_v1 ex_ct true 6 (TLit [LitInt 1]) (VBool true) = false /\
  conforms_v1 ex_ct true 6 (TUnion (TCons [] tI (TCons [] tS TNil))) VNone = false /\
  conforms_v1 ex_ct true 6 (TTyped (S "Td") (TCons (S "rk") tI TNil) (TCons (S "ok") tS TNil)) (VDict None []) = false /\
  conforms_v1 ex_ct true 6 (TTyped (S "Td") (TCons (S "rk") tI TNil) TNil)
              (VDict None [(VStr (S "rk"), VInt 1); (VStr (S "zz"), VInt 1)]) = false /\
  conforms_v1 ex_ct true 6 (TSeq KSet (TSeq KList tI)) (VSeq KSet [VSeq KList []]) = false /\
  conforms_v1 ex_ct true 6 (TData 0) (VInst 1 []) = false /\
  conforms_v1 ex_ct true 6 (TOpt (TData 0)) (VDict None []) = false /\
  (* a declared default is admitted only with dl = true, and only for its own field *)
  conforms_v1 [{| c_name := S "D"; c_fields := [fd1 "x" tI (Some VNone)] |}] true 2 (TData 0) (VInst 0 [(S "x", VNone)]) = true /\
  conforms_v1 [{| c_name := S "D"; c_fields := [fd1 "x" tI (Some VNone)] |}] false 2 (TData 0) (VInst 0 [(S "x", VNone)]) = false /\
  defaults_conformb ex_ct 6 = true.
Proof. vm_compute. repeat split. Qed.
