(* C19 — `wiz gen-schema` output imports and loads its source JSON, or fails cleanly.
   Only statements closed by `exact` / short glue / vm_compute witnesses, and Print Assumptions.
   Model: coq/model/SchemaGen.v.  Lemmas: coq/proofs/SchemaProofs.v.

   The oracle functions (naming: to_snake_case / to_pascal_case / humanize+singularize;
   string classifiers: date/time/datetime.fromisoformat, str.isnumeric, float(), int();
   identifier validity) are universally quantified in every theorem.  The `_refuted`
   theorems and the Examples use the concrete instance `W` below (StrConv's verified
   to_snake/to_pascal, ASCII digit strings, two fixed ISO strings). *)
From DW Require Import PyStr StrConv SchemaGen SchemaProofs T_SchemaTables.
From Coq Require Import Permutation.

(* ------------------------------------------------------------ lattice -- *)
(* TypeContainer.append is idempotent (for elements that are == themselves: all
   primitive types and dataclass generators). *)
Theorem C19_append_idem : forall c t, ty_eqb t t = true -> tc_append (tc_append c t) t = tc_append c t.
Proof. exact append_idem. Qed.
Print Assumptions C19_append_idem.
Example C19_append_idem_ex n r f : ty_eqb (TClass n r f) (TClass n r f) = true.
Proof. exact (ty_eqb_refl_class n r f). Qed.

(* after append the element is a member *)
Theorem C19_append_mem : forall l t, ty_eqb t t = true -> tys_mem t (tys_append l t) = true.
Proof. exact append_mem. Qed.
Print Assumptions C19_append_mem.

(* order-insensitive up to permutation (primitive members) *)
Theorem C19_append_perm : forall l p q,
  Permutation (tys_to_list (tys_append (tys_append l (TPrim p)) (TPrim q)))
              (tys_to_list (tys_append (tys_append l (TPrim q)) (TPrim p))).
Proof. exact append_perm. Qed.
Print Assumptions C19_append_perm.

(* `|` carries the is_optional flag of both sides *)
Theorem C19_or_keeps_optional : forall a b, tc_opt (tc_or a b) = tc_opt a || tc_opt b.
Proof. exact or_keeps_optional. Qed.
Print Assumptions C19_or_keeps_optional.

(* A value robustly fitting either side of an ok merge is accepted by the merged,
   union-safe container.  (R_tc = robust acceptance: the member serving the value is
   selected by exact type; it implies accepts_tc on safe containers, lemma R_accepts.) *)
Theorem C19_or_accepts :
  forall snake as_date_ok as_time_ok as_datetime_ok is_float bool_values fs int_ok a b v,
  tc_or_ok a b = true -> tc_safe fs (tc_or a b) = true ->
  R_tc snake as_date_ok as_time_ok as_datetime_ok is_float bool_values fs int_ok a v = true \/
  R_tc snake as_date_ok as_time_ok as_datetime_ok is_float bool_values fs int_ok b v = true ->
  accepts_tc snake as_date_ok as_time_ok as_datetime_ok is_float bool_values int_ok (tc_or a b) v = true.
Proof.
  intros snake d t dt fl bv fs io a b v Hok Hs H. apply (R_accepts snake d t dt fl bv fs io); [exact Hs|].
  destruct (tc_or_R snake d t dt fl bv fs io a b Hok) as [Ha Hb]. destruct H; auto.
Qed.
Print Assumptions C19_or_accepts.

(* ------------------------------------------------- the witness oracles -- *)
Definition W_snake : pstr -> pstr := to_snake.
Definition W_pascal (s : pstr) : pstr := match to_pascal s with Some x => x | None => s end.
Definition W_sing (s : pstr) : pstr :=                  (* humanize + the last singularize rule `s$` *)
  match rev (W_pascal s) with
  | c :: r => if ascii_eqb c "s"%char then rev r else W_pascal s
  | [] => []
  end.
Definition W_date (s : pstr) : bool := pstr_eqb s (S "2020-01-01").
Definition W_time (s : pstr) : bool := pstr_eqb s (S "10:00:00").
Definition W_datetime (s : pstr) : bool := false.
Definition W_isnumeric (s : pstr) : bool := match s with [] => false | _ => forallb is_digit s end.
Definition W_is_float (s : pstr) : bool := false.
Definition W_int_ok : pstr -> bool := W_isnumeric.
Definition W_keywords : list pstr := [S "class"; S "def"; S "for"; S "None"; S "True"; S "False"; S "import"; S "is"; S "not"].
Definition W_ident (s : pstr) : bool :=
  match s with
  | [] => false
  | c :: r => (is_alpha c || ascii_eqb c c_us) && forallb (fun x => is_alpha x || is_digit x || ascii_eqb x c_us) r
  end && negb (mem_str s W_keywords).
Definition W_reserved : list pstr := [S "List"; S "Optional"; S "Union"; S "Any"; S "JSONWizard"].

Definition W_infer (fs : bool) := infer_root W_snake W_pascal W_sing W_date W_time W_datetime W_isnumeric W_is_float bool_values_default fs.
Definition W_accepts := accepts_root W_snake W_date W_time W_datetime W_is_float bool_values_default W_int_ok.
Definition W_safe (fs : bool) := schema_safe W_snake W_pascal W_sing W_date W_time W_datetime W_isnumeric W_is_float
                                  bool_values_default fs W_int_ok W_ident W_reserved jsonwizard_attrs.

(* the general form of "either side accepts => the Union accepts" is false:
   date | time rejects the date string (F14e) *)
Theorem C19_or_accepts_refuted :
  exists a b v,
    accepts_tc W_snake W_date W_time W_datetime W_is_float bool_values_default W_int_ok a v = true /\
    accepts_tc W_snake W_date W_time W_datetime W_is_float bool_values_default W_int_ok (tc_or a b) v = false.
Proof.
  exists (TC (TCons (TPrim PDate) TNil) false), (TC (TCons (TPrim PTime) TNil) false), (JStr (S "2020-01-01")).
  split; vm_compute; reflexivity.
Qed.
Print Assumptions C19_or_accepts_refuted.

(* ------------------------------------------------------------ C19_loads -- *)
(* Every document inside the decidable region schema_safe is loaded by the class the
   generator marks as the JSON root: from_dict for an object root, every object element
   for an array root — for every document (any depth and width), both --force-strings
   settings and all oracle functions. *)
Theorem C19_loads :
  forall snake pascal sing as_date_ok as_time_ok as_datetime_ok isnumeric is_float bool_values fs int_ok
         ident_ok reserved root_reserved j,
  schema_safe snake pascal sing as_date_ok as_time_ok as_datetime_ok isnumeric is_float bool_values fs int_ok
              ident_ok reserved root_reserved j = true ->
  accepts_root snake as_date_ok as_time_ok as_datetime_ok is_float bool_values int_ok
    (infer_root snake pascal sing as_date_ok as_time_ok as_datetime_ok isnumeric is_float bool_values fs j) j = true.
Proof.
  intros snake pascal sing d t dt num fl bv fs io ident rs rrs j H. unfold schema_safe in H.
  apply andb_true_iff in H as [H _]. exact (loads snake d t dt fl bv fs io pascal sing num j H).
Qed.
Print Assumptions C19_loads.

Definition C19_doc_ok : json :=
  jobj [(S "a", JInt 1); (S "myKey", JStr (S "x"));
        (S "items", jarr [jobj [(S "d", JStr (S "2020-01-01")); (S "t", JStr (S "10:00:00")); (S "n", JNull)];
                          jobj [(S "d", JStr (S "2020-01-01")); (S "t", JStr (S "x")); (S "n", JFloat None (S "1.5"))]]);
        (S "o", jobj [(S "k", jarr [JInt 1; JStr (S "2"); JBool true; jarr [JInt 3]])])].
Example C19_loads_ex : W_safe false C19_doc_ok = true /\ W_accepts (W_infer false C19_doc_ok) C19_doc_ok = true.
Proof. split; vm_compute; reflexivity. Qed.
Example C19_loads_ex_array :
  let j := jarr [jobj [(S "a", JInt 1)]; JInt 5; jobj [(S "a", JNull)]] in
  W_safe true j = true /\ W_accepts (W_infer true j) j = true.
Proof. split; vm_compute; reflexivity. Qed.

(* Outside the region the faithful model refutes the property (documents found by probing;
   each is replayed on the implementation by the check). *)
Definition refuted (fs : bool) (j : json) : Prop :=
  (exists m, j = JObj m) /\ W_accepts (W_infer fs j) j = false.

(* F14b: sibling objects with different key sets — {"a":[{"k":2},{"j":3}]} *)
Theorem C19_loads_refuted_F14b : exists j, refuted false j.
Proof.
  exists (jobj [(S "a", jarr [jobj [(S "k", JInt 2)]; jobj [(S "j", JInt 3)]])]).
  split; [eexists; reflexivity|vm_compute; reflexivity].
Qed.
Print Assumptions C19_loads_refuted_F14b.
(* F14d: a dataclass next to another Union member — {"a":[1,{"k":2}]} *)
Theorem C19_loads_refuted_F14d : exists j, refuted false j.
Proof.
  exists (jobj [(S "a", jarr [JInt 1; jobj [(S "k", JInt 2)]])]).
  split; [eexists; reflexivity|vm_compute; reflexivity].
Qed.
Print Assumptions C19_loads_refuted_F14d.
(* F14e: a string served only by a non-str Union member — {"d":["2020-01-01","10:00:00"]} *)
Theorem C19_loads_refuted_F14e : exists j, refuted false j.
Proof.
  exists (jobj [(S "d", jarr [JStr (S "2020-01-01"); JStr (S "10:00:00")])]).
  split; [eexists; reflexivity|vm_compute; reflexivity].
Qed.
Print Assumptions C19_loads_refuted_F14e.
(* F14f: two List members in one Union — {"d":[[1],["x"]]} *)
Theorem C19_loads_refuted_F14f : exists j, refuted false j.
Proof.
  exists (jobj [(S "d", jarr [jarr [JInt 1]; jarr [JStr (S "x")]])]).
  split; [eexists; reflexivity|vm_compute; reflexivity].
Qed.
Print Assumptions C19_loads_refuted_F14f.

(* ------------------------------------------------- names / valid Python -- *)
(* Inside schema_safe every rendered class and field name is a valid non-keyword
   identifier, no class is named like a typing import, no root-class field is named like
   a JSONWizard attribute, and every class reference (by name; a later `class X` rebinds X)
   resolves to the declaration generated for it. *)
Theorem C19_wellformed :
  forall snake pascal sing as_date_ok as_time_ok as_datetime_ok isnumeric is_float bool_values fs int_ok
         ident_ok reserved root_reserved j,
  schema_safe snake pascal sing as_date_ok as_time_ok as_datetime_ok isnumeric is_float bool_values fs int_ok
              ident_ok reserved root_reserved j = true ->
  exists ds,
    decls_root false (infer_root snake pascal sing as_date_ok as_time_ok as_datetime_ok isnumeric is_float bool_values fs j) = Some ds /\
    (forall d, In d ds -> ident_ok (decl_name d) = true /\ mem_str (decl_name d) reserved = false /\
                          forall ka, In ka (snd d) -> ident_ok (fst ka) = true /\
                                                     (snd (fst d) = true -> mem_str (fst ka) root_reserved = false)).
Proof.
  intros snake pascal sing d t dt num fl bv fs io ident rs rrs j H. unfold schema_safe in H.
  apply andb_true_iff in H as [_ H].
  destruct (decls_root false _) as [ds|]; [|discriminate]. exists ds. split; [reflexivity|].
  exact (proj1 (names_safe_spec ident rs rrs ds H)).
Qed.
Print Assumptions C19_wellformed.

Theorem C19_names_resolve :
  forall ident_ok reserved root_reserved ds, names_safe ident_ok reserved root_reserved ds = true ->
  forall d, In d ds -> lookup_decl (decl_name d) ds = Some d.
Proof. intros i r rr ds H. exact (proj2 (names_safe_spec i r rr ds H)). Qed.
Print Assumptions C19_names_resolve.
Example C19_names_ex : exists ds, decls_root false (W_infer false C19_doc_ok) = Some ds /\ names_safe W_ident W_reserved jsonwizard_attrs ds = true.
Proof. eexists; split; vm_compute; reflexivity. Qed.

(* F14c: {"class": 1} renders the field `class` — not an identifier; {"items":[{"x":1}],"item":{"y":2}}
   (F14g) declares two classes named Item and the reference from `items` resolves to the wrong one. *)
Theorem C19_wellformed_refuted_F14c :
  exists j ds, decls_root false (W_infer false j) = Some ds /\
    exists d ka, In d ds /\ In ka (snd d) /\ W_ident (fst ka) = false.
Proof.
  exists (jobj [(S "class", JInt 1)]). eexists. split; [vm_compute; reflexivity|].
  eexists. exists (S "class", S "int"). split; [left; reflexivity|]. split; [left; reflexivity|vm_compute; reflexivity].
Qed.
Print Assumptions C19_wellformed_refuted_F14c.
Theorem C19_names_refuted_F14g :
  exists j ds d, decls_root false (W_infer false j) = Some ds /\ In d ds /\ lookup_decl (decl_name d) ds <> Some d.
Proof.
  exists (jobj [(S "items", jarr [jobj [(S "x", JInt 1)]]); (S "item", jobj [(S "y", JInt 2)])]).
  eexists. exists (S "Item", false, [(S "x", S "int")]).
  split; [vm_compute; reflexivity|]. split; [right; left; reflexivity|vm_compute; discriminate].
Qed.
Print Assumptions C19_names_refuted_F14g.

(* ---------------------------------------------------------- determinism -- *)
(* A generation (PyCodeGenerator(...) then .py_code) is a function of the document and the
   flags only: the process-global state it reads (ModuleImporter._MOD_IMPORTS, Globals, the
   bound __str__ methods) is reset/overwritten before it is read. *)
Theorem C19_deterministic :
  forall snake pascal sing as_date_ok as_time_ok as_datetime_ok isnumeric is_float bool_values st1 st2 force ex j,
  gen_run snake pascal sing as_date_ok as_time_ok as_datetime_ok isnumeric is_float bool_values st1 force ex j =
  gen_run snake pascal sing as_date_ok as_time_ok as_datetime_ok isnumeric is_float bool_values st2 force ex j.
Proof. reflexivity. Qed.
Print Assumptions C19_deterministic.

(* ----------------------------------------------------------------- CLI -- *)
(* The machine is selected by T_SchemaTables.cli_output_opened_at_parse, which the translator
   obtains from the source by calling cli.FileTypeWithExt('w') on a fresh path and looking
   whether the file exists afterwards.  On the repaired code (fix F14a, /repo 22e049c) the
   output is opened on the first write: every invalid input exits non-zero and leaves the
   output path exactly as it was, for every prior content.  If the source goes back to opening
   the file while the arguments are parsed, the table flips and this proof stops compiling. *)
Theorem C19_cli_atomic :
  forall i before, cli_valid i = false ->
  out_file (cli_run cli_output_opened_at_parse i before) = before /\
  exists n, exit_code (cli_run cli_output_opened_at_parse i before) = Some n /\ n <> 0%N.
Proof. intros i before H. split; [exact (cli_lazy_intact i before H)|exact (cli_invalid_exit false i before H)]. Qed.
Print Assumptions C19_cli_atomic.

Theorem C19_cli_valid_writes : forall eager code before, cli_run eager (InDoc code) before = CliState (Some code) (Some 0%N).
Proof. exact cli_valid_writes. Qed.
Print Assumptions C19_cli_valid_writes.

(* NOT CLAIMED about the current code — statements about the PRE-FIX machine (eager = true:
   argparse FileType('w') opened the output during parse_args), kept as the record of F14a and
   as what a regression would look like. *)
Theorem C19_prefix_cli_atomic_refuted :
  exists i before, cli_valid i = false /\ out_file (cli_run true i (Some before)) <> Some before.
Proof. exists InSyntaxError, (S "# precious"). split; [reflexivity|vm_compute; discriminate]. Qed.
Theorem C19_prefix_cli_atomic_partial :
  forall i before, cli_valid i = false ->
  (exists n, exit_code (cli_run true i before) = Some n /\ n <> 0%N) /\
  (i = InUnreadable -> out_file (cli_run true i before) = before) /\
  (i <> InUnreadable -> out_file (cli_run true i before) = Some []).
Proof.
  intros i before H. split; [exact (cli_invalid_exit true i before H)|]. split.
  - intros ->. exact (cli_unreadable_intact true before).
  - exact (cli_truncates i before H).
Qed.

(* ---------------------------------------------------------------- tie T -- *)
(* the bool-looking strings, the PyDataType members and the singularize tables regenerated
   from the source are the documented ones; the model's default table is the source's set *)
Theorem C19_tables :
  schema_bool_values = [(S "0"); (S "1"); (S "f"); (S "false"); (S "n"); (S "no"); (S "off"); (S "on"); (S "t"); (S "true"); (S "y"); (S "yes")] /\
  schema_prim_members = [((S "STRING"), (S "str")); ((S "FLOAT"), (S "float")); ((S "INT"), (S "int")); ((S "BOOL"), (S "bool")); ((S "LIST"), (S "list")); ((S "DICT"), (S "dict")); ((S "DATE"), (S "date")); ((S "DATETIME"), (S "datetime")); ((S "TIME"), (S "time")); ((S "NULL"), (S "None"))] /\
  singularize_rules = [((S "(?i)(quiz)zes$"), (S "\1")); ((S "(?i)(matr)ices$"), (S "\1ix")); ((S "(?i)(vert|ind)ices$"), (S "\1ex")); ((S "(?i)^(ox)en"), (S "\1")); ((S "(?i)(alias|status)es$"), (S "\1")); ((S "(?i)([octop|vir])i$"), (S "\1us")); ((S "(?i)(cris|ax|test)es$"), (S "\1is")); ((S "(?i)(shoe)s$"), (S "\1")); ((S "(?i)(o)es$"), (S "\1")); ((S "(?i)(bus)es$"), (S "\1")); ((S "(?i)([m|l])ice$"), (S "\1ouse")); ((S "(?i)(x|ch|ss|sh)es$"), (S "\1")); ((S "(?i)(m)ovies$"), (S "\1ovie")); ((S "(?i)(s)eries$"), (S "\1eries")); ((S "(?i)([^aeiouy]|qu)ies$"), (S "\1y")); ((S "(?i)([lr])ves$"), (S "\1f")); ((S "(?i)(tive)s$"), (S "\1")); ((S "(?i)(hive)s$"), (S "\1")); ((S "(?i)([^f])ves$"), (S "\1fe")); ((S "(?i)(^analy)ses$"), (S "\1sis")); ((S "(?i)(^analysis)$"), (S "\1")); ((S "(?i)((a)naly|(b)a|(d)iagno|(p)arenthe|(p)rogno|(s)ynop|(t)he)ses$"), (S "\1\2sis")); ((S "(?i)(^data)$"), (S "\1")); ((S "(?i)([ti])a$"), (S "\1um")); ((S "(?i)(n)ews$"), (S "\1ews")); ((S "(?i)s$"), (S ""))] /\
  singularize_uncountable = [(S "equipment"); (S "information"); (S "rice"); (S "money"); (S "species"); (S "series"); (S "fish"); (S "sheep"); (S "sms")] /\
  singularize_irregular = [((S "people"), (S "person")); ((S "men"), (S "man")); ((S "children"), (S "child")); ((S "sexes"), (S "sex")); ((S "moves"), (S "move"))] /\
  (forall a, In a [S "from_dict"; S "to_dict"; S "from_json"; S "to_json"; S "from_list"; S "list_to_json"] -> In a jsonwizard_attrs) /\
  cli_output_opened_at_parse = false.
Proof.
  repeat split; try reflexivity.
  intros a Ha. cbn in Ha. repeat (destruct Ha as [<-|Ha]; [cbn; tauto|]). destruct Ha.
Qed.
Print Assumptions C19_tables.

Theorem C19_bool_values_model :
  forall s, mem_str s bool_values_default = mem_str s schema_bool_values.
Proof.
  intros s. unfold bool_values_default, schema_bool_values. cbn [mem_str].
  repeat match goal with |- context [pstr_eqb s ?x] => generalize (pstr_eqb s x); intro end.
  repeat match goal with b : bool |- _ => destruct b end; reflexivity.
Qed.
Print Assumptions C19_bool_values_model.

(* Tie T for the ALGORITHM: the `_src` functions are what harness/tables/SchemaInferAlg.py translates
   (symbolic execution of the Python ast) from the CURRENT source text of wizard_cli/schema.py on every
   run: possible_types_for_string_value, can_be_bool and json_to_python_type.  They equal the model's
   kinds_of_string / can_be_bool / scalar_contrib for every string, every JSON scalar, every behaviour of
   the oracle classifiers and both --force-strings values, so the inference the theorems above reason
   about is the one the source spells out now. *)
From DW Require Import T_SchemaInferAlg SchemaInferSrcTie.
Theorem C19_infer_source_tie :
  forall (as_date_ok as_time_ok as_datetime_ok isnumeric is_float : pstr -> bool) (bool_values : list pstr) (fs : bool),
  (forall s, can_be_bool_src bool_values s = can_be_bool bool_values s) /\
  (forall s, kinds_of_string_src as_date_ok as_time_ok as_datetime_ok isnumeric is_float bool_values fs s
             = kinds_of_string as_date_ok as_time_ok as_datetime_ok isnumeric is_float bool_values fs s) /\
  (forall v, scalar_contrib_src as_date_ok as_time_ok as_datetime_ok isnumeric is_float bool_values fs v
             = scalar_contrib as_date_ok as_time_ok as_datetime_ok isnumeric is_float bool_values fs v).
Proof.
  intros. repeat split.
  - apply kinds_of_string_src_eq.
  - apply scalar_contrib_src_eq.
Qed.
Print Assumptions C19_infer_source_tie.
