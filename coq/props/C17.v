(* C17 — patterned dates/times parse their pattern, accept ISO and survive their dump.
   Only statements closed by `exact` and Print Assumptions.  Model: coq/model/PatModel.v.

   `iso k s` stands for <target class>.fromisoformat(s), `strp p s` for
   datetime.strptime(s, p): they are universally quantified PARAMETERS of every theorem
   (the stdlib is not modelled); facts about them appear as premises, e.g.
   `strp p (strf p v) = Some (trunc p v)` ("strptime inverts strftime at the pattern's
   precision") and `iso k (isoformat v) = Some v`.  The harness audits these premises by
   sampling with the real functions and feeds their answers to the model as oracle tables.

   History: findings F26 (default engine, time pattern containing '-' / '+': junk was not
   rejected) and F27 (v1: a pattern was not scoped to its own field) were found by this
   check and repaired in /repo (commits 29e7967, c34737b); the model is the repaired
   behaviour.  The harness keeps eight patterned fields per class, so both regressions
   are caught with concrete inputs. *)
From DW Require Import PyStr PatModel PatProofs PatAmbigProofs PatStd PatStdProofs.

Section C17.
Variable iso : kind -> pstr -> option stamp.
Variable strp : pstr -> pstr -> option stamp.
(* strftime and truncation to the pattern's precision, for the statements in the
   property's own vocabulary *)
Variable strf : pstr -> stamp -> pstr.
Variable trunc : pstr -> stamp -> stamp.
Variable isoformat : stamp -> pstr.

(* ---- a value formatted with the pattern loads to that value at the pattern's precision ---- *)
(* default engine: as the annotated class / subclass `cls`, components per target kind *)
Theorem C17_pattern :
  forall k cls p v,
  strp p (strf p v) = Some (trunc p v) ->
  iso k (iso_arg k (strf p v)) = None ->
  load0 iso strp k cls p (strf p v) = Loaded (mkv k cls (conv0 k (trunc p v))).
Proof. intros k cls p v. exact (pattern0 iso strp k cls p (strf p v) (trunc p v)). Qed.

(* time patterns containing '-' / '+' try the pattern FIRST: no ISO exception at all *)
Theorem C17_pattern_dash_time :
  forall k cls p v,
  dash_time k p = true -> strp p (strf p v) = Some (trunc p v) ->
  load0 iso strp k cls p (strf p v) = Loaded (mkv k cls (conv0 k (trunc p v))).
Proof. intros k cls p v. exact (pattern0_dash iso strp k cls p (strf p v) (trunc p v)). Qed.

(* v1, one or several patterns: the FIRST pattern (in listed order) that parses wins; the
   declared time zone (Aware / UTC variants) is attached *)
Theorem C17_pattern_v1 :
  forall k cls tzo ps1 p ps2 v,
  (forall q, In q ps1 -> strp q (strf p v) = None) ->
  strp p (strf p v) = Some (trunc p v) ->
  iso k (strf p v) = None \/ dash_time1 k (ps1 ++ p :: ps2) = true ->
  load1 iso strp k cls tzo (ps1 ++ p :: ps2) (strf p v) = Loaded (mkv k cls (conv1 k tzo (trunc p v))).
Proof. intros k cls tzo ps1 p ps2 v. exact (pattern1_first iso strp k cls tzo ps1 p ps2 (strf p v) (trunc p v)). Qed.

Theorem C17_first_match_v1 :
  forall k cls tzo ps1 p ps2 s d,
  (forall q, In q ps1 -> strp q s = None) -> strp p s = Some d ->
  iso k s = None \/ dash_time1 k (ps1 ++ p :: ps2) = true ->
  load1 iso strp k cls tzo (ps1 ++ p :: ps2) s = Loaded (mkv k cls (conv1 k tzo d)).
Proof. exact (pattern1_first iso strp). Qed.

Theorem C17_tz_attached :
  forall k z d, k <> KDate ->
  tz (conv1 k (Some z) d) = Some z /\ tz (set_tz_opt (Some z) d) = Some z.
Proof. intros k z d H. split; [now apply tz_attached_pattern | reflexivity]. Qed.

(* ---- the documented exception: a string that is also valid ISO is read as ISO ---------- *)
Theorem C17_iso_precedence :
  forall k cls p s d',
  iso k (iso_arg k s) = Some d' -> dash_time k p = false \/ strp p s = None ->
  load0 iso strp k cls p s = Loaded (mkv k cls d').
Proof. exact (iso_precedence0 iso strp). Qed.

Theorem C17_iso_precedence_v1 :
  forall k cls tzo ps s d',
  iso k s = Some d' -> dash_time1 k ps = false \/ (forall q, In q ps -> strp q s = None) ->
  load1 iso strp k cls tzo ps s = Loaded (mkv k cls (set_tz_opt tzo d')).
Proof. exact (iso_precedence1 iso strp). Qed.

(* ---- an ISO-8601 string loads as for the unpatterned type ---------------------------------- *)
Theorem C17_iso :
  forall k cls p v,
  iso k (iso_arg k (isoformat v)) = Some v ->
  (dash_time k p = true -> strp p (isoformat v) = None) ->
  load0 iso strp k cls p (isoformat v) = Loaded (mkv k cls v).
Proof.
  intros k cls p v Hi Hd. apply (iso_precedence0 iso strp k cls p (isoformat v) v Hi).
  destruct (dash_time k p); auto.
Qed.

Theorem C17_iso_v1 :
  forall k cls tzo ps v,
  iso k (isoformat v) = Some v ->
  (dash_time1 k ps = true -> forall q, In q ps -> strp q (isoformat v) = None) ->
  load1 iso strp k cls tzo ps (isoformat v) = Loaded (mkv k cls (set_tz_opt tzo v)).
Proof.
  intros k cls tzo ps v Hi Hd. apply (iso_precedence1 iso strp k cls tzo ps (isoformat v) v Hi).
  destruct (dash_time1 k ps); auto.
Qed.

(* ---- the dump (ISO-8601) loads back to an equal value ----------------------------------------- *)
(* `s'` is the dump of the loaded value: ISO for the target class, reading back the same
   components (premise on the stdlib) *)
Theorem C17_dump_load :
  forall k cls p s s' v,
  load0 iso strp k cls p s = Loaded v ->
  iso k (iso_arg k s') = Some (v_st v) ->
  (dash_time k p = true -> strp p s' = None) ->
  load0 iso strp k cls p s' = Loaded v.
Proof. exact (dump_load0 iso strp). Qed.

Theorem C17_dump_load_v1 :
  forall k cls tzo ps s s' v d',
  load1 iso strp k cls tzo ps s = Loaded v ->
  iso k s' = Some d' -> set_tz_opt tzo d' = v_st v ->
  (dash_time1 k ps = true -> forall q, In q ps -> strp q s' = None) ->
  load1 iso strp k cls tzo ps s' = Loaded v.
Proof. exact (dump_load1 iso strp). Qed.

(* ---- neither ISO nor any pattern: rejected with an error naming the patterns ----------------- *)
Theorem C17_reject_v1 :
  forall k cls tzo ps s,
  iso k s = None -> (forall q, In q ps -> strp q s = None) ->
  load1 iso strp k cls tzo ps s = ParseErr ps.
Proof. exact (reject1 iso strp). Qed.

Theorem C17_reject :
  forall k cls p s,
  iso k (iso_arg k s) = None -> strp p s = None ->
  load0 iso strp k cls p s = ParseErr [p].
Proof. exact (reject0 iso strp). Qed.

(* ---- element-wise in containers ------------------------------------------------------------------ *)
Theorem C17_elementwise :
  forall (f : pstr -> outcome) (g : pstr -> val) l,
  (forall s, In s l -> f s = Loaded (g s)) -> load_elems f l = inl (map g l).
Proof. exact elems_all. Qed.

Theorem C17_elementwise_error :
  forall (f : pstr -> outcome) l1 s l2 ps,
  (forall x, In x l1 -> exists v, f x = Loaded v) -> f s = ParseErr ps ->
  load_elems f (l1 ++ s :: l2) = inr (ParseErr ps).
Proof. exact elems_first_error. Qed.

End C17.

Print Assumptions C17_pattern.
Print Assumptions C17_pattern_dash_time.
Print Assumptions C17_pattern_v1.
Print Assumptions C17_first_match_v1.
Print Assumptions C17_tz_attached.
Print Assumptions C17_iso_precedence.
Print Assumptions C17_iso_precedence_v1.
Print Assumptions C17_iso.
Print Assumptions C17_iso_v1.
Print Assumptions C17_dump_load.
Print Assumptions C17_dump_load_v1.
Print Assumptions C17_reject_v1.
Print Assumptions C17_reject.
Print Assumptions C17_elementwise.
Print Assumptions C17_elementwise_error.

(* ---- positions: element-wise inside ANY annotated container ---------------------------------------
   `load_pos f p j`: the annotated type is a tree p (List / variadic tuple, Dict with str or
   date/time keys, fixed tuple / NamedTuple, TypedDict / nested dataclass, Optional,
   Union[leaf, non-date members], other members); f is the element loader (load0 / load1 with
   the field's patterns), applied at each date/time leaf with that leaf's kind and class. *)
Theorem C17_positions_leaf :
  forall f k c s e,
  load_pos f (PLeaf k c) (JStr s) = of_outcome (f k c s) /\
  load_pos f (PUnion e) (JStr s) = load_pos f e (JStr s) /\
  load_pos f (POpt e) (JStr s) = load_pos f e (JStr s).
Proof. intros. repeat split. Qed.
Print Assumptions C17_positions_leaf.

Theorem C17_positions_seq :
  forall f e (h : jv -> tv) l,
  (forall x, In x l -> load_pos f e x = inl (h x)) -> load_pos f (PSeq e) (JArr l) = inl (TArr (map h l)).
Proof. exact load_pos_seq_all. Qed.
Print Assumptions C17_positions_seq.

(* whatever the shape (any nesting depth): a ParseError naming patterns can only be the element
   loader's verdict on some leaf string - containers neither invent nor swallow rejections *)
Theorem C17_positions_error_origin :
  forall f p j ps, load_pos f p j = inr (TParse ps) -> exists k c s, f k c s = ParseErr ps.
Proof. exact load_pos_error_origin. Qed.
Print Assumptions C17_positions_error_origin.

(* ---- the premises are satisfiable: a concrete pattern / value / oracle ------------------------ *)
Definition ex_v : stamp := {| yr := 2022; mo := 1; dy := 3; hh := 15; mi := 45; ss := 0; us := 0; tz := None; fold := 0 |}.
Definition ex_strp (p s : pstr) : option stamp :=
  if pstr_eqb p (S "%d/%m/%Y %H.%M") && pstr_eqb s (S "03/01/2022 15.45") then Some ex_v else None.
Definition ex_iso (k : kind) (s : pstr) : option stamp :=
  if pstr_eqb s (S "2022-01-03T15:45:00") then Some ex_v else None.

Example C17_premises_hold :
  ex_strp (S "%d/%m/%Y %H.%M") (S "03/01/2022 15.45") = Some ex_v /\
  ex_iso KDateTime (iso_arg KDateTime (S "03/01/2022 15.45")) = None /\
  load0 ex_iso ex_strp KDateTime None (S "%d/%m/%Y %H.%M") (S "03/01/2022 15.45") = Loaded (mkv KDateTime None ex_v) /\
  load1 ex_iso ex_strp KDateTime (Some (S "MyDT")) (Some (TzZone (S "UTC"))) [S "%Y"; S "%d/%m/%Y %H.%M"] (S "03/01/2022 15.45")
    = Loaded (mkv KDateTime (Some (S "MyDT")) (set_tz (TzZone (S "UTC")) ex_v)) /\
  load0 ex_iso ex_strp KDateTime None (S "%d/%m/%Y %H.%M") (S "2022-01-03T15:45:00") = Loaded (mkv KDateTime None ex_v) /\
  load0 ex_iso ex_strp KDate None (S "%d/%m/%Y %H.%M") (S "junk") = ParseErr [S "%d/%m/%Y %H.%M"] /\
  load0 ex_iso ex_strp KTime (Some (S "MyTime")) (S "%H-%M") (S "zzz") = ParseErr [S "%H-%M"].
Proof. repeat split. Qed.

(* ==== the AMBIGUOUS region (strengthening round, seeded change C17-8) ==================================
   A declared pattern may ALSO parse a string that is valid ISO-8601 for the target type, with another
   meaning: '%Y-%d-%m' reads '2021-03-04' as 3 April, '%S:%M:%H' reads '05:10:12' as 12:10:05; several
   declared patterns may parse one string differently.  `pmatches strp p s` = "p also matches s",
   `first_match strp ps s` = the first listed pattern that matches (with strptime's answer),
   `ambig0` / `ambig1` = "s is valid ISO AND a declared pattern reads it as a different value".
   C17_iso_precedence / _v1 above never excluded this region (no premise on the patterns outside the
   exception); the statements below say so explicitly, delimit the exception exactly as the source does
   (`dash_time k p` = time target and '-' or '+' in the pattern; v1: in ANY pattern of the list) and
   cover dump/load for values loaded through any declared pattern. *)
Section C17_ambiguous.
Variable iso : kind -> pstr -> option stamp.
Variable strp : pstr -> pstr -> option stamp.

(* the two decision trees in the vocabulary of "matches": complete case analysis *)
Theorem C17_load_cases :
  forall k cls p s,
  load0 iso strp k cls p s =
  match (if dash_time k p then strp p s else None), iso k (iso_arg k s), strp p s with
  | Some d, _, _ => Loaded (mkv k cls (conv0 k d))
  | None, Some d', _ => Loaded (mkv k cls d')
  | None, None, Some d => Loaded (mkv k cls (conv0 k d))
  | None, None, None => ParseErr [p]
  end.
Proof. exact (load0_cases iso strp). Qed.

Theorem C17_load_cases_v1 :
  forall k cls tzo ps s,
  load1 iso strp k cls tzo ps s =
  match (if dash_time1 k ps then first_match strp ps s else None), iso k s, first_match strp ps s with
  | Some (_, d), _, _ => Loaded (mkv k cls (conv1 k tzo d))
  | None, Some d', _ => Loaded (mkv k cls (set_tz_opt tzo d'))
  | None, None, Some (_, d) => Loaded (mkv k cls (conv1 k tzo d))
  | None, None, None => ParseErr ps
  end.
Proof. exact (load1_cases iso strp). Qed.

(* a string that is valid ISO loads as ISO whatever the declared patterns make of it *)
Theorem C17_iso_wins :
  forall k cls p s d', iso k (iso_arg k s) = Some d' -> dash_time k p = false ->
  load0 iso strp k cls p s = Loaded (mkv k cls d').
Proof. exact (iso_wins0 iso strp). Qed.

Theorem C17_iso_wins_v1 :
  forall k cls tzo ps s d', iso k s = Some d' -> dash_time1 k ps = false ->
  load1 iso strp k cls tzo ps s = Loaded (mkv k cls (set_tz_opt tzo d')).
Proof. exact (iso_wins1 iso strp). Qed.

(* date and datetime targets are never in the exception *)
Theorem C17_no_exception_date_datetime :
  forall k, k <> KTime -> (forall p, dash_time k p = false) /\ (forall ps, dash_time1 k ps = false).
Proof. exact no_exception_date_datetime. Qed.

(* on an ambiguous string the result IS the ISO reading and IS NOT the pattern's reading *)
Theorem C17_ambiguous_is_iso :
  forall k cls p s, ambig0 iso strp k p s = true -> dash_time k p = false ->
  exists d d', iso k (iso_arg k s) = Some d' /\ strp p s = Some d /\
               load0 iso strp k cls p s = Loaded (mkv k cls d') /\
               load0 iso strp k cls p s <> Loaded (mkv k cls (conv0 k d)).
Proof. exact (ambig0_iso iso strp). Qed.

Theorem C17_ambiguous_is_iso_v1 :
  forall k cls tzo ps s, ambig1 iso strp k tzo ps s = true -> dash_time1 k ps = false ->
  exists p d d', iso k s = Some d' /\ first_match strp ps s = Some (p, d) /\
                 load1 iso strp k cls tzo ps s = Loaded (mkv k cls (set_tz_opt tzo d')) /\
                 load1 iso strp k cls tzo ps s <> Loaded (mkv k cls (conv1 k tzo d)).
Proof. exact (ambig1_iso iso strp). Qed.

(* the exception is EXACT: the pattern reading displaces a different ISO reading iff dash_time *)
Theorem C17_exception_exact :
  forall k cls p s d d',
  iso k (iso_arg k s) = Some d' -> strp p s = Some d -> conv0 k d <> d' ->
  (load0 iso strp k cls p s = Loaded (mkv k cls (conv0 k d)) <-> dash_time k p = true) /\
  (load0 iso strp k cls p s = Loaded (mkv k cls d') <-> dash_time k p = false).
Proof. exact (exception_exact0 iso strp). Qed.

Theorem C17_exception_exact_v1 :
  forall k cls tzo ps s p d d',
  iso k s = Some d' -> first_match strp ps s = Some (p, d) -> conv1 k tzo d <> set_tz_opt tzo d' ->
  (load1 iso strp k cls tzo ps s = Loaded (mkv k cls (conv1 k tzo d)) <-> dash_time1 k ps = true) /\
  (load1 iso strp k cls tzo ps s = Loaded (mkv k cls (set_tz_opt tzo d')) <-> dash_time1 k ps = false).
Proof. exact (exception_exact1 iso strp). Qed.

(* among the patterns: the first listed one that matches wins, whatever the later ones read *)
Theorem C17_first_match_spec :
  forall ps s p d,
  first_match strp ps s = Some (p, d) <->
  exists ps1 ps2, ps = ps1 ++ p :: ps2 /\ (forall q, In q ps1 -> strp q s = None) /\ strp p s = Some d.
Proof. exact (first_match_split strp). Qed.

Theorem C17_first_listed_wins_v1 :
  forall k cls tzo ps s p d,
  first_match strp ps s = Some (p, d) -> iso k s = None \/ dash_time1 k ps = true ->
  load1 iso strp k cls tzo ps s = Loaded (mkv k cls (conv1 k tzo d)).
Proof. exact (first_listed_wins1 iso strp). Qed.

(* dump / load for a value loaded through ANY declared pattern: outside the exception nothing is asked
   of the patterns (every one of them may parse the dump with another meaning) *)
Theorem C17_dump_load_any :
  forall k cls p s s' v,
  load0 iso strp k cls p s = Loaded v -> iso k (iso_arg k s') = Some (v_st v) -> dash_time k p = false ->
  load0 iso strp k cls p s' = Loaded v.
Proof. exact (dump_load0_any iso strp). Qed.

Theorem C17_dump_load_any_v1 :
  forall k cls tzo ps s s' v d',
  load1 iso strp k cls tzo ps s = Loaded v -> iso k s' = Some d' -> set_tz_opt tzo d' = v_st v ->
  dash_time1 k ps = false ->
  load1 iso strp k cls tzo ps s' = Loaded v.
Proof. exact (dump_load1_any iso strp). Qed.

(* inside the exception it is enough that the first pattern matching the dump reads the same value
   (weaker premise than C17_dump_load / _v1 above) *)
Theorem C17_dump_load_strong :
  forall k cls p s s' v,
  load0 iso strp k cls p s = Loaded v -> iso k (iso_arg k s') = Some (v_st v) ->
  (dash_time k p = true -> forall d, strp p s' = Some d -> conv0 k d = v_st v) ->
  load0 iso strp k cls p s' = Loaded v.
Proof. exact (dump_load0_strong iso strp). Qed.

Theorem C17_dump_load_strong_v1 :
  forall k cls tzo ps s s' v d',
  load1 iso strp k cls tzo ps s = Loaded v -> iso k s' = Some d' -> set_tz_opt tzo d' = v_st v ->
  (dash_time1 k ps = true -> forall p d, first_match strp ps s' = Some (p, d) -> conv1 k tzo d = v_st v) ->
  load1 iso strp k cls tzo ps s' = Loaded v.
Proof. exact (dump_load1_strong iso strp). Qed.

(* stdlib law: strptime matches the pattern's literal characters literally.  Under it the default
   engine's exception never reaches a dump without '-' / '+' (every dump of a naive value): dump/load
   holds for ALL patterns, ambiguous or not, exception or not. *)
Theorem C17_dump_load_plain :
  forall k cls p s s' v,
  literal_law strp -> has_dash_plus s' = false ->
  load0 iso strp k cls p s = Loaded v -> iso k (iso_arg k s') = Some (v_st v) ->
  load0 iso strp k cls p s' = Loaded v.
Proof. exact (dump_load0_plain iso strp). Qed.

(* v1: the same on the region where the exception only reaches patterns that themselves contain
   '-' / '+' (`sibling_free`); outside it /repo violates the property: C17_dump_load_v1_refuted *)
Theorem C17_dump_load_plain_v1_partial :
  forall k cls tzo ps s s' v d',
  literal_law strp -> has_dash_plus s' = false -> sibling_free k ps = true ->
  load1 iso strp k cls tzo ps s = Loaded v -> iso k s' = Some d' -> set_tz_opt tzo d' = v_st v ->
  load1 iso strp k cls tzo ps s' = Loaded v.
Proof. exact (dump_load1_plain_partial iso strp). Qed.

Theorem C17_iso_plain_v1_partial :
  forall k cls tzo ps s d',
  literal_law strp -> has_dash_plus s = false -> sibling_free k ps = true -> iso k s = Some d' ->
  load1 iso strp k cls tzo ps s = Loaded (mkv k cls (set_tz_opt tzo d')).
Proof. exact (iso_wins1_plain_partial iso strp). Qed.

End C17_ambiguous.

Print Assumptions C17_load_cases.
Print Assumptions C17_load_cases_v1.
Print Assumptions C17_iso_wins.
Print Assumptions C17_iso_wins_v1.
Print Assumptions C17_no_exception_date_datetime.
Print Assumptions C17_ambiguous_is_iso.
Print Assumptions C17_ambiguous_is_iso_v1.
Print Assumptions C17_exception_exact.
Print Assumptions C17_exception_exact_v1.
Print Assumptions C17_first_match_spec.
Print Assumptions C17_first_listed_wins_v1.
Print Assumptions C17_dump_load_any.
Print Assumptions C17_dump_load_any_v1.
Print Assumptions C17_dump_load_strong.
Print Assumptions C17_dump_load_strong_v1.
Print Assumptions C17_dump_load_plain.
Print Assumptions C17_dump_load_plain_v1_partial.
Print Assumptions C17_iso_plain_v1_partial.

(* ---- a concrete instance of the oracles: the fixed-width slice of the stdlib (PatStd.v) -------------
   strp_fix / iso_fix / isofmt: %Y %m %d %H %M %S + literals on zero-padded strings, ISO extended forms;
   compared with the real strptime / fromisoformat by the harness on every run.  The slice satisfies
   the literal law. *)
Theorem C17_slice_literal_law : literal_law strp_fix.
Proof. exact strp_fix_literal_law. Qed.
Print Assumptions C17_slice_literal_law.

(* strptime inverts strftime on the slice (any layout, any in-range value) *)
Theorem C17_slice_roundtrip :
  forall ts v, in_range ts v -> NoDup (flds ts) -> strp_toks ts (fmt_toks ts v) = finish (restrict ts v).
Proof. exact strp_toks_fmt. Qed.
Print Assumptions C17_slice_roundtrip.

(* THE AMBIGUOUS FAMILY: for every target kind, every width-preserving injective renaming sg of the
   fields of its ISO layout (day<->month, any permutation of hour/minute/second, both ...) and all
   numbers w: the pattern `fam_p` (the ISO layout with renamed fields, e.g. '%Y-%d-%m') parses the ISO
   rendering of the value v = w o sg as the value w - and both engines nevertheless load v. *)
Theorem C17_ambiguous_family :
  forall k sg w,
  (forall f, width (sg f) = width f) -> NoDup (map sg (flds (iso_toks k))) -> in_range (rename sg (lit_toks k)) w ->
  valid_stamp (fam_iso_reading k sg w) = true -> valid_stamp (fam_pat_reading k sg w) = true ->
  strp_fix (fam_p k sg) (fam_s k sg w) = Some (fam_pat_reading k sg w) /\
  iso_fix k (fam_s k sg w) = Some (kval k (fam_iso_reading k sg w)) /\
  (conv0 k (fam_pat_reading k sg w) <> kval k (fam_iso_reading k sg w) ->
   ambig0 iso_fix strp_fix k (fam_p k sg) (fam_s k sg w) = true) /\
  (forall cls, load0 iso_fix strp_fix k cls (fam_p k sg) (fam_s k sg w) = Loaded (mkv k cls (kval k (fam_iso_reading k sg w)))) /\
  (forall cls tzo ps1 ps2, dash_time1 k (ps1 ++ fam_p k sg :: ps2) = false ->
     load1 iso_fix strp_fix k cls tzo (ps1 ++ fam_p k sg :: ps2) (fam_s k sg w)
     = Loaded (mkv k cls (set_tz_opt tzo (kval k (fam_iso_reading k sg w))))).
Proof. exact ambiguous_family. Qed.
Print Assumptions C17_ambiguous_family.

(* in plain words, ALL dates: '%Y-%d-%m' reads the ISO string of y-m-d as y-d-m whenever that date
   exists (so for every day <= 12), and the ISO string still loads as y-m-d - alone or in a list *)
Theorem C17_ambiguous_dates :
  forall y m d,
  valid_stamp (dstamp y m d 0 0 0) = true -> valid_stamp (dstamp y d m 0 0 0) = true ->
  let s := isofmt KDate (fv y m d 0 0 0) in
  strp_fix (S "%Y-%d-%m") s = Some (dstamp y d m 0 0 0) /\
  iso_fix KDate s = Some (dstamp y m d 0 0 0) /\
  (m <> d -> ambig0 iso_fix strp_fix KDate (S "%Y-%d-%m") s = true) /\
  (forall cls, load0 iso_fix strp_fix KDate cls (S "%Y-%d-%m") s = Loaded (mkv KDate cls (dstamp y m d 0 0 0))) /\
  (forall cls ps1 ps2,
     load1 iso_fix strp_fix KDate cls None (ps1 ++ S "%Y-%d-%m" :: ps2) s = Loaded (mkv KDate cls (dstamp y m d 0 0 0))).
Proof. exact ambiguous_dates. Qed.
Print Assumptions C17_ambiguous_dates.

(* ALL times: '%S:%M:%H' reads the ISO string of h:mi:s as s:mi:h whenever s <= 23 *)
Theorem C17_ambiguous_times :
  forall h mi s,
  valid_stamp (dstamp 1900 1 1 h mi s) = true -> valid_stamp (dstamp 1900 1 1 s mi h) = true ->
  let x := isofmt KTime (fv 0 0 0 h mi s) in
  strp_fix (S "%S:%M:%H") x = Some (dstamp 1900 1 1 s mi h) /\
  iso_fix KTime x = Some (dstamp 0 0 0 h mi s) /\
  (h <> s -> ambig0 iso_fix strp_fix KTime (S "%S:%M:%H") x = true) /\
  (forall cls, load0 iso_fix strp_fix KTime cls (S "%S:%M:%H") x = Loaded (mkv KTime cls (dstamp 0 0 0 h mi s))) /\
  (forall cls tzo ps1 ps2, dash_time1 KTime (ps1 ++ S "%S:%M:%H" :: ps2) = false ->
     load1 iso_fix strp_fix KTime cls tzo (ps1 ++ S "%S:%M:%H" :: ps2) x
     = Loaded (mkv KTime cls (set_tz_opt tzo (dstamp 0 0 0 h mi s)))).
Proof. exact ambiguous_times. Qed.
Print Assumptions C17_ambiguous_times.

(* non-vacuity: concrete members of the family (computed) *)
Example C17_ambiguous_examples :
  (* date: day <-> month *)
  fam_p KDate sg_dm = S "%Y-%d-%m" /\ fam_s KDate sg_dm (fv 2021 4 3 0 0 0) = S "2021-03-04" /\
  strp_fix (S "%Y-%d-%m") (S "2021-03-04") = Some (dstamp 2021 4 3 0 0 0) /\
  ambig0 iso_fix strp_fix KDate (S "%Y-%d-%m") (S "2021-03-04") = true /\
  load0 iso_fix strp_fix KDate None (S "%Y-%d-%m") (S "2021-03-04") = Loaded (mkv KDate None (dstamp 2021 3 4 0 0 0)) /\
  load1 iso_fix strp_fix KDate None None [S "%Y-%d-%m"; S "%d.%m.%Y"] (S "2021-03-04") = Loaded (mkv KDate None (dstamp 2021 3 4 0 0 0)) /\
  (* a value that came in through the SECOND pattern dumps to an ISO string the FIRST pattern also parses *)
  load1 iso_fix strp_fix KDate None None [S "%Y-%d-%m"; S "%d.%m.%Y"] (S "04.03.2021") = Loaded (mkv KDate None (dstamp 2021 3 4 0 0 0)) /\
  ambig1 iso_fix strp_fix KDate None [S "%Y-%d-%m"; S "%d.%m.%Y"] (S "2021-03-04") = true /\
  (* the pattern's own strings that are not ISO are read by the pattern *)
  load0 iso_fix strp_fix KDate None (S "%Y-%d-%m") (S "2021-25-03") = Loaded (mkv KDate None (dstamp 2021 3 25 0 0 0)) /\
  (* time: seconds first *)
  fam_p KTime sg_hs = S "%S:%M:%H" /\
  ambig0 iso_fix strp_fix KTime (S "%S:%M:%H") (S "05:10:12") = true /\
  load0 iso_fix strp_fix KTime (Some (S "MyTime")) (S "%S:%M:%H") (S "05:10:12") = Loaded (mkv KTime (Some (S "MyTime")) (dstamp 0 0 0 5 10 12)) /\
  load1 iso_fix strp_fix KTime None (Some (TzZone (S "UTC"))) [S "%S:%M:%H"] (S "05:10:12")
    = Loaded (mkv KTime None (set_tz (TzZone (S "UTC")) (dstamp 0 0 0 5 10 12))) /\
  load0 iso_fix strp_fix KTime None (S "%S:%M:%H") (S "30:10:05") = Loaded (mkv KTime None (dstamp 0 0 0 5 10 30)) /\
  (* datetime: both *)
  fam_p KDateTime sg_both = S "%Y-%d-%mT%S:%M:%H" /\
  ambig1 iso_fix strp_fix KDateTime (Some (TzZone (S "UTC"))) [S "%Y-%d-%mT%S:%M:%H"] (S "2021-03-04T05:10:12") = true /\
  load1 iso_fix strp_fix KDateTime None (Some (TzZone (S "UTC"))) [S "%Y-%d-%mT%S:%M:%H"] (S "2021-03-04T05:10:12")
    = Loaded (mkv KDateTime None (set_tz (TzZone (S "UTC")) (dstamp 2021 3 4 5 10 12))).
Proof. vm_compute. repeat split. Qed.

(* ---- /repo violates the property where the v1 exception is LIST-WIDE (finding F90) --------------------
   `TimePattern['%S:%M:%H', '%H-%M']` (v1): the second pattern contains '-', so the FIRST one is tried
   before fromisoformat as well: the ISO string '05:10:12' loads as 12:10:05, and a value does not
   survive its own dump.  Witness with the slice as oracle (it satisfies the literal law, and the dump
   contains no '-' / '+'); replayed against the implementation on every run (KNOWN-FINDING). *)
Definition f90_ps : list pstr := [S "%S:%M:%H"; S "%H-%M"].

Theorem C17_dump_load_v1_refuted :
  exists k cls tzo ps s s' v d',
  literal_law strp_fix /\ has_dash_plus s' = false /\
  load1 iso_fix strp_fix k cls tzo ps s = Loaded v /\ iso_fix k s' = Some d' /\ set_tz_opt tzo d' = v_st v /\
  load1 iso_fix strp_fix k cls tzo ps s' <> Loaded v.
Proof.
  exists KTime, None, None, f90_ps, (S "12:10:05"), (S "05:10:12"), (mkv KTime None (dstamp 0 0 0 5 10 12)), (dstamp 0 0 0 5 10 12).
  split; [exact strp_fix_literal_law|]. vm_compute. repeat split; discriminate.
Qed.
Print Assumptions C17_dump_load_v1_refuted.

Theorem C17_iso_v1_refuted :
  exists k cls tzo ps v,
  literal_law strp_fix /\ has_dash_plus (isofmt k v) = false /\
  iso_fix k (isofmt k v) = Some (dstamp 0 0 0 5 10 12) /\
  load1 iso_fix strp_fix k cls tzo ps (isofmt k v) <> Loaded (mkv k cls (set_tz_opt tzo (dstamp 0 0 0 5 10 12))).
Proof.
  exists KTime, None, None, f90_ps, (fv 0 0 0 5 10 12).
  split; [exact strp_fix_literal_law|]. vm_compute. repeat split; discriminate.
Qed.
Print Assumptions C17_iso_v1_refuted.

Example C17_f90_region : sibling_free KTime f90_ps = false /\ sibling_free KTime [S "%H-%M"] = true /\
                         sibling_free KTime [S "%S:%M:%H"] = true /\ sibling_free KDate f90_ps = true.
Proof. repeat split. Qed.
