(* C17 — patterned dates/times parse their pattern, accept ISO and survive their dump.
   Only statements closed by `exact` and Print Assumptions.  Model: coq/model/PatModel.v.

   `iso k s` stands for <target class>.fromisoformat(s), `strp p s` for
   datetime.strptime(s, p): they are universally quantified PARAMETERS of every theorem
   (the stdlib is not modelled); facts about them appear as premises, e.g.
   `strp p (strf p v) = Some (trunc p v)` ("strptime inverts strftime at the pattern's
   precision") and `iso k (isoformat v) = Some v`.  The harness audits these premises by
   sampling with the real functions and feeds their answers to the model as oracle tables.

   History: findings F26 (default engine, time pattern containing '-' / '+': junk was not
   rejected) and F27 (v1: a pattern was not scoped to its own field) were found by this
   check and repaired in /repo (commits 29e7967, c34737b); the model is the repaired
   behaviour.  The harness keeps eight patterned fields per class, so both regressions
   are caught with concrete inputs. *)
From DW Require Import PyStr PatModel PatProofs.

Section C17.
Variable iso : kind -> pstr -> option stamp.
Variable strp : pstr -> pstr -> option stamp.
(* strftime and truncation to the pattern's precision, for the statements in the
   property's own vocabulary *)
Variable strf : pstr -> stamp -> pstr.
Variable trunc : pstr -> stamp -> stamp.
Variable isoformat : stamp -> pstr.

(* ---- a value formatted with the pattern loads to that value at the pattern's precision ---- *)
(* default engine: as the annotated class / subclass `cls`, components per target kind *)
Theorem C17_pattern :
  forall k cls p v,
  strp p (strf p v) = Some (trunc p v) ->
  iso k (iso_arg k (strf p v)) = None ->
  load0 iso strp k cls p (strf p v) = Loaded (mkv k cls (conv0 k (trunc p v))).
Proof. intros k cls p v. exact (pattern0 iso strp k cls p (strf p v) (trunc p v)). Qed.

(* time patterns containing '-' / '+' try the pattern FIRST: no ISO exception at all *)
Theorem C17_pattern_dash_time :
  forall k cls p v,
  dash_time k p = true -> strp p (strf p v) = Some (trunc p v) ->
  load0 iso strp k cls p (strf p v) = Loaded (mkv k cls (conv0 k (trunc p v))).
Proof. intros k cls p v. exact (pattern0_dash iso strp k cls p (strf p v) (trunc p v)). Qed.

(* v1, one or several patterns: the FIRST pattern (in listed order) that parses wins; the
   declared time zone (Aware / UTC variants) is attached *)
Theorem C17_pattern_v1 :
  forall k cls tzo ps1 p ps2 v,
  (forall q, In q ps1 -> strp q (strf p v) = None) ->
  strp p (strf p v) = Some (trunc p v) ->
  iso k (strf p v) = None \/ dash_time1 k (ps1 ++ p :: ps2) = true ->
  load1 iso strp k cls tzo (ps1 ++ p :: ps2) (strf p v) = Loaded (mkv k cls (conv1 k tzo (trunc p v))).
Proof. intros k cls tzo ps1 p ps2 v. exact (pattern1_first iso strp k cls tzo ps1 p ps2 (strf p v) (trunc p v)). Qed.

Theorem C17_first_match_v1 :
  forall k cls tzo ps1 p ps2 s d,
  (forall q, In q ps1 -> strp q s = None) -> strp p s = Some d ->
  iso k s = None \/ dash_time1 k (ps1 ++ p :: ps2) = true ->
  load1 iso strp k cls tzo (ps1 ++ p :: ps2) s = Loaded (mkv k cls (conv1 k tzo d)).
Proof. exact (pattern1_first iso strp). Qed.

Theorem C17_tz_attached :
  forall k z d, k <> KDate ->
  tz (conv1 k (Some z) d) = Some z /\ tz (set_tz_opt (Some z) d) = Some z.
Proof. intros k z d H. split; [now apply tz_attached_pattern | reflexivity]. Qed.

(* ---- the documented exception: a string that is also valid ISO is read as ISO ---------- *)
Theorem C17_iso_precedence :
  forall k cls p s d',
  iso k (iso_arg k s) = Some d' -> dash_time k p = false \/ strp p s = None ->
  load0 iso strp k cls p s = Loaded (mkv k cls d').
Proof. exact (iso_precedence0 iso strp). Qed.

Theorem C17_iso_precedence_v1 :
  forall k cls tzo ps s d',
  iso k s = Some d' -> dash_time1 k ps = false \/ (forall q, In q ps -> strp q s = None) ->
  load1 iso strp k cls tzo ps s = Loaded (mkv k cls (set_tz_opt tzo d')).
Proof. exact (iso_precedence1 iso strp). Qed.

(* ---- an ISO-8601 string loads as for the unpatterned type ---------------------------------- *)
Theorem C17_iso :
  forall k cls p v,
  iso k (iso_arg k (isoformat v)) = Some v ->
  (dash_time k p = true -> strp p (isoformat v) = None) ->
  load0 iso strp k cls p (isoformat v) = Loaded (mkv k cls v).
Proof.
  intros k cls p v Hi Hd. apply (iso_precedence0 iso strp k cls p (isoformat v) v Hi).
  destruct (dash_time k p); auto.
Qed.

Theorem C17_iso_v1 :
  forall k cls tzo ps v,
  iso k (isoformat v) = Some v ->
  (dash_time1 k ps = true -> forall q, In q ps -> strp q (isoformat v) = None) ->
  load1 iso strp k cls tzo ps (isoformat v) = Loaded (mkv k cls (set_tz_opt tzo v)).
Proof.
  intros k cls tzo ps v Hi Hd. apply (iso_precedence1 iso strp k cls tzo ps (isoformat v) v Hi).
  destruct (dash_time1 k ps); auto.
Qed.

(* ---- the dump (ISO-8601) loads back to an equal value ----------------------------------------- *)
(* `s'` is the dump of the loaded value: ISO for the target class, reading back the same
   components (premise on the stdlib) *)
Theorem C17_dump_load :
  forall k cls p s s' v,
  load0 iso strp k cls p s = Loaded v ->
  iso k (iso_arg k s') = Some (v_st v) ->
  (dash_time k p = true -> strp p s' = None) ->
  load0 iso strp k cls p s' = Loaded v.
Proof. exact (dump_load0 iso strp). Qed.

Theorem C17_dump_load_v1 :
  forall k cls tzo ps s s' v d',
  load1 iso strp k cls tzo ps s = Loaded v ->
  iso k s' = Some d' -> set_tz_opt tzo d' = v_st v ->
  (dash_time1 k ps = true -> forall q, In q ps -> strp q s' = None) ->
  load1 iso strp k cls tzo ps s' = Loaded v.
Proof. exact (dump_load1 iso strp). Qed.

(* ---- neither ISO nor any pattern: rejected with an error naming the patterns ----------------- *)
Theorem C17_reject_v1 :
  forall k cls tzo ps s,
  iso k s = None -> (forall q, In q ps -> strp q s = None) ->
  load1 iso strp k cls tzo ps s = ParseErr ps.
Proof. exact (reject1 iso strp). Qed.

Theorem C17_reject :
  forall k cls p s,
  iso k (iso_arg k s) = None -> strp p s = None ->
  load0 iso strp k cls p s = ParseErr [p].
Proof. exact (reject0 iso strp). Qed.

(* ---- element-wise in containers ------------------------------------------------------------------ *)
Theorem C17_elementwise :
  forall (f : pstr -> outcome) (g : pstr -> val) l,
  (forall s, In s l -> f s = Loaded (g s)) -> load_elems f l = inl (map g l).
Proof. exact elems_all. Qed.

Theorem C17_elementwise_error :
  forall (f : pstr -> outcome) l1 s l2 ps,
  (forall x, In x l1 -> exists v, f x = Loaded v) -> f s = ParseErr ps ->
  load_elems f (l1 ++ s :: l2) = inr (ParseErr ps).
Proof. exact elems_first_error. Qed.

End C17.

Print Assumptions C17_pattern.
Print Assumptions C17_pattern_dash_time.
Print Assumptions C17_pattern_v1.
Print Assumptions C17_first_match_v1.
Print Assumptions C17_tz_attached.
Print Assumptions C17_iso_precedence.
Print Assumptions C17_iso_precedence_v1.
Print Assumptions C17_iso.
Print Assumptions C17_iso_v1.
Print Assumptions C17_dump_load.
Print Assumptions C17_dump_load_v1.
Print Assumptions C17_reject_v1.
Print Assumptions C17_reject.
Print Assumptions C17_elementwise.
Print Assumptions C17_elementwise_error.

(* ---- positions: element-wise inside ANY annotated container ---------------------------------------
   `load_pos f p j`: the annotated type is a tree p (List / variadic tuple, Dict with str or
   date/time keys, fixed tuple / NamedTuple, TypedDict / nested dataclass, Optional,
   Union[leaf, non-date members], other members); f is the element loader (load0 / load1 with
   the field's patterns), applied at each date/time leaf with that leaf's kind and class. *)
Theorem C17_positions_leaf :
  forall f k c s e,
  load_pos f (PLeaf k c) (JStr s) = of_outcome (f k c s) /\
  load_pos f (PUnion e) (JStr s) = load_pos f e (JStr s) /\
  load_pos f (POpt e) (JStr s) = load_pos f e (JStr s).
Proof. intros. repeat split. Qed.
Print Assumptions C17_positions_leaf.

Theorem C17_positions_seq :
  forall f e (h : jv -> tv) l,
  (forall x, In x l -> load_pos f e x = inl (h x)) -> load_pos f (PSeq e) (JArr l) = inl (TArr (map h l)).
Proof. exact load_pos_seq_all. Qed.
Print Assumptions C17_positions_seq.

(* whatever the shape (any nesting depth): a ParseError naming patterns can only be the element
   loader's verdict on some leaf string - containers neither invent nor swallow rejections *)
Theorem C17_positions_error_origin :
  forall f p j ps, load_pos f p j = inr (TParse ps) -> exists k c s, f k c s = ParseErr ps.
Proof. exact load_pos_error_origin. Qed.
Print Assumptions C17_positions_error_origin.

(* ---- the premises are satisfiable: a concrete pattern / value / oracle ------------------------ *)
Definition ex_v : stamp := {| yr := 2022; mo := 1; dy := 3; hh := 15; mi := 45; ss := 0; us := 0; tz := None; fold := 0 |}.
Definition ex_strp (p s : pstr) : option stamp :=
  if pstr_eqb p (S "%d/%m/%Y %H.%M") && pstr_eqb s (S "03/01/2022 15.45") then Some ex_v else None.
Definition ex_iso (k : kind) (s : pstr) : option stamp :=
  if pstr_eqb s (S "2022-01-03T15:45:00") then Some ex_v else None.

Example C17_premises_hold :
  ex_strp (S "%d/%m/%Y %H.%M") (S "03/01/2022 15.45") = Some ex_v /\
  ex_iso KDateTime (iso_arg KDateTime (S "03/01/2022 15.45")) = None /\
  load0 ex_iso ex_strp KDateTime None (S "%d/%m/%Y %H.%M") (S "03/01/2022 15.45") = Loaded (mkv KDateTime None ex_v) /\
  load1 ex_iso ex_strp KDateTime (Some (S "MyDT")) (Some (TzZone (S "UTC"))) [S "%Y"; S "%d/%m/%Y %H.%M"] (S "03/01/2022 15.45")
    = Loaded (mkv KDateTime (Some (S "MyDT")) (set_tz (TzZone (S "UTC")) ex_v)) /\
  load0 ex_iso ex_strp KDateTime None (S "%d/%m/%Y %H.%M") (S "2022-01-03T15:45:00") = Loaded (mkv KDateTime None ex_v) /\
  load0 ex_iso ex_strp KDate None (S "%d/%m/%Y %H.%M") (S "junk") = ParseErr [S "%d/%m/%Y %H.%M"] /\
  load0 ex_iso ex_strp KTime (Some (S "MyTime")) (S "%H-%M") (S "zzz") = ParseErr [S "%H-%M"].
Proof. repeat split. Qed.
