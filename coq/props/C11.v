(* C11 — dump omits exactly the fields selected by skip rules, exclude and dump=False.
   This file holds only statements closed by `exact`/short glue and Print Assumptions.
   Model: coq/model/SkipModel.v (the behaviour after the F6 and F20 repairs);
   lemmas: coq/proofs/SkipCondProofs.v, SkipKeysProofs.v. *)
From DW Require Import PyStr SkipModel SkipCondProofs SkipKeysProofs T_CondOps.
From Coq Require Import ZArith.
Local Open Scope Z_scope.

(* ---- Tie T: the operator table of Condition.evaluate, regenerated from models.py ---- *)
Theorem C11_cond_ops_table :
  cond_op_table =
    [(S "==", S "a == b"); (S "!=", S "a != b"); (S "<", S "a < b"); (S "<=", S "a <= b");
     (S ">", S "a > b"); (S ">=", S "a >= b"); (S "is", S "a is b"); (S "is not", S "a is not b");
     (S "+", S "True if a else False"); (S "!", S "not a")] /\
  map fst cond_op_table = map cop_text all_cops /\
  cond_t_or_f = map cop_text (filter t_or_f all_cops) /\
  cond_str_format = S "f'{self.op} {self.val!r}'" /\
  map (fun a => fst (snd a)) cond_aliases = map cop_text all_cops.
Proof. repeat split; reflexivity. Qed.
Print Assumptions C11_cond_ops_table.

(* every operator key of the source table is one of the modelled operators, and conversely *)
Theorem C11_cond_ops_complete :
  forall s, In s (map fst cond_op_table) <-> exists op, cop_text op = s.
Proof.
  intro s. destruct C11_cond_ops_table as [_ [H _]]. rewrite H. split.
  - intro Hin. apply in_map_iff in Hin. destruct Hin as [op [Ho _]]. exists op. exact Ho.
  - intros [op <-]. apply in_map. destruct op; cbn; tauto.
Qed.
Print Assumptions C11_cond_ops_complete.

(* ---- the compiled condition ---- *)
(* For EVERY operator of the table, EVERY comparison value (None, bool, int, float incl. nan,
   +-inf, -0.0, str, tuple, list, dict, Enum members, objects, classes, builtin functions;
   hashable or not, finite or not) and every field value v: compiling the condition and
   evaluating the generated text on v gives exactly what Condition.evaluate gives
   (True, False or TypeError); in particular the text always compiles. *)
Theorem C11_cond_compiled :
  forall c v, compiled_sem c v = evaluate c v.
Proof. exact compiled_sem_evaluate. Qed.
Print Assumptions C11_cond_compiled.

(* the same inside any generated function: any attribute name, any closure variable name,
   any frame, any surrounding closure holding the requested entry *)
Theorem C11_cond_compiled_in_context :
  forall c var f v obj clo fr,
    lookup_str obj f = Some v -> clo_has clo c var ->
    eval_test (Env obj clo fr) (fst (compile_cond c var f)) = evaluate c v /\
    expr_bad (fst (compile_cond c var f)) = false.
Proof.
  intros c var f v obj clo fr Ho Hc. split.
  - exact (compile_cond_correct c var f v obj clo fr (cond_safe_all c) Ho Hc).
  - exact (compile_cond_not_bad c var f (cond_safe_all c)).
Qed.
Print Assumptions C11_cond_compiled_in_context.

(* Why: whatever is inlined has a repr that is an expression denoting it (lemma
   repr_roundtrip) and is tested for identity only if it is a singleton ... *)
Theorem C11_inlined_denoted :
  forall op v, inlined op v = true ->
    (forall en, eval en (repr_expr v) = Ok (fresh v)) /\
    (is_identity_op op = false \/ is_singleton v = true).
Proof.
  intros op v H. destruct (inlined_denoted op v H) as [Hr Hs]. split.
  - intro en. exact (repr_roundtrip v Hr en).
  - apply orb_true_iff in Hs. destruct Hs as [Hs|Hs]; [left|right; exact Hs].
    destruct (is_identity_op op); [discriminate Hs|reflexivity].
Qed.
Print Assumptions C11_inlined_denoted.

(* ... and everything else goes through a closure variable: unhashable values and non-finite
   floats (the former F6 region); opaque objects — object(), classes, builtin functions, Enum
   members —, tuples, and any non-singleton under `is` / `is not` (the former F20 region). *)
Theorem C11_closure_region :
  forall op v,
    hashable v = false \/ nonfinite v = true \/
    (exists k i, v = VTok k i) \/ (exists l, v = VTuple l) \/
    (is_identity_op op = true /\ builtin_singleton v = false) ->
    inlined op v = false.
Proof. exact closure_region. Qed.
Print Assumptions C11_closure_region.

(* both branches are inhabited by non-trivial values *)
Example C11_inline_examples :
  inlined OpLe (VFloat (FFin (-3) (-1))) = true /\ inlined OpEq (VStr (S "a'b")) = true /\
  inlined OpIsNot VNone = true /\ inlined OpNe (VInt (-7)) = true /\
  inlined OpIs (VInt 10000000000) = false /\ inlined OpEq (VTuple [VInt 1; VInt 2]) = false /\
  inlined OpEq (VList [VInt 1]) = false /\ inlined OpLt (VFloat FNan) = false /\
  inlined OpIs (VTok KBareObj 1) = false /\ inlined OpEq (VTok KType 0) = false.
Proof. repeat split; reflexivity. Qed.

(* The former F20 witnesses now behave like Condition.evaluate (regression anchors):
   IS(object()) on that object, EQ((nan,)) on 1, IS(10**10) on that very int. *)
Example C11_former_f20_witnesses :
  compiled_sem (Cond OpIs (LV None (VTok KBareObj 1))) (LV None (VTok KBareObj 1)) = Ok true /\
  compiled_sem (Cond OpEq (LV (Some 1) (VTuple [VFloat FNan]))) (LV (Some 2) (VInt 1)) = Ok false /\
  compiled_sem (Cond OpIs (LV (Some 7) (VInt 10000000000))) (LV (Some 7) (VInt 10000000000)) = Ok true.
Proof. repeat split; reflexivity. Qed.

(* The meaning of the generated text of a condition does not depend on where it is
   spliced: any attribute name, any closure variable name, any frame, any closure. *)
Theorem C11_cond_text_context_free :
  forall c var f v obj clo fr,
    lookup_str obj f = Some v -> clo_has clo c var ->
    eval_test (Env obj clo fr) (fst (compile_cond c var f)) = text_sem c v.
Proof. exact compile_cond_text_sem. Qed.
Print Assumptions C11_cond_text_context_free.

(* ---- the key set ---- *)
(* For every class description (any number of fields with distinct names, each with or
   without dump key (dump=False / skip=True), default, own condition), every Meta
   (skip_defaults, skip_if, skip_defaults_if), every instance, every exclude argument (None
   or any list of names) and every skip_defaults argument (unset / True / False): the
   (key, field) pairs appended by the generated cls_asdict — `_skip_i` bookkeeping, compiled
   conditions, closure variables — are exactly the reference selection computed with
   Condition.evaluate: same pairs, same order, same exception when a comparison raises. *)
Theorem C11_keys :
  forall m fs E s,
    NoDup (map f_name fs) ->
    cls_asdict m fs E s = ref_select evaluate m fs E s.
Proof. exact cls_asdict_evaluate. Qed.
Print Assumptions C11_keys.

(* the bookkeeping part alone, independent of what the condition texts mean *)
Theorem C11_keys_bookkeeping :
  forall m fs E s,
    NoDup (map f_name fs) ->
    cls_asdict m fs E s =
    if prog_bad (gen_prog m fs) then Err SyntaxError else ref_select text_sem m fs E s.
Proof. exact cls_asdict_generated. Qed.
Print Assumptions C11_keys_bookkeeping.

(* the generated function always compiles *)
Theorem C11_always_compiles : forall m fs, prog_bad (gen_prog m fs) = false.
Proof. exact gen_prog_never_bad. Qed.
Print Assumptions C11_always_compiles.

(* The reference selection read as the property states it: when no evaluated comparison
   raises, the emitted pairs are those of the fields that are dumpable, not named in E,
   not omitted as defaults (skip_defaults in force: the argument, else Meta; test
   Meta.skip_defaults_if if set, else equality with the default; only defaulted fields)
   and not selected by their own condition, else Meta.skip_if. *)
Theorem C11_ref_select_spec :
  forall csem m fs E s ks,
    NoDup (map f_name fs) ->
    ref_select csem m fs E s = Ok ks ->
    forall key name,
      In (key, name) ks <->
      exists f, In f fs /\ f_name f = name /\ f_key f = Some key /\
                excluded E f = false /\
                omit_default csem m (eff_skip_defaults m s) f = Ok false /\
                omit_cond csem m f = Ok false.
Proof. exact ref_select_spec. Qed.
Print Assumptions C11_ref_select_spec.

(* a concrete class with every feature: a defaulted field with an inlined LT condition, a
   field bound through a closure (list), a dump=False field, Meta.skip_if IS(None),
   Meta.skip_defaults_if EQ(nan), and a field with IS(10**10) holding that very object *)
Definition ex_iv (z : Z) : lval := LV (Some z) (VInt z).
Definition ex_fields : list fdesc :=
  [FD (S "fa") (Some (S "fa")) (Some (ex_iv 0)) (Some (Cond OpLt (ex_iv 5))) (ex_iv 7);
   FD (S "fb") (Some (S "fb")) None (Some (Cond OpEq (LV (Some 100) (VList [VInt 1])))) (LV (Some 101) (VList [VInt 1]));
   FD (S "fc") None (Some (ex_iv 1)) None (ex_iv 1);
   FD (S "fd") (Some (S "fd")) None None (LV None VNone);
   FD (S "fe") (Some (S "fe")) (Some (LV (Some 102) (VFloat FNan))) None (LV (Some 102) (VFloat FNan));
   FD (S "ff") (Some (S "ff")) None (Some (Cond OpIs (ex_iv 10000000000))) (ex_iv 10000000000)].
Definition ex_meta : cmeta :=
  CM false (Some (Cond OpIs (LV None VNone))) (Some (Cond OpEq (LV (Some 103) (VFloat FNan)))).

Example C11_keys_example :
  NoDup (map f_name ex_fields) /\
  cls_asdict ex_meta ex_fields None SUnset = Ok [(S "fa", S "fa"); (S "fe", S "fe")] /\
  cls_asdict ex_meta ex_fields (Some [S "fe"; S "zz"]) SFalse = Ok [(S "fa", S "fa")].
Proof.
  split; [|repeat split; reflexivity].
  repeat constructor; cbn; intuition discriminate.
Qed.
