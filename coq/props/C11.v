(* C11 — dump omits exactly the fields selected by skip rules, exclude and dump=False.
   This file holds only statements closed by `exact`/short glue and Print Assumptions.
   Model: coq/model/SkipModel.v (the behaviour after the F6 and F20 repairs);
   lemmas: coq/proofs/SkipCondProofs.v, SkipKeysProofs.v;
   the closure environment of a whole class: coq/model/SkipLocals.v, coq/proofs/SkipLocalsProofs.v. *)
From DW Require Import PyStr SkipModel SkipLocals SkipCondProofs SkipKeysProofs SkipLocalsProofs T_CondOps.
From Coq Require Import ZArith.
Local Open Scope Z_scope.

(* ---- Tie T: the operator table of Condition.evaluate, regenerated from models.py ---- *)
Theorem C11_cond_ops_table :
  cond_op_table =
    [(S "==", S "a == b"); (S "!=", S "a != b"); (S "<", S "a < b"); (S "<=", S "a <= b");
     (S ">", S "a > b"); (S ">=", S "a >= b"); (S "is", S "a is b"); (S "is not", S "a is not b");
     (S "+", S "True if a else False"); (S "!", S "not a")] /\
  map fst cond_op_table = map cop_text all_cops /\
  cond_t_or_f = map cop_text (filter t_or_f all_cops) /\
  cond_str_format = S "f'{self.op} {self.val!r}'" /\
  map (fun a => fst (snd a)) cond_aliases = map cop_text all_cops.
Proof. repeat split; reflexivity. Qed.
Print Assumptions C11_cond_ops_table.

(* every operator key of the source table is one of the modelled operators, and conversely *)
Theorem C11_cond_ops_complete :
  forall s, In s (map fst cond_op_table) <-> exists op, cop_text op = s.
Proof.
  intro s. destruct C11_cond_ops_table as [_ [H _]]. rewrite H. split.
  - intro Hin. apply in_map_iff in Hin. destruct Hin as [op [Ho _]]. exists op. exact Ho.
  - intros [op <-]. apply in_map. destruct op; cbn; tauto.
Qed.
Print Assumptions C11_cond_ops_complete.

(* ---- the compiled condition ---- *)
(* For EVERY operator of the table, EVERY comparison value (None, bool, int, float incl. nan,
   +-inf, -0.0, str, tuple, list, dict, Enum members, objects, classes, builtin functions;
   hashable or not, finite or not) and every field value v: compiling the condition and
   evaluating the generated text on v gives exactly what Condition.evaluate gives
   (True, False or TypeError); in particular the text always compiles. *)
Theorem C11_cond_compiled :
  forall c v, compiled_sem c v = evaluate c v.
Proof. exact compiled_sem_evaluate. Qed.
Print Assumptions C11_cond_compiled.

(* the same inside any generated function: any attribute name, any closure variable name,
   any frame, any surrounding closure holding the requested entry *)
Theorem C11_cond_compiled_in_context :
  forall c var f v obj clo fr,
    lookup_str obj f = Some v -> clo_has clo c var ->
    eval_test (Env obj clo fr) (fst (compile_cond c var f)) = evaluate c v /\
    expr_bad (fst (compile_cond c var f)) = false.
Proof.
  intros c var f v obj clo fr Ho Hc. split.
  - exact (compile_cond_correct c var f v obj clo fr (cond_safe_all c) Ho Hc).
  - exact (compile_cond_not_bad c var f (cond_safe_all c)).
Qed.
Print Assumptions C11_cond_compiled_in_context.

(* Why: whatever is inlined has a repr that is an expression denoting it (lemma
   repr_roundtrip) and is tested for identity only if it is a singleton ... *)
Theorem C11_inlined_denoted :
  forall op v, inlined op v = true ->
    (forall en, eval en (repr_expr v) = Ok (fresh v)) /\
    (is_identity_op op = false \/ is_singleton v = true).
Proof.
  intros op v H. destruct (inlined_denoted op v H) as [Hr Hs]. split.
  - intro en. exact (repr_roundtrip v Hr en).
  - apply orb_true_iff in Hs. destruct Hs as [Hs|Hs]; [left|right; exact Hs].
    destruct (is_identity_op op); [discriminate Hs|reflexivity].
Qed.
Print Assumptions C11_inlined_denoted.

(* ... and everything else goes through a closure variable: unhashable values and non-finite
   floats (the former F6 region); opaque objects — object(), classes, builtin functions, Enum
   members —, tuples, and any non-singleton under `is` / `is not` (the former F20 region). *)
Theorem C11_closure_region :
  forall op v,
    hashable v = false \/ nonfinite v = true \/
    (exists k i, v = VTok k i) \/ (exists l, v = VTuple l) \/
    (is_identity_op op = true /\ builtin_singleton v = false) ->
    inlined op v = false.
Proof. exact closure_region. Qed.
Print Assumptions C11_closure_region.

(* both branches are inhabited by non-trivial values *)
Example C11_inline_examples :
  inlined OpLe (VFloat (FFin (-3) (-1))) = true /\ inlined OpEq (VStr (S "a'b")) = true /\
  inlined OpIsNot VNone = true /\ inlined OpNe (VInt (-7)) = true /\
  inlined OpIs (VInt 10000000000) = false /\ inlined OpEq (VTuple [VInt 1; VInt 2]) = false /\
  inlined OpEq (VList [VInt 1]) = false /\ inlined OpLt (VFloat FNan) = false /\
  inlined OpIs (VTok KBareObj 1) = false /\ inlined OpEq (VTok KType 0) = false.
Proof. repeat split; reflexivity. Qed.

(* The former F20 witnesses now behave like Condition.evaluate (regression anchors):
   IS(object()) on that object, EQ((nan,)) on 1, IS(10**10) on that very int. *)
Example C11_former_f20_witnesses :
  compiled_sem (Cond OpIs (LV None (VTok KBareObj 1))) (LV None (VTok KBareObj 1)) = Ok true /\
  compiled_sem (Cond OpEq (LV (Some 1) (VTuple [VFloat FNan]))) (LV (Some 2) (VInt 1)) = Ok false /\
  compiled_sem (Cond OpIs (LV (Some 7) (VInt 10000000000))) (LV (Some 7) (VInt 10000000000)) = Ok true.
Proof. repeat split; reflexivity. Qed.

(* The meaning of the generated text of a condition does not depend on where it is
   spliced: any attribute name, any closure variable name, any frame, any closure. *)
Theorem C11_cond_text_context_free :
  forall c var f v obj clo fr,
    lookup_str obj f = Some v -> clo_has clo c var ->
    eval_test (Env obj clo fr) (fst (compile_cond c var f)) = text_sem c v.
Proof. exact compile_cond_text_sem. Qed.
Print Assumptions C11_cond_text_context_free.

(* ---- the key set ---- *)
(* For every class description (any number of fields with distinct names, each with or
   without dump key (dump=False / skip=True), default, own condition), every Meta
   (skip_defaults, skip_if, skip_defaults_if), every instance, every exclude argument (None
   or any list of names) and every skip_defaults argument (unset / True / False): the
   (key, field) pairs appended by the generated cls_asdict — `_skip_i` bookkeeping, compiled
   conditions, closure variables — are exactly the reference selection computed with
   Condition.evaluate: same pairs, same order, same exception when a comparison raises. *)
Theorem C11_keys :
  forall m fs E s,
    NoDup (map f_name fs) ->
    cls_asdict m fs E s = ref_select evaluate m fs E s.
Proof. exact cls_asdict_evaluate. Qed.
Print Assumptions C11_keys.

(* the bookkeeping part alone, independent of what the condition texts mean *)
Theorem C11_keys_bookkeeping :
  forall m fs E s,
    NoDup (map f_name fs) ->
    cls_asdict m fs E s =
    if prog_bad (gen_prog m fs) then Err SyntaxError else ref_select text_sem m fs E s.
Proof. exact cls_asdict_generated. Qed.
Print Assumptions C11_keys_bookkeeping.

(* the generated function always compiles *)
Theorem C11_always_compiles : forall m fs, prog_bad (gen_prog m fs) = false.
Proof. exact gen_prog_never_bad. Qed.
Print Assumptions C11_always_compiles.

(* The reference selection read as the property states it: when no evaluated comparison
   raises, the emitted pairs are those of the fields that are dumpable, not named in E,
   not omitted as defaults (skip_defaults in force: the argument, else Meta; test
   Meta.skip_defaults_if if set, else equality with the default; only defaulted fields)
   and not selected by their own condition, else Meta.skip_if. *)
Theorem C11_ref_select_spec :
  forall csem m fs E s ks,
    NoDup (map f_name fs) ->
    ref_select csem m fs E s = Ok ks ->
    forall key name,
      In (key, name) ks <->
      exists f, In f fs /\ f_name f = name /\ f_key f = Some key /\
                excluded E f = false /\
                omit_default csem m (eff_skip_defaults m s) f = Ok false /\
                omit_cond csem m f = Ok false.
Proof. exact ref_select_spec. Qed.
Print Assumptions C11_ref_select_spec.

(* a concrete class with every feature: a defaulted field with an inlined LT condition, a
   field bound through a closure (list), a dump=False field, Meta.skip_if IS(None),
   Meta.skip_defaults_if EQ(nan), and a field with IS(10**10) holding that very object *)
Definition ex_iv (z : Z) : lval := LV (Some z) (VInt z).
Definition ex_fields : list fdesc :=
  [FD (S "fa") (Some (S "fa")) (Some (ex_iv 0)) (Some (Cond OpLt (ex_iv 5))) (ex_iv 7);
   FD (S "fb") (Some (S "fb")) None (Some (Cond OpEq (LV (Some 100) (VList [VInt 1])))) (LV (Some 101) (VList [VInt 1]));
   FD (S "fc") None (Some (ex_iv 1)) None (ex_iv 1);
   FD (S "fd") (Some (S "fd")) None None (LV None VNone);
   FD (S "fe") (Some (S "fe")) (Some (LV (Some 102) (VFloat FNan))) None (LV (Some 102) (VFloat FNan));
   FD (S "ff") (Some (S "ff")) None (Some (Cond OpIs (ex_iv 10000000000))) (ex_iv 10000000000)].
Definition ex_meta : cmeta :=
  CM false (Some (Cond OpIs (LV None VNone))) (Some (Cond OpEq (LV (Some 103) (VFloat FNan)))).

Example C11_keys_example :
  NoDup (map f_name ex_fields) /\
  cls_asdict ex_meta ex_fields None SUnset = Ok [(S "fa", S "fa"); (S "fe", S "fe")] /\
  cls_asdict ex_meta ex_fields (Some [S "fe"; S "zz"]) SFalse = Ok [(S "fa", S "fa")].
Proof.
  split; [|repeat split; reflexivity].
  repeat constructor; cbn; intuition discriminate.
Qed.

(* ---- the closure environment of a whole class ---- *)
(* `_locals` is ONE dict threaded through the generator (SkipLocals.gen_st: Meta.skip_if,
   Meta.skip_defaults_if, then per field its default and its own condition, as in
   dump_func_for_dataclass); what get_skip_if_condition does with it for a value that is
   not inlined is the `binder`.  An object is an `lval`: content (`==`) and identity (`is`).

   For EVERY class — any number of fields, any mix of inlined and closure-bound conditions,
   Meta.skip_if and Meta.skip_defaults_if included, any equalities among the values of
   different conditions — and every binder that, called with a free name, makes the
   returned name denote the given object, keeps the existing entries and binds no other
   free name: every name the generated text mentions denotes, in the final `_locals`, the
   very object its condition was built with (same content AND same identity).
   Induction over the field list; invariant: the entries used so far are intact and the
   per-field names of index >= i are still free (freshness of the allocation sequence). *)
Theorem C11_locals_own_value :
  forall B, binder_sound B -> forall m fs, own_value B m fs.
Proof. exact own_value_sound. Qed.
Print Assumptions C11_locals_own_value.

(* the source (`_locals[operand_2] = skip_if.val; return f'{op} {operand_2}'`) is such a binder *)
Theorem C11_locals_source_binder :
  binder_sound bind_own /\ forall m fs, own_value bind_own m fs.
Proof. split; [exact bind_own_sound|exact own_value_bind_own]. Qed.
Print Assumptions C11_locals_source_binder.

(* Tie T for get_skip_if_condition: its early returns and the statements after them, read from
   models.py by AST on every run (harness/tables/CondOps.py), are the documented ones, and the
   statements that touch `_locals` MEAN bind_own.  A source edit that re-uses, renames or
   re-orders closure entries there changes `cond_gsc_tail` and this proof fails. *)
Theorem C11_binder_source_tie :
  cond_gsc_guards =
    [(S "skip_if is None", S "False"); (S "skip_if.t_or_f", S "True");
     (S "is_builtin(val) and (val is None or val is True or val is False or (val is ...) or (skip_if.op not in ('is', 'is not') and type(val) in (int, str, float)))",
      S "str(skip_if)")] /\
  cond_gsc_aliases = [(S "val", S "skip_if.val")] /\
  exists b, binder_of_src cond_gsc_aliases cond_gsc_tail = Some b /\
            forall l var v, b l var v = bind_own l var v.
Proof. split; [reflexivity|]. split; [reflexivity|]. eexists. split; [reflexivity|]. reflexivity. Qed.
Print Assumptions C11_binder_source_tie.

(* the threaded generator emits the statement list and the closure of SkipModel *)
Theorem C11_locals_generator :
  forall m fs, fst (gen_st bind_own m fs) = gen_prog m fs /\ gen_locals bind_own m fs = gen_closure m fs.
Proof. exact gen_st_own. Qed.
Print Assumptions C11_locals_generator.

(* Consequently, for every class, instance, E and s the function generated with the
   threaded `_locals` appends exactly the reference selection of Condition.evaluate ... *)
Theorem C11_keys_locals :
  forall m fs E s,
    NoDup (map f_name fs) ->
    cls_asdict_st bind_own m fs E s = ref_select evaluate m fs E s.
Proof. exact cls_asdict_st_evaluate. Qed.
Print Assumptions C11_keys_locals.

(* ... and when every comparison value and every field value is an identified object (a
   singleton, a token, or an object with an address) `is` / `is not` are decided by object
   identity: the selection is the one of `evaluate_id`, which has no Unspecified outcome —
   IS / IS_NOT select exactly the fields holding / not holding the condition's own object. *)
Theorem C11_keys_identity :
  forall m fs E s,
    NoDup (map f_name fs) -> cls_identified m fs = true ->
    cls_asdict_st bind_own m fs E s = ref_select evaluate_id m fs E s /\
    cls_asdict_st bind_own m fs E s <> Err Unspecified.
Proof.
  intros m fs E s Hnd Hid. split.
  - exact (cls_asdict_st_identity m fs E s Hnd Hid).
  - exact (cls_asdict_st_decided m fs E s Hnd Hid).
Qed.
Print Assumptions C11_keys_identity.

Theorem C11_evaluate_id_decided :
  (forall c v, evaluate_id c v <> Err Unspecified) /\
  (forall c v, ocond_identified (Some c) = true -> identified v = true -> evaluate c v = evaluate_id c v).
Proof. split; [exact evaluate_id_decided|exact evaluate_id_agrees]. Qed.
Print Assumptions C11_evaluate_id_decided.

(* A generator that re-uses an existing `_skip_*` local whose value `==` the new comparison
   value (one local per ==-class) violates all of this.  Witness 1: fields `fa` with IS(0)
   and `fb` with IS(0.0), the instance holding that very 0.0 in `fb`: the text of `fb` reads
   `_skip_if_0` (the int), `fb` is kept although Condition.evaluate selects it.
   Witness 2: Meta.skip_if = IS(T1) and a field with IS_NOT(T2), T1 == T2 == (1, 2) built
   separately, the field holding T2: it is dropped although Condition.evaluate keeps it. *)
Definition dd_zero_i : lval := LV (Some 1) (VInt 0).
Definition dd_zero_f : lval := LV (Some 2) (VFloat (FFin 0 0)).
Definition dd_fields1 : list fdesc :=
  [FD (S "fa") (Some (S "fa")) None (Some (Cond OpIs dd_zero_i)) (LV None VNone);
   FD (S "fb") (Some (S "fb")) None (Some (Cond OpIs dd_zero_f)) dd_zero_f].
Definition dd_meta0 : cmeta := CM false None None.
Definition dd_t1 : lval := LV (Some 11) (VTuple [VInt 1; VInt 2]).
Definition dd_t2 : lval := LV (Some 12) (VTuple [VInt 1; VInt 2]).
Definition dd_fields2 : list fdesc :=
  [FD (S "p") (Some (S "p")) None None dd_t1;
   FD (S "q") (Some (S "q")) None (Some (Cond OpIsNot dd_t2)) dd_t2].
Definition dd_meta2 : cmeta := CM false (Some (Cond OpIs dd_t1)) None.

Theorem C11_dedup_by_eq_refuted :
  ~ binder_sound bind_dedup /\
  (exists m fs, NoDup (map f_name fs) /\ cls_identified m fs = true /\ ~ own_value bind_dedup m fs /\
                exists E s, cls_asdict_st bind_dedup m fs E s <> ref_select evaluate m fs E s) /\
  cls_asdict_st bind_dedup dd_meta0 dd_fields1 None SUnset = Ok [(S "fa", S "fa"); (S "fb", S "fb")] /\
  ref_select evaluate dd_meta0 dd_fields1 None SUnset = Ok [(S "fa", S "fa")] /\
  cls_asdict_st bind_dedup dd_meta2 dd_fields2 None SUnset = Ok [] /\
  ref_select evaluate dd_meta2 dd_fields2 None SUnset = Ok [(S "q", S "q")].
Proof.
  assert (Hov : ~ own_value bind_dedup dd_meta0 dd_fields1).
  { intro H. unfold own_value in H. rewrite Forall_forall in H.
    specialize (H (NSkipIf 0, dd_zero_f)).
    assert (Hin : In (NSkipIf 0, dd_zero_f) (gen_uses bind_dedup dd_meta0 dd_fields1))
      by (vm_compute; right; left; reflexivity).
    specialize (H Hin). vm_compute in H. discriminate H. }
  split; [|split; [|repeat split; reflexivity]].
  - intro Hs. apply Hov. apply own_value_sound. exact Hs.
  - exists dd_meta0, dd_fields1. split; [|split; [reflexivity|split; [exact Hov|]]].
    + repeat constructor; cbn; intuition discriminate.
    + exists None, SUnset. vm_compute. discriminate.
Qed.
Print Assumptions C11_dedup_by_eq_refuted.

(* non-vacuity: a class with four closure-bound conditions whose values are pairwise equal
   (0 == 0.0 == False is inlined for ==, bound for `is`) but distinct objects, a Meta.skip_if
   and a Meta.skip_defaults_if among them; the source's binder gives each its own local *)
Definition ov_fields : list fdesc :=
  [FD (S "fa") (Some (S "fa")) (Some (LV (Some 20) (VInt 7))) (Some (Cond OpIs dd_zero_i)) dd_zero_f;
   FD (S "fb") (Some (S "fb")) None (Some (Cond OpIs dd_zero_f)) dd_zero_f;
   FD (S "fc") (Some (S "fc")) None None dd_t2;
   FD (S "fd") (Some (S "fd")) None (Some (Cond OpIsNot dd_t2)) dd_t2;
   FD (S "fe") (Some (S "fe")) None (Some (Cond OpEq (LV (Some 13) (VTuple [VInt 1; VInt 2])))) dd_t1].
Definition ov_meta : cmeta := CM false (Some (Cond OpIs dd_t1)) (Some (Cond OpIs (LV (Some 3) (VInt 0)))).

Example C11_locals_example :
  cls_identified ov_meta ov_fields = true /\
  map fst (gen_uses bind_own ov_meta ov_fields) =
    [NSkipValue; NSkipDefaultsValue; NSkipIf 0; NSkipIf 1; NSkipIf 3; NSkipIf 4] /\
  own_valueb bind_own ov_meta ov_fields = true /\
  map fst (gen_uses bind_dedup ov_meta ov_fields) =
    [NSkipValue; NSkipDefaultsValue; NSkipDefaultsValue; NSkipDefaultsValue; NSkipValue; NSkipValue] /\
  own_valueb bind_dedup ov_meta ov_fields = false /\
  cls_asdict_st bind_own ov_meta ov_fields None SUnset = Ok [(S "fa", S "fa"); (S "fc", S "fc"); (S "fd", S "fd")] /\
  cls_asdict_st bind_own ov_meta ov_fields None SUnset = ref_select evaluate_id ov_meta ov_fields None SUnset.
Proof. repeat split; reflexivity. Qed.
