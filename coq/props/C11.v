(* C11 — dump omits exactly the fields selected by skip rules, exclude and dump=False.
   This file holds only statements closed by `exact`/short glue and Print Assumptions.
   Model: coq/model/SkipModel.v; lemmas: coq/proofs/SkipCondProofs.v, SkipKeysProofs.v. *)
From DW Require Import PyStr SkipModel SkipCondProofs SkipKeysProofs T_CondOps.
From Coq Require Import ZArith.
Local Open Scope Z_scope.

(* ---- Tie T: the operator table of Condition.evaluate, regenerated from models.py ---- *)
Theorem C11_cond_ops_table :
  cond_op_table =
    [(S "==", S "a == b"); (S "!=", S "a != b"); (S "<", S "a < b"); (S "<=", S "a <= b");
     (S ">", S "a > b"); (S ">=", S "a >= b"); (S "is", S "a is b"); (S "is not", S "a is not b");
     (S "+", S "True if a else False"); (S "!", S "not a")] /\
  map fst cond_op_table = map cop_text all_cops /\
  cond_t_or_f = map cop_text (filter t_or_f all_cops) /\
  cond_str_format = S "f'{self.op} {self.val!r}'" /\
  map (fun a => fst (snd a)) cond_aliases = map cop_text all_cops.
Proof. repeat split; reflexivity. Qed.
Print Assumptions C11_cond_ops_table.

(* every operator key of the source table is one of the modelled operators, and conversely *)
Theorem C11_cond_ops_complete :
  forall s, In s (map fst cond_op_table) <-> exists op, cop_text op = s.
Proof.
  intro s. destruct C11_cond_ops_table as [_ [H _]]. rewrite H. split.
  - intro Hin. apply in_map_iff in Hin. destruct Hin as [op [Ho _]]. exists op. exact Ho.
  - intros [op <-]. apply in_map. destruct op; cbn; tauto.
Qed.
Print Assumptions C11_cond_ops_complete.

(* ---- the compiled condition ---- *)
(* For every operator of the table and every comparison value in the safe region
   (cond_safe: truthy/falsy tests; values bound through a closure variable, i.e. not
   is_builtin — unhashable values, nan/inf, Enum members, instances of user classes;
   inlined values whose repr is a literal denoting them — None/bool/int/str/finite
   float/tuples of those — except `is`/`is not` against a non-singleton) and every
   field value v: evaluating the generated text on v gives exactly what
   Condition.evaluate gives (True, False or TypeError).
   _partial: outside cond_safe the statement is false, see C11_cond_compiled_refuted. *)
Theorem C11_cond_compiled_partial :
  forall c v, cond_safe c = true -> compiled_sem c v = evaluate c v.
Proof. exact compiled_sem_correct. Qed.
Print Assumptions C11_cond_compiled_partial.

(* the same inside any generated function: any attribute name, any closure variable name,
   any frame *)
Theorem C11_cond_compiled_in_context :
  forall c var f v obj clo fr,
    cond_safe c = true -> lookup_str obj f = Some v -> clo_has clo c var ->
    eval_test (Env obj clo fr) (fst (compile_cond c var f)) = evaluate c v /\
    expr_bad (fst (compile_cond c var f)) = false.
Proof.
  intros c var f v obj clo fr Hs Ho Hc. split.
  - exact (compile_cond_correct c var f v obj clo fr Hs Ho Hc).
  - exact (compile_cond_not_bad c var f Hs).
Qed.
Print Assumptions C11_cond_compiled_in_context.

(* the premise is satisfiable by non-trivial conditions: an inlined negative float in a
   tuple, a closure-bound list, nan, an Enum member *)
Example C11_safe_examples :
  cond_safe (Cond OpLe (LV (Some 1) (VTuple [VInt (-3); VFloat (FFin (-3) (-1)); VStr (S "a'b")]))) = true /\
  cond_safe (Cond OpEq (LV (Some 2) (VList [VInt 1]))) = true /\
  cond_safe (Cond OpLt (LV (Some 3) (VFloat FNan))) = true /\
  cond_safe (Cond OpIs (LV None (VTok KEnum 1))) = true /\
  cond_safe (Cond OpIsNot (LV None VNone)) = true.
Proof. repeat split; reflexivity. Qed.

(* The region repaired by the F6 fix is inside the safe region: unhashable values and
   non-finite floats, with every operator. *)
Theorem C11_f6_region_safe :
  forall op cv, hashable (val cv) = false \/ nonfinite (val cv) = true -> cond_safe (Cond op cv) = true.
Proof. exact f6_region_safe. Qed.
Print Assumptions C11_f6_region_safe.

(* Residual defect F20: values that are still inlined although their repr does not denote them.
   (1) IS(object()): SyntaxError when the dump function is generated;
   (2) EQ((nan,)): NameError when the test is evaluated;
   (3) IS(x) for a non-singleton hashable builtin x (here the int 10**10) tested on x itself:
       Condition.evaluate says True, the generated `o.f is 10000000000` compares with another object. *)
Theorem C11_cond_compiled_refuted :
  (exists c v, compiled_sem c v = Err SyntaxError /\ evaluate c v = Ok true) /\
  (exists c v, compiled_sem c v = Err NameError /\ evaluate c v = Ok false) /\
  (exists c v, compiled_sem c v = Err Unspecified /\ evaluate c v = Ok true).
Proof.
  split; [|split].
  - exists (Cond OpIs (LV None (VTok KBareObj 1))), (LV None (VTok KBareObj 1)). split; reflexivity.
  - exists (Cond OpEq (LV (Some 1) (VTuple [VFloat FNan]))), (LV (Some 2) (VInt 1)). split; reflexivity.
  - exists (Cond OpIs (LV (Some 7) (VInt 10000000000))), (LV (Some 7) (VInt 10000000000)). split; reflexivity.
Qed.
Print Assumptions C11_cond_compiled_refuted.

(* ---- the key set ---- *)
(* For every class description (any number of fields with distinct names, each with or
   without key (dump=False), default, own condition), every Meta (skip_defaults, skip_if,
   skip_defaults_if), every instance, every exclude argument (None or any list of names),
   every skip_defaults argument (unset / True / False): the (key, field) pairs appended by
   the generated cls_asdict — `_skip_i` bookkeeping, compiled conditions, closure
   variables — are exactly the reference selection computed with Condition.evaluate,
   including which exception propagates when a comparison raises.
   _partial: conditions restricted to cond_safe (see above); C11_keys_refuted shows the
   statement fails outside. *)
Theorem C11_keys_partial :
  forall m fs E s,
    NoDup (map f_name fs) -> cls_safe m fs = true ->
    cls_asdict m fs E s = ref_select evaluate m fs E s.
Proof. exact cls_asdict_correct. Qed.
Print Assumptions C11_keys_partial.

(* The reference selection read as the property states it: when no evaluated comparison
   raises, the emitted pairs are those of the fields that are dumpable, not named in E,
   not omitted as defaults (skip_defaults in force: the argument, else Meta; test
   Meta.skip_defaults_if if set, else equality with the default; only defaulted fields)
   and not selected by their own condition, else Meta.skip_if. *)
Theorem C11_ref_select_spec :
  forall csem m fs E s ks,
    NoDup (map f_name fs) ->
    ref_select csem m fs E s = Ok ks ->
    forall key name,
      In (key, name) ks <->
      exists f, In f fs /\ f_name f = name /\ f_key f = Some key /\
                excluded E f = false /\
                omit_default csem m (eff_skip_defaults m s) f = Ok false /\
                omit_cond csem m f = Ok false.
Proof. exact ref_select_spec. Qed.
Print Assumptions C11_ref_select_spec.

(* a concrete class satisfying the hypotheses of C11_keys_partial, with every feature:
   a defaulted field with an inlined LT condition, a field bound through a closure (list),
   a dump=False field, Meta.skip_if IS(None), Meta.skip_defaults_if EQ(nan) *)
Definition ex_iv (z : Z) : lval := LV (Some z) (VInt z).
Definition ex_fields : list fdesc :=
  [FD (S "fa") (Some (S "fa")) (Some (ex_iv 0)) (Some (Cond OpLt (ex_iv 5))) (ex_iv 7);
   FD (S "fb") (Some (S "fb")) None (Some (Cond OpEq (LV (Some 100) (VList [VInt 1])))) (LV (Some 101) (VList [VInt 1]));
   FD (S "fc") None (Some (ex_iv 1)) None (ex_iv 1);
   FD (S "fd") (Some (S "fd")) None None (LV None VNone);
   FD (S "fe") (Some (S "fe")) (Some (LV (Some 102) (VFloat FNan))) None (LV (Some 102) (VFloat FNan))].
Definition ex_meta : cmeta :=
  CM false (Some (Cond OpIs (LV None VNone))) (Some (Cond OpEq (LV (Some 103) (VFloat FNan)))).

Example C11_keys_example :
  NoDup (map f_name ex_fields) /\ cls_safe ex_meta ex_fields = true /\
  cls_asdict ex_meta ex_fields None SUnset = Ok [(S "fa", S "fa"); (S "fe", S "fe")] /\
  cls_asdict ex_meta ex_fields (Some [S "fe"; S "zz"]) SFalse = Ok [(S "fa", S "fa")].
Proof.
  split; [|repeat split; reflexivity].
  repeat constructor; cbn; intuition discriminate.
Qed.

(* Outside the safe region the key set is wrong (or the dump raises) although the
   reference is defined: one field with IS(x), x = 10**10, holding x itself. *)
Theorem C11_keys_refuted :
  exists m fs E s,
    NoDup (map f_name fs) /\
    ref_select evaluate m fs E s = Ok [] /\
    cls_asdict m fs E s <> ref_select evaluate m fs E s.
Proof.
  exists (CM false None None),
         [FD (S "fa") (Some (S "fa")) None (Some (Cond OpIs (ex_iv 10000000000))) (ex_iv 10000000000)],
         None, SUnset.
  split; [repeat constructor; intros []|]. split; [reflexivity|]. discriminate.
Qed.
Print Assumptions C11_keys_refuted.
