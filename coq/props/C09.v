(* C09 — absent keys: defaults for optional fields, else one exact MissingFields error.
   Only statements closed by `exact` (plus Examples by computation) and Print Assumptions.
   Model: coq/model/FieldsMissing.v (both engines, `load`), specification `spec`
   written from the property text; proofs: coq/proofs/FieldsMissingProofs.v.
   All theorems are parametric in the leaf types and the leaf conversion `conv`. *)
From DW Require Import PyStr FieldsMissing FieldsMissingProofs.

Section C09.
Variables ty raw V : Type.
Variable conv : ty -> raw -> option V.
(* which (class, field) pairs are keyword-only; `kw_safe kwonly e c` is the complement of
   the region of open finding F43: it is `true` for the default engine, and for v1 says
   that no class of the tree has a REQUIRED keyword-only init field *)
Variable kwonly : pstr -> pstr -> bool.

(* For EVERY class tree (any mix of required / default / default_factory / init=False
   fields, nested dataclasses, lists of dataclasses, any depth), every complete document
   d and every document d' obtained from d by deleting ANY set of keys at ANY depth
   (no bound on the number of keys), both engines: the load of d' is what the
   specification says (identities of factory products aside, see C09_factory_fresh). *)
Theorem C09_subset_partial :
  forall e (c : cls ty V) (d d' : jv raw) n,
  wf_cls c = true -> kw_safe kwonly e c = true -> complete conv c d -> deleted d' d ->
  erase_res (fst (load conv kwonly e c d' n)) = spec conv e c d'.
Proof.
  intros e c d d' n Hwf Hkw Hc Hd. apply load_refines_spec; [exact Hwf|exact Hkw|].
  apply partial_uniq with (conv := conv). eapply deleted_partial; eauto.
Qed.

(* The same without reference to a complete document: for every document whose dicts
   have unique keys (always true of a Python dict). *)
Theorem C09_refines_partial :
  forall e (c : cls ty V) (d : jv raw) n,
  wf_cls c = true -> kw_safe kwonly e c = true -> uniq c d -> erase_res (fst (load conv kwonly e c d n)) = spec conv e c d.
Proof. intros e c d n Hwf Hkw Hu. now apply load_refines_spec. Qed.

(* What the specification says, declaratively (complete document minus deletions):
   the load succeeds exactly when no dataclass position, at whatever depth, omits a
   required init field ... *)
Theorem C09_ok_iff :
  forall e (c : cls ty V) (d d' : jv raw),
  wf_cls c = true -> complete conv c d -> deleted d' d ->
  ((exists i, spec conv e c d' = Ok i) <->
   (forall c' m', position c d' c' m' -> omitted_required (cfields c') (keys m') = [])).
Proof.
  intros e c d d' Hwf Hc Hd. apply spec_ok_iff; [exact Hwf|eapply deleted_partial; eauto].
Qed.

(* ... and a failure is a MissingFields error of ONE position (class cn' with dict m'),
   whose missing list is exactly the omitted required init fields of that position in
   declaration order (never an init=False field: `omitted_required` filters on init),
   passed up unchanged from whatever depth. *)
Theorem C09_error_exact :
  forall e (c : cls ty V) (d d' : jv raw) er,
  wf_cls c = true -> complete conv c d -> deleted d' d ->
  spec conv e c d' = Err er ->
  exists cn' fs' m' provided,
    position c d' (Cls cn' fs') m' /\
    omitted_required fs' (keys m') <> [] /\
    er = EMissingFields cn' provided (omitted_required fs' (keys m')).
Proof.
  intros e c d d' er Hwf Hc Hd. apply spec_error_exact; [exact Hwf|eapply deleted_partial; eauto].
Qed.

(* The property text literally, for a key SET S deleted at the top level of a complete
   document: no required field in S -> an instance where every kept init field holds its
   loaded value and every other field its default (None = attribute unset: init=False
   without default); otherwise MissingFields(cls, exactly the required init fields in S,
   in declaration order). *)
Theorem C09_subset_top_partial :
  forall e cn (fs : list (fdecl ty V (cls ty V))) (m : list (pstr * jv raw)) (S : list pstr) n,
  wf_cls (Cls cn fs) = true -> kw_safe kwonly e (Cls cn fs) = true ->
  complete conv (Cls cn fs) (JDict m) ->
  match required_in fs S with
  | [] => exists attrs,
      erase_res (fst (load conv kwonly e (Cls cn fs) (JDict (remove_keys S m)) n)) = Ok (PInst cn attrs) /\
      forall f, In f fs ->
        (finit f = true -> mem_str (fname f) S = false ->
           exists v x, assoc (fname f) m = Some v /\
                       spec_kind conv (spec conv e) cn (fname f) (fkind f) v = Ok x /\
                       assoc (fname f) attrs = Some x) /\
        (finit f = false \/ mem_str (fname f) S = true ->
           assoc (fname f) attrs = default_slot (fdef f))
  | ms => exists provided,
      fst (load conv kwonly e (Cls cn fs) (JDict (remove_keys S m)) n) = Err (EMissingFields cn provided ms)
  end.
Proof. intros. now apply subset_top. Qed.

(* default_factory products are fresh: within one load all identities are distinct and
   lie in [n, n'), so two successive loads never share a product. *)
Theorem C09_factory_fresh :
  forall e (c : cls ty V) (d1 d2 : jv raw) n v1 n1 v2 n2,
  wf_cls c = true ->
  load conv kwonly e c d1 n = (Ok v1, n1) -> load conv kwonly e c d2 n1 = (Ok v2, n2) ->
  NoDup (ids v1 ++ ids v2).
Proof. intros. eapply two_loads_fresh; eauto. Qed.

End C09.

Print Assumptions C09_subset_partial.
Print Assumptions C09_refines_partial.
Print Assumptions C09_ok_iff.
Print Assumptions C09_error_exact.
Print Assumptions C09_subset_top_partial.
Print Assumptions C09_factory_fresh.

(* ---- non-vacuity: a concrete class tree, a complete document, a deletion ------------- *)
Definition xconv (t r : pstr) : option pstr := Some r.
Definition xkw (cn fn : pstr) : bool := false.          (* no keyword-only field *)
Definition XInner : cls pstr pstr :=
  Cls (S "Inner") [FD (S "p") Required true (KLeaf (S "int"));
                   FD (S "q") (Default (S "5")) true (KLeaf (S "int"));
                   FD (S "r") (Factory 1%N) true (KLeaf (S "list"))].
Definition XOuter : cls pstr pstr :=
  Cls (S "Outer") [FD (S "a") Required true (KLeaf (S "int"));
                   FD (S "inn") Required true (KNested XInner);
                   FD (S "items") Required true (KList XInner);
                   FD (S "b") (Default (S "3")) true (KLeaf (S "int"));
                   FD (S "c") (Factory 2%N) true (KLeaf (S "list"));
                   FD (S "z") Required false (KLeaf (S "int"));
                   FD (S "w") (Default (S "9")) false (KLeaf (S "int"))].
Definition xa (s : string) : jv pstr := JAtom (S s).
Definition xinner_full : jv pstr := JDict [(S "p", xa "1"); (S "q", xa "2"); (S "r", xa "[]")].
Definition xfull : jv pstr :=
  JDict [(S "a", xa "1"); (S "inn", xinner_full); (S "items", JList [xinner_full; xinner_full]);
         (S "b", xa "2"); (S "c", xa "[1]")].
(* delete b and c at the top, q and r inside inn, p inside items[1] *)
Definition xdel : jv pstr :=
  JDict [(S "a", xa "1"); (S "inn", JDict [(S "p", xa "1")]);
         (S "items", JList [xinner_full; JDict [(S "q", xa "2"); (S "r", xa "[]")]])].

Example C09_example_wf : wf_cls XOuter = true.
Proof. vm_compute. reflexivity. Qed.

Lemma xinner_complete : complete xconv XInner xinner_full.
Proof.
  constructor.
  - repeat constructor; cbn; intuition discriminate.
  - intro k. cbn. tauto.
  - intros f v Hf I E. cbn in Hf. destruct Hf as [<-|[<-|[<-|[]]]]; cbn in E; injection E as <-;
      econstructor; reflexivity.
Qed.

Example C09_example_complete : complete xconv XOuter xfull.
Proof.
  constructor.
  - repeat constructor; cbn; intuition discriminate.
  - intro k. cbn. tauto.
  - intros f v Hf I E. cbn in Hf.
    destruct Hf as [<-|[<-|[<-|[<-|[<-|[<-|[<-|[]]]]]]]]; cbn in E, I; try discriminate; injection E as <-.
    + econstructor; reflexivity.
    + constructor. apply xinner_complete.
    + constructor. intros v [<-|[<-|[]]]; apply xinner_complete.
    + econstructor; reflexivity.
    + econstructor; reflexivity.
Qed.

Example C09_example_deleted : deleted xdel xfull.
Proof.
  constructor. apply si_keep; [constructor|]. apply si_keep.
  { constructor. apply si_keep; [constructor|]. apply si_drop. apply si_drop. constructor. }
  apply si_keep.
  { constructor. constructor; [apply deleted_refl|]. constructor; [|constructor].
    constructor. apply si_drop. apply si_keep; [constructor|]. apply si_keep; [constructor|]. constructor. }
  apply si_drop. apply si_drop. constructor.
Qed.

(* on that document the first failing position in each engine's order is items[1] *)
Example C09_example_outcome :
  fst (load xconv xkw V0 XOuter xdel 0%N) = Err (EMissingFields (S "Inner") [S "q"; S "r"] [S "p"]) /\
  fst (load xconv xkw V1 XOuter xdel 0%N) = Err (EMissingFields (S "Inner") [] [S "p"]).
Proof. split; vm_compute; reflexivity. Qed.

(* and deleting only defaulted keys succeeds with fresh factory products *)
Example C09_example_defaults :
  fst (load xconv xkw V1 XOuter (JDict [(S "a", xa "1"); (S "inn", JDict [(S "p", xa "1")]); (S "items", JList [])]) 0%N)
  = Ok (PInst (S "Outer")
         [(S "a", PVal (S "1"));
          (S "inn", PInst (S "Inner") [(S "p", PVal (S "1")); (S "q", PVal (S "5")); (S "r", PFac 1%N 0%N)]);
          (S "items", PList []); (S "b", PVal (S "3")); (S "c", PFac 2%N 1%N); (S "w", PVal (S "9"))]).
Proof. vm_compute. reflexivity. Qed.

Example C09_example_kw_safe : kw_safe xkw V1 XOuter = true /\ kw_safe xkw V0 XOuter = true.
Proof. split; vm_compute; reflexivity. Qed.

(* ---- F43 (open): v1 and a required keyword-only field ------------------------------------
   class A: a: int; k: int = field(kw_only=True).  The COMPLETE document {a, k} has no
   omission, the specification (and the default engine) return the instance, but the v1
   loader calls A(__a, __k) and a bare TypeError escapes. *)
Definition KA : cls pstr pstr :=
  Cls (S "A") [FD (S "a") Required true (KLeaf (S "int")); FD (S "k") Required true (KLeaf (S "int"))].
Definition kkw (cn fn : pstr) : bool := pstr_eqb fn (S "k").
Definition kdoc : jv pstr := JDict [(S "a", xa "1"); (S "k", xa "5")].

Theorem C09_v1_refuted_kwonly :
  exists (c : cls pstr pstr) (kw : pstr -> pstr -> bool) (d : jv pstr),
    wf_cls c = true /\ kw_safe kw V1 c = false /\ complete xconv c d /\
    spec xconv V1 c d = Ok (PInst (S "A") [(S "a", PVal (S "1")); (S "k", PVal (S "5"))]) /\
    fst (load xconv kw V0 c d 0%N) = Ok (PInst (S "A") [(S "a", PVal (S "1")); (S "k", PVal (S "5"))]) /\
    fst (load xconv kw V1 c d 0%N) = Err (EBareType (S "A")).
Proof.
  exists KA, kkw, kdoc. split; [vm_compute; reflexivity|]. split; [vm_compute; reflexivity|]. split.
  - constructor.
    + repeat constructor; cbn; intuition discriminate.
    + intro k. cbn. tauto.
    + intros f v Hf I E. cbn in Hf. destruct Hf as [<-|[<-|[]]]; cbn in E; injection E as <-;
        econstructor; reflexivity.
  - repeat split; vm_compute; reflexivity.
Qed.
Print Assumptions C09_v1_refuted_kwonly.

(* Tie T for the ALGORITHM: the `_src` filters are translated by harness/tables/MissingFieldsAlg.py from
   the CURRENT source text of errors.py (MissingFields.__init__, both branches) and v1/loaders.py
   (check_and_raise_missing_fields) on every run; they equal the model's v0_missing / v1_provided /
   v1_missing for every field list (any mix of required / default / factory / init=False fields) and
   every key list, so "lists exactly the required init fields that are absent" is a statement about the
   comprehensions the source spells out now. *)
From DW Require Import T_MissingFieldsAlg FieldsMissingSrcTie.
Theorem C09_missing_source_tie :
  forall (ty V C : Type) (fs : list (fdecl ty V C)),
    (forall provided, v0_missing_src fs provided = v0_missing fs provided) /\
    (forall missing, v1_provided_src fs missing = v1_provided fs missing) /\
    (forall bound, v1_missing_src fs bound = v1_missing fs bound).
Proof.
  intros ty V C fs. split; [|split].
  - intro provided. apply v0_missing_src_eq.
  - intro missing. apply v1_provided_src_eq.
  - intro bound. apply v1_missing_src_eq.
Qed.
Print Assumptions C09_missing_source_tie.
