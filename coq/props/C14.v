(* C14 — v1 load failures are library errors that name the innermost class and field.
   Statements only + Print Assumptions.  Model: coq/model/V1Errors.v (error values,
   once-only setters, re_raise), V1Eval.v (class skeleton, load_v1, locate);
   proofs: coq/proofs/V1ErrProofs.v (+ V1GenSound.v for the generated code).
   Call histories (function table shared by both engines, Meta bindings, the function a
   nested position calls): coq/model/V1ErrHist.v, coq/proofs/V1ErrHistProofs.v. *)
From DW Require Import PyStr V1Base V1Gen V1Errors V1Eval V1GenInv V1GenSound V1ErrProofs V1ErrHist V1ErrHistProofs.
From Coq Require Import ZArith List Bool.
Import ListNotations.

(* Every failing load of a known class is a JSONWizardError-derived error.  (XFuel / XOracle
   are the two markers of the MODEL — exhausted budget, missing oracle entry — not Python
   exceptions; they are never turned into a library error or a pass.)  The proof enumerates
   the statements of the generated function: the field block is inside
   `try/except Exception -> re_raise`; non-dict input makes `o.get` fail INSIDE that try;
   the constructor call can only raise UnboundLocalError -> MissingFields; a class without
   init fields has no failing statement (after the F17 repair). *)
Theorem C14_library_error :
  forall Or ct n c o e,
  c < List.length ct -> load_cls Or ct n c o = Err e ->
  is_library e = true \/ is_marker e = true.
Proof. exact load_cls_library. Qed.
Print Assumptions C14_library_error.

(* the same for the GENERATED program (through generator soundness; `coherent g`: no two
   helper-compiled types share a function name — see C02) *)
Theorem C14_library_error_code_partial :
  forall Or ct gn c f g, c < List.length ct ->
  gen_main ct gn c = Ok (f, g) -> coherent g = true ->
  forall n o e, run_main Or ct gn n c o = Err e -> is_library e = true \/ is_marker e = true.
Proof.
  intros Or ct gn c f g Hc Hg Hco n o e H.
  rewrite (run_main_sound Or ct gn c f g Hg Hco) in H. exact (load_cls_library Or ct n c o e Hc H).
Qed.
Print Assumptions C14_library_error_code_partial.

(* Once-only setters (errors.py:55-146): the first class / field / json_object stays. *)
Theorem C14_setters_once :
  forall e a b f1 f2 o1 o2,
  class_name (set_class (set_class e a) b) = class_name (set_class e a) /\
  (parse_family e = true -> e_fld (set_field (set_field e f1) f2) = e_fld (set_field e f1)) /\
  (parse_family e = true -> e_json (set_json (set_json e o1) o2) = e_json (set_json e o1)).
Proof.
  intros e a b f1 f2 o1 o2. split; [|split].
  - unfold class_name, set_class. destruct (e_cls e) eqn:E; cbn; rewrite ?E; reflexivity.
  - intro Hp. unfold set_field. rewrite Hp. cbn. destruct (e_fld e) eqn:E; cbn.
    + now rewrite Hp, E.
    + unfold parse_family in *. cbn. now rewrite Hp.
  - intro Hp. unfold set_json. rewrite Hp. cbn. destruct (e_json e) eqn:E; cbn.
    + now rewrite Hp, E.
    + unfold parse_family in *. cbn. now rewrite Hp.
Qed.
Print Assumptions C14_setters_once.

(* Innermost attribution.  For every class table (leaves, list / set / tuple / dict / Optional /
   NamedTuple fields at any depth, nested dataclasses to any depth — also below NamedTuples —,
   Union / Literal / TypedDict as opaque units), every known class, every dict-shaped document,
   every budget:
   if the load fails with library error e then the reference locator finds an offending
   position, e.class_name is the class the locator names, and for the ParseError family
   e.field_name is the field it names; a MissingFields error names the class only (for a
   NamedTuple of the wrong arity: the NamedTuple).  What lies BELOW a TypedDict / Union is not
   inspected by the locator: the helper raises a fresh ParseError, see C14_refuted_F50.
   Hypotheses: leaf conversions raise ordinary exceptions (oracle); every value at a
   dataclass-typed position is None or a dict (`dc_shape_n` — outside it the statement is
   false: F24, refuted below). *)
Theorem C14_innermost_partial :
  forall Or ct,
  (forall l o v e, conv Or l o v = Err e -> is_library e = false) ->
  c14_ct ct = true ->
  forall n c dd kvs e,
  c < List.length ct -> dc_shape_n ct n c (VDict dd kvs) = true ->
  load_cls Or ct n c (VDict dd kvs) = Err e ->
  is_marker e = true \/
  exists le a, e = XLib le /\ locate_n Or ct n c (VDict dd kvs) = Some a /\
               class_name le = Some (fst a) /\
               (parse_family le = true -> e_fld le = snd a /\ snd a <> None) /\
               (parse_family le = false -> snd a = None).
Proof. exact attribution_innermost. Qed.
Print Assumptions C14_innermost_partial.

(* ---- witnesses ------------------------------------------------------------------------ *)
Definition fd (n : string) (t : ty) : fdecl :=
  {| f_name := S n; f_ty := t; f_default := None; f_keys := [S n]; f_dkey := S n |}.
Definition toy : oracle :=
  {| conv := fun l _ v => match l, v with
                          | LInt, VInt _ | LStr, VStr _ => Ok v
                          | _, _ => bare "ValueError" end;
     dumpleaf := fun v => v |}.
Local Open Scope string_scope.
Definition d (l : list (string * pv)) : pv := VDict None (map (fun kv => (VStr (S (fst kv)), snd kv)) l).

(* B.c : C ; C.a : str, C.d : D ; D.x : int, D.y : list[int] *)
Definition ct3 : ctable :=
  [{| c_name := S "B"; c_fields := [fd "c" (TData 1); fd "m" (TDict None (TLeaf LStr) (TData 1))] |};
   {| c_name := S "C"; c_fields := [fd "a" (TLeaf LStr); fd "d" (TData 2); fd "ds" (TSeq KList (TData 2))] |};
   {| c_name := S "D"; c_fields := [fd "x" (TLeaf LInt); fd "y" (TSeq KList (TLeaf LInt))] |}].

(* F24: B.c holds a list instead of a dict: the error names class C and C's FIRST field 'a',
   the locator names the holding field (B, c) *)
Definition doc_F24 := d [("c", VSeq KList [VInt 1])].
Theorem C14_refuted_F24 :
  exists le a,
    dc_shape_n ct3 4 0 doc_F24 = false /\
    load_cls toy ct3 4 0 doc_F24 = Err (XLib le) /\ locate_n toy ct3 4 0 doc_F24 = Some a /\
    a = (S "B", Some (S "c")) /\ class_name le = Some (S "C") /\ e_fld le = Some (S "a").
Proof. vm_compute. do 2 eexists. repeat split; reflexivity. Qed.
Print Assumptions C14_refuted_F24.

(* F50: a dataclass below a TypedDict: the helper wraps every exception into a fresh ParseError;
   loaded on its own the inner document is attributed to (Leaf, qty), inside the TypedDict the error
   names (Mid, tdd) *)
Definition tTD := TTyped (S "TD") (TCons (S "leaf") (TData 1) TNil) TNil.
Definition ctTD : ctable :=
  [{| c_name := S "Mid"; c_fields := [fd "tdd" tTD] |};
   {| c_name := S "Leaf"; c_fields := [fd "qty" (TLeaf LInt)] |}].
Definition leaf_bad := d [("qty", VStr (S "zz"))].
Definition doc_F50 := d [("tdd", d [("leaf", leaf_bad)])].
Theorem C14_refuted_F50 :
  exists le le',
    load_cls toy ctTD 4 1 leaf_bad = Err (XLib le') /\
    class_name le' = Some (S "Leaf") /\ e_fld le' = Some (S "qty") /\
    dc_shape_n ctTD 4 0 doc_F50 = true /\
    load_cls toy ctTD 4 0 doc_F50 = Err (XLib le) /\
    class_name le = Some (S "Mid") /\ e_fld le = Some (S "tdd").
Proof. vm_compute. do 2 eexists. repeat split; reflexivity. Qed.
Print Assumptions C14_refuted_F50.

(* a dataclass below a NamedTuple (inside a list) keeps the innermost attribution; a NamedTuple
   of the wrong arity is a MissingFields naming the NamedTuple *)
Definition tNT := TNamed (S "Slot") (TCons (S "a") (TLeaf LInt) (TCons (S "leaf") (TData 1) TNil)).
Definition ctNT : ctable :=
  [{| c_name := S "Mid"; c_fields := [fd "slots" (TSeq KList tNT)] |};
   {| c_name := S "Leaf"; c_fields := [fd "qty" (TLeaf LInt)] |}].
Definition doc_NT := d [("slots", VSeq KList [VSeq KList [VInt 1; d [("qty", VInt 2)]];
                                              VSeq KList [VInt 3; leaf_bad]])].
Definition doc_NT_short := d [("slots", VSeq KList [VSeq KList [VInt 1]])].
Example C14_ex_below_namedtuple :
  exists le le2,
    dc_shape_n ctNT 4 0 doc_NT = true /\ load_cls toy ctNT 4 0 doc_NT = Err (XLib le) /\
    locate_n toy ctNT 4 0 doc_NT = Some (S "Leaf", Some (S "qty")) /\
    class_name le = Some (S "Leaf") /\ e_fld le = Some (S "qty") /\
    load_cls toy ctNT 4 0 doc_NT_short = Err (XLib le2) /\
    locate_n toy ctNT 4 0 doc_NT_short = Some (S "Slot", None) /\
    class_name le2 = Some (S "Slot") /\ e_kind le2 = KMissingFields.
Proof. vm_compute. do 2 eexists. repeat split; reflexivity. Qed.

(* non-vacuity: a depth-3 failing document inside the region; junk at B.m['k'].ds[1].y[0] *)
Definition dD (x : pv) (y : pv) := d [("x", x); ("y", y)].
Definition doc_ok :=
  d [("c", d [("a", VStr (S "s")); ("d", dD (VInt 1) (VSeq KList [])); ("ds", VSeq KList [])]);
     ("m", d [("k", d [("a", VStr (S "s")); ("d", dD (VInt 1) (VSeq KList []));
                       ("ds", VSeq KList [dD (VInt 2) (VSeq KList []);
                                          dD (VInt 3) (VSeq KList [VStr (S "junk")])])])])].
Example C14_ex_hyps :
  c14_ct ct3 = true /\ dc_shape_n ct3 4 0 doc_ok = true /\
  (forall l o v e, conv toy l o v = Err e -> is_library e = false).
Proof.
  split; [reflexivity|]. split; [reflexivity|].
  intros l o v e H. destruct l, v; cbn in H; inversion H; reflexivity.
Qed.
Example C14_ex_innermost :
  exists le, load_cls toy ct3 4 0 doc_ok = Err (XLib le) /\
             locate_n toy ct3 4 0 doc_ok = Some (S "D", Some (S "y")) /\
             class_name le = Some (S "D") /\ e_fld le = Some (S "y").
Proof. vm_compute. eexists. repeat split; reflexivity. Qed.

(* ======================================================================================
   Call histories.  State = (CLASS_TO_LOAD_FUNC : class -> (engine that compiled it, function),
   _META : class -> (v1, recursive)); operations = LoadMeta(..).bind_to(cls) and fromdict(cls, doc)
   in ANY order on ANY classes of the table (stand-alone loads of nested classes by either
   engine, loads under other roots, re-binding a class after it was compiled ...).  fromdict
   calls the table entry if there is one, else compiles with the engine the class's Meta selects
   NOW and stores the function.  A nested dataclass position of a v1 function is resolved by
   `resolve_generate` (the real code: always a freshly generated v1 function, whatever the table,
   the config handed down (recursive or not) and the nested class's own Meta say).  The default
   engine is an ARBITRARY function of state and class (`dflt`).
   ====================================================================================== *)

(* History independence: a load that is executed by a v1-compiled function after ANY history
   computes exactly (value or error: kind, class_name, field_name, obj, missing names) what the
   same load computes in the pristine state, with either `recursive` setting. *)
Theorem C14_history_independent :
  forall Or ct n dflt ops c o st' r,
  fromdict Or ct n resolve_generate dflt (after Or ct n resolve_generate dflt ops) c o = (st', (EV1, r)) ->
  r = load_cls Or ct n c o /\
  forall b, snd (fromdict Or ct n resolve_generate dflt
                   (fst (hstep Or ct n resolve_generate dflt pristine (OBind c {| m_v1 := true; m_rec := b |}))) c o)
            = (EV1, r).
Proof.
  intros Or ct n dflt ops c o st' r H. pose proof (hist_independent Or ct n dflt ops c o st' r H) as E.
  split; [exact E|]. intro b. rewrite E. apply pristine_load.
Qed.
Print Assumptions C14_history_independent.

(* library_error over all histories *)
Theorem C14_hist_library_error :
  forall Or ct n dflt ops c o st' e,
  c < List.length ct ->
  fromdict Or ct n resolve_generate dflt (after Or ct n resolve_generate dflt ops) c o = (st', (EV1, Err e)) ->
  is_library e = true \/ is_marker e = true.
Proof. exact hist_library_error. Qed.
Print Assumptions C14_hist_library_error.

(* innermost attribution over all histories (same safe shape and oracle hypothesis as
   C14_innermost_partial) *)
Theorem C14_hist_innermost_partial :
  forall Or ct n dflt,
  (forall l o v e, conv Or l o v = Err e -> is_library e = false) ->
  c14_ct ct = true ->
  forall ops c dd kvs st' e,
  c < List.length ct -> dc_shape_n ct n c (VDict dd kvs) = true ->
  fromdict Or ct n resolve_generate dflt (after Or ct n resolve_generate dflt ops) c (VDict dd kvs) = (st', (EV1, Err e)) ->
  is_marker e = true \/
  exists le a, e = XLib le /\ locate_n Or ct n c (VDict dd kvs) = Some a /\
               class_name le = Some (fst a) /\
               (parse_family le = true -> e_fld le = snd a /\ snd a <> None) /\
               (parse_family le = false -> snd a = None).
Proof. intros Or ct n dflt. exact (hist_innermost Or ct n dflt). Qed.
Print Assumptions C14_hist_innermost_partial.

(* which engine executes fromdict(c, _) after a history: the Meta bound to c when c was FIRST
   loaded decides (a table hit ignores the current Meta), else the current Meta *)
Theorem C14_hist_engine_first_use :
  forall Or ct n dflt ops c o,
  fst (snd (fromdict Or ct n resolve_generate dflt (after Or ct n resolve_generate dflt ops) c o)) =
  engine_spec meta_abstract ops c.
Proof. exact hist_engine. Qed.
Print Assumptions C14_hist_engine_first_use.

(* ---- witnesses ---- Outer.middle : Middle ; Middle.inner : Inner, Middle.items : list[Inner] ; Inner.x : int *)
Definition fdd (n : string) (t : ty) (dv : pv) : fdecl :=
  {| f_name := S n; f_ty := t; f_default := Some dv; f_keys := [S n]; f_dkey := S n |}.
Definition ctH : ctable :=
  [{| c_name := S "Outer"; c_fields := [fd "middle" (TData 1); fdd "n" (TLeaf LInt) (VInt 0)] |};
   {| c_name := S "Middle"; c_fields := [fd "inner" (TData 2); fdd "items" (TSeq KList (TData 2)) (VSeq KList [])] |};
   {| c_name := S "Inner"; c_fields := [fd "x" (TLeaf LInt); fdd "s" (TLeaf LStr) (VStr [])] |};
   {| c_name := S "Other"; c_fields := [fd "mid" (TData 1); fd "inn" (TOpt (TData 2))] |}].
(* a default engine whose conversion errors escape as bare exceptions *)
Definition dflt_toy : hstate -> cid -> loader :=
  fun _ c o => match load_cls toy ctH 4 c o with Ok v => Ok v | Err _ => bare "ValueError" end.
Definition v1_nonrec := {| m_v1 := true; m_rec := false |}.
Definition v1_rec := {| m_v1 := true; m_rec := true |}.
Definition inner_ok := d [("x", VInt 1)].
Definition doc_H := d [("middle", d [("inner", d [("x", VStr (S "abc"))])])].
Definition doc_H2 := d [("middle", d [("inner", inner_ok);
                                     ("items", VSeq KList [d [("x", VInt 2)]; d [("x", VSeq KList [VInt 3])]])])].
(* Inner loaded alone by the default engine; Middle bound to v1 and loaded alone; a second root
   (default engine) used; Inner re-bound to v1 AFTER it was compiled; then Outer, v1, recursive=False *)
Definition hist_mixed : list (hop) :=
  [OLoad 2 inner_ok; OBind 1 v1_rec; OLoad 1 (d [("inner", inner_ok)]);
   OLoad 3 (d [("mid", d [("inner", inner_ok)]); ("inn", VNone)]); OBind 2 v1_rec; OBind 0 v1_nonrec].

Example C14_ex_history :
  exists le le2,
    snd (fromdict toy ctH 4 resolve_generate dflt_toy (after toy ctH 4 resolve_generate dflt_toy hist_mixed) 0 doc_H)
      = (EV1, Err (XLib le)) /\
    class_name le = Some (S "Inner") /\ e_fld le = Some (S "x") /\ e_obj le = VStr (S "abc") /\
    dc_shape_n ctH 4 0 doc_H = true /\ locate_n toy ctH 4 0 doc_H = Some (S "Inner", Some (S "x")) /\
    snd (fromdict toy ctH 4 resolve_generate dflt_toy (after toy ctH 4 resolve_generate dflt_toy hist_mixed) 0 doc_H2)
      = (EV1, Err (XLib le2)) /\
    class_name le2 = Some (S "Inner") /\ e_fld le2 = Some (S "x") /\ e_obj le2 = VSeq KList [VInt 3] /\
    (* Inner was compiled by the default engine before it was bound to v1: the table entry stays *)
    fst (snd (fromdict toy ctH 4 resolve_generate dflt_toy (after toy ctH 4 resolve_generate dflt_toy hist_mixed) 2 inner_ok)) = EDflt /\
    fst (snd (fromdict toy ctH 4 resolve_generate dflt_toy (after toy ctH 4 resolve_generate dflt_toy hist_mixed) 1 inner_ok)) = EV1.
Proof. vm_compute. do 2 eexists. repeat split; reflexivity. Qed.

(* The statements are about the resolver of the real code.  With the SHORTCUT resolver (a nested
   position re-uses the table entry of its class when no config is handed down) they are false:
   after `fromdict(Inner, ..)` by the default engine, Outer (v1, recursive=False) calls the
   default-engine function at Middle.inner; the bare error is wrapped one level up and the
   ParseError names (Middle, inner) with the whole nested dict as value — pristine: (Inner, x), 'abc'. *)
Theorem C14_shortcut_resolver_refuted :
  exists le le0,
    snd (fromdict toy ctH 4 resolve_shortcut dflt_toy
           (after toy ctH 4 resolve_shortcut dflt_toy [OLoad 2 inner_ok; OBind 0 v1_nonrec]) 0 doc_H)
      = (EV1, Err (XLib le)) /\
    class_name le = Some (S "Middle") /\ e_fld le = Some (S "inner") /\
    e_obj le = d [("x", VStr (S "abc"))] /\
    load_cls toy ctH 4 0 doc_H = Err (XLib le0) /\
    class_name le0 = Some (S "Inner") /\ e_fld le0 = Some (S "x") /\ e_obj le0 = VStr (S "abc") /\
    locate_n toy ctH 4 0 doc_H = Some (S "Inner", Some (S "x")) /\
    (* the same history under the real resolver, and the shortcut without the earlier load *)
    snd (fromdict toy ctH 4 resolve_generate dflt_toy
           (after toy ctH 4 resolve_generate dflt_toy [OLoad 2 inner_ok; OBind 0 v1_nonrec]) 0 doc_H)
      = (EV1, Err (XLib le0)) /\
    snd (fromdict toy ctH 4 resolve_shortcut dflt_toy
           (after toy ctH 4 resolve_shortcut dflt_toy [OBind 0 v1_nonrec]) 0 doc_H)
      = (EV1, Err (XLib le0)).
Proof. vm_compute. do 2 eexists. repeat split; reflexivity. Qed.
Print Assumptions C14_shortcut_resolver_refuted.
