(* C08 — every documented key spelling reaches its field (letter-casing part).
   This file holds only statements closed by `exact` and Print Assumptions. *)
From DW Require Import PyStr StrConv StrConvProofs StrConvCasings.

(* For every canonical snake_case name (words [a-z]{2,}[0-9]*, any number of
   words, any length) and each of the six documented casings, the casing is
   defined and to_snake_case maps it back to the name. *)
Theorem C08_casing_roundtrip :
  forall n c, canonical_snake n ->
  exists k, apply_casing c n = Some k /\ to_snake k = n.
Proof.
  intros n c (w & ws & Hw & Hws & ->). exact (casing_roundtrip w ws Hw Hws c).
Qed.
Print Assumptions C08_casing_roundtrip.

(* Default-engine load: in a class whose field names are canonical, the key
   spelled in any documented casing of field n resolves to n and to no other field. *)
Theorem C08_casing_resolves :
  forall fields n c, Forall canonical_snake fields -> In n fields ->
  exists k, apply_casing c n = Some k /\ resolve_key_v0 fields k = Some n.
Proof. exact casing_resolves. Qed.
Print Assumptions C08_casing_resolves.

(* to_snake_case is the identity on canonical names (dump under SNAKE / load of own name). *)
Theorem C08_snake_fixed : forall n, canonical_snake n -> to_snake n = n.
Proof. exact canonical_to_snake. Qed.
Print Assumptions C08_snake_fixed.

(* Tie T: the LetterCase / KeyCase tables regenerated from the source are the documented ones. *)
From DW Require Import T_LetterCase.
Theorem C08_letter_case_table :
  letter_case_members =
    [(S "CAMEL", S "to_camel_case"); (S "PASCAL", S "to_pascal_case"); (S "LISP", S "to_lisp_case");
     (S "SNAKE", S "to_snake_case"); (S "NONE", S "<lambda>")] /\
  key_case_members =
    [(S "CAMEL", S "to_camel_case"); (S "PASCAL", S "to_pascal_case"); (S "KEBAB", S "to_lisp_case");
     (S "SNAKE", S "to_snake_case"); (S "AUTO", S "None")].
Proof. split; reflexivity. Qed.
Print Assumptions C08_letter_case_table.

(* v1 AUTO key case: for a canonical name, each documented casing except SCREAMING is
   the name itself or one of the keys `possible_json_keys` tries. *)
Theorem C08_auto_keys_cover :
  forall n c, canonical_snake n -> c <> Screaming ->
  exists k ks, apply_casing c n = Some k /\ possible_json_keys n = Some ks /\ (k = n \/ In k ks).
Proof.
  intros n c (w & ws & Hw & Hws & ->) Hc. exact (auto_keys_cover w ws c Hw Hws Hc).
Qed.
Print Assumptions C08_auto_keys_cover.

(* Tie T for the ALGORITHM: `possible_json_keys_src` / `normalize_src` are translated by
   harness/tables/AutoKeysAlg.py from the CURRENT source text of utils/string_conv.py on every
   run and equal the model for every field name; the cover theorem is restated over the
   translated function (the casing functions it calls stay hand-written models). *)
From DW Require Import T_AutoKeysAlg AutoKeysSrcTie.
Theorem C08_auto_keys_source_tie :
  (forall f, possible_json_keys_src f = possible_json_keys f) /\ (forall s, normalize_src s = normalize s).
Proof. exact (conj possible_json_keys_src_eq normalize_src_eq). Qed.
Print Assumptions C08_auto_keys_source_tie.

Theorem C08_auto_keys_cover_src :
  forall n c, canonical_snake n -> c <> Screaming ->
  exists k ks, apply_casing c n = Some k /\ possible_json_keys_src n = Some ks /\ (k = n \/ In k ks).
Proof.
  intros n c Hn Hc. rewrite possible_json_keys_src_eq. exact (C08_auto_keys_cover n c Hn Hc).
Qed.
Print Assumptions C08_auto_keys_cover_src.

(* ---- object paths (KeyPath / path_field / AliasPath strings) ---------------- *)
From DW Require Import T_ObjPath ObjPath ObjPathProofs.

(* A path rendered from ANY list of components (quoted text without backslash,
   numeric tokens, booleans, dotted words), of any length, tokenizes into exactly
   those components. *)
Theorem C08_path_roundtrip :
  forall p, Forall comp_ok p -> split_object_path (render_path p) = map tok_of p.
Proof. exact path_roundtrip. Qed.
Print Assumptions C08_path_roundtrip.

(* int() is a builtin (oracle): with any parser inverting the printer, a numeric
   component rendered from an integer is recovered as that integer. *)
Theorem C08_path_int_component :
  forall (int_parse : pstr -> option Z) (int_repr : Z -> pstr),
  (forall n, int_parse (int_repr n) = Some n) ->
  forall n, interp_num int_parse (int_repr n) = CInt n.
Proof. exact interp_int. Qed.
Print Assumptions C08_path_int_component.

(* Tie T: the tokenizer's constant sets are the documented ones. *)
Theorem C08_path_tables :
  path_truthy = [S "True"; S "true"] /\ path_falsy = [S "False"; S "false"] /\ path_start_sep = [S "."; S "["].
Proof. repeat split; reflexivity. Qed.
Print Assumptions C08_path_tables.

(* Tie T for the ALGORITHM: `split_object_path_src` is the Gallina function that
   harness/tables/ObjPathAlg.py translates (symbolic execution of the Python ast) from the
   CURRENT source text of object_path.split_object_path on every run; it equals the
   hand-written model on every input, so the two theorems above are statements about the
   function the source defines now: a path rendered from any component list tokenizes,
   BY THE TRANSLATED SOURCE, into exactly those components. *)
From DW Require Import T_ObjPathAlg ObjPathSrcTie.
Theorem C08_path_source_tie :
  (forall t c, step_src t c = step t c) /\ (forall t, finish_src t = finish t) /\
  (forall s, split_object_path_src s = split_object_path s).
Proof. exact (conj step_src_eq (conj finish_src_eq split_object_path_src_eq)). Qed.
Print Assumptions C08_path_source_tie.

Theorem C08_path_roundtrip_src :
  forall p, Forall comp_ok p -> split_object_path_src (render_path p) = map tok_of p.
Proof. intros p Hp. rewrite split_object_path_src_eq. exact (path_roundtrip p Hp). Qed.
Print Assumptions C08_path_roundtrip_src.

(* ---- aliases are emitted literally --------------------------------------------- *)
(* Dump keys, aliases, tag keys and path components are spliced into generated code
   with repr (after fix F5 for dump keys).  For EVERY byte string a, the text
   repr(a) lexes back to exactly a (model and proof: GenPyLit / GenPyLitProofs, C15). *)
From DW Require GenPyLit GenPyLitProofs.
Theorem C08_alias_spliced_literally :
  forall a : pstr, GenPyLit.parse_literal (GenPyLit.py_repr a) = Some a.
Proof. exact GenPyLitProofs.repr_roundtrip. Qed.
Print Assumptions C08_alias_spliced_literally.
