(* C13 — tagged unions dispatch on the tag alone.
   Only statements closed by `exact` / short glue, and Print Assumptions.
   Model: coq/model/TagUnion.v; lemmas: coq/proofs/TagUnionProofs.v. *)
From DW Require Import PyStr TagUnion TagUnionProofs TagUnionCont TagUnionContProofs.
From Coq Require Import Permutation.

(* Default engine.  For every family (any number of members, ANY field sets — identical, overlapping or
   disjoint —, scalar members and None mixed in, any argument order), every tag assignment (explicit, auto,
   mixed) that is injective, every tag key that is not itself a field, and every position inside
   Optional / list / dict value / tuple containers at any depth: a conforming value (member instances and
   scalars at the leaves) dumps and loads back to ITSELF — same class (the member record carries the class
   identity), same field values, nothing captured by CatchAll, no unknown-key error.
   `tag_key_tolerated_v0` (inside leaf_v0) is the region hypothesis forced by finding F23; `dump_tag c built m =
   Some t` next to `eff_tag c m = Some t` the one forced by finding F62 (member-level auto_assign_tags).
   Tag assignment covers the full product {explicit tag, none} x {member-level auto flag} x {container auto flag}.
   `pre` / `built` are the only traces earlier uses leave on a member (see TagUnion.v): the theorem holds for
   every value of both, i.e. after ANY earlier dumps / loads of the members or the container. *)
Theorem C13_dispatch_v0 :
  forall c pre built args, tags_injective c args ->
  forall p v, shaped c built (leaf_v0 c pre built args) p v ->
              load_pos (load_union_v0 c pre args) p (dump_lv c built v) = Ok v.
Proof. exact dispatch_v0. Qed.
Print Assumptions C13_dispatch_v0.

(* v1: same statement; additionally the tagged members must have distinct __name__s (finding F9). *)
Theorem C13_dispatch_v1 :
  forall coerce c built args, tags_injective c args -> names_injective c args ->
  forall p v, shaped c built (leaf_v1 c built args) p v ->
              load_pos (load_union_v1 coerce c args) p (dump_lv c built v) = Ok v.
Proof. exact dispatch_v1. Qed.
Print Assumptions C13_dispatch_v1.

(* non-vacuity: a family of three look-alike classes (identical field sets), explicit + auto tags, a tag key
   with a quote and a backslash, scalars mixed in; an instance of the middle class inside list[dict[str, .]] *)
Definition ex_conf : uconf := {| u_tag_key := S "ty'p\e"; u_auto := true |}.
Definition ex_m (cid : N) (name : string) (tag : option pstr) : member :=
  {| m_cid := cid; m_name := S name; m_tag := tag; m_auto := true; m_fields := [S "a"; S "b"]; m_defaults := [(S "b", JStr (S "dflt"))]; m_catchall := true; m_raise := false |}.
Definition ex_args : list arg :=
  [AData (ex_m 0 "K0" None); AScalar SInt; AData (ex_m 1 "K1" (Some (S "t'1"))); ANone; AData (ex_m 2 "K2" None); AScalar SStr].
Definition ex_val : lv :=
  LList [LDict [(S "k", LInst (ex_m 1 "K1" (Some (S "t'1"))) [(S "a", JInt 1); (S "b", JStr (S "x"))] [])]; LDict []].

Lemma ex_tags_injective : tags_injective ex_conf ex_args.
Proof.
  intros m1 m2 t H1 H2 T1 T2.
  cbn in H1, H2. repeat (destruct H1 as [H1|H1]; try discriminate H1; try contradiction);
  repeat (destruct H2 as [H2|H2]; try discriminate H2; try contradiction);
  injection H1 as <-; injection H2 as <-; try reflexivity;
  vm_compute in T1, T2; congruence.
Qed.

Lemma ex_names_injective : names_injective ex_conf ex_args.
Proof.
  intros m1 m2 H1 H2 _ _ Hn.
  cbn in H1, H2. repeat (destruct H1 as [H1|H1]; try discriminate H1; try contradiction);
  repeat (destruct H2 as [H2|H2]; try discriminate H2; try contradiction);
  injection H1 as <-; injection H2 as <-; try reflexivity; vm_compute in Hn; discriminate Hn.
Qed.

Lemma ex_shaped : shaped ex_conf false (leaf_v0 ex_conf false false ex_args) (PList (PDict PHere)) ex_val.
Proof.
  apply sh_list. constructor; [|constructor; [|constructor]].
  - apply sh_dict. constructor; [|constructor]. cbn [snd].
    apply sh_here. eapply leaf_v0_inst with (t := S "t'1").
    + cbn. tauto.
    + vm_compute. reflexivity.
    + vm_compute. reflexivity.
    + split; [reflexivity|]. cbn. repeat constructor; cbn; intuition discriminate.
    + vm_compute. reflexivity.
    + left. vm_compute. reflexivity.
  - apply sh_dict. constructor.
Qed.

Example C13_dispatch_v0_ex :
  load_pos (load_union_v0 ex_conf false ex_args) (PList (PDict PHere)) (dump_lv ex_conf false ex_val) = Ok ex_val.
Proof. exact (C13_dispatch_v0 ex_conf false false ex_args ex_tags_injective _ _ ex_shaped). Qed.

(* Order of the Union arguments is irrelevant (default engine: for EVERY input; the list of valid tags in the
   error is the same up to order). *)
Theorem C13_order_irrelevant_v0 :
  forall c pre args args' o, Permutation args args' -> tags_injective c args ->
  same_res (load_union_v0 c pre args o) (load_union_v0 c pre args' o).
Proof. exact order_irrelevant_v0. Qed.
Print Assumptions C13_order_irrelevant_v0.

(* v1: for every dict that carries the tag key (untagged values go through order-dependent coercions). *)
Theorem C13_order_irrelevant_v1 :
  forall coerce c args args' items tagv, Permutation args args' -> tags_injective c args -> names_injective c args ->
  lookup (u_tag_key c) items = Some tagv ->
  same_res (load_union_v1 coerce c args (JDict items)) (load_union_v1 coerce c args' (JDict items)).
Proof. exact order_irrelevant_v1. Qed.
Print Assumptions C13_order_irrelevant_v1.
Example C13_order_ex : Permutation ex_args (rev ex_args).
Proof. apply Permutation_rev. Qed.

(* A dict whose tag is not assigned to any member is rejected with a ParseError that lists the valid tags. *)
Theorem C13_unknown_tag :
  forall coerce c pre args items t,
  (forall m, In (AData m) args -> eff_tag c m <> Some t) ->
  lookup (u_tag_key c) items = Some (JStr t) ->
  load_union_v0 c pre args (JDict items) = Err (EUnknownTag (valid_tags c args)) /\
  load_union_v1 coerce c args (JDict items) = Err (EUnknownTag (valid_tags c args)).
Proof. intros coerce c pre args items t Hno Hl. split; [now apply unknown_tag_v0 with (t := t)|now apply unknown_tag_v1 with (t := t)]. Qed.
Print Assumptions C13_unknown_tag.
Example C13_unknown_tag_ex :
  valid_tags ex_conf ex_args = [S "K0"; S "t'1"; S "K2"] /\
  forall m, In (AData m) ex_args -> eff_tag ex_conf m <> Some (S "K1").
Proof.
  split; [vm_compute; reflexivity|]. intros m H. cbn in H.
  repeat (destruct H as [H|H]; try discriminate H; try contradiction); injection H as <-; vm_compute; discriminate.
Qed.

(* A dict without the tag key is rejected with a ParseError: the scalar members never capture a dict (default
   engine, exact-type scan); in v1 provided no scalar alternative coerces it (str() accepts anything). *)
Theorem C13_no_tag :
  forall coerce c pre args items,
  lookup (u_tag_key c) items = None ->
  load_union_v0 c pre args (JDict items) = Err ENoMatch /\
  ((forall s, In (AScalar s) args -> coerce s (JDict items) = None) ->
   load_union_v1 coerce c args (JDict items) = Err ENoMatch).
Proof. intros. split; [now apply no_tag_v0|now apply no_tag_v1]. Qed.
Print Assumptions C13_no_tag.

Theorem C13_scalars_do_not_capture_dicts : forall args items, scan_scalars args (JDict items) = None.
Proof. exact scalars_do_not_capture_dicts. Qed.
Print Assumptions C13_scalars_do_not_capture_dicts.

(* The tag key is never reported as unknown nor captured: a member that raises on unknown keys AND has a
   CatchAll field still loads its own dump (explicit tag, or auto tag already assigned: default engine; always: v1). *)
Theorem C13_tag_not_unknown :
  forall coerce c pre built args m vals t,
  tags_injective c args -> names_injective c args -> In (AData m) args -> eff_tag c m = Some t ->
  dump_tag c built m = Some t ->
  conforming m vals -> is_field (u_tag_key c) m = false ->
  (whitelisted_v0 c pre m = true ->
   load_union_v0 c pre args (dump_member c built m vals) = Ok (LInst m vals [])) /\
  load_union_v1 coerce c args (dump_member c built m vals) = Ok (LInst m vals []).
Proof.
  intros coerce c pre built args m vals t Inj NInj Hin Ht Hd Hc Hk. split.
  - intros W. apply load_union_v0_dumped with (t := t); auto. now left.
  - now apply load_union_v1_dumped with (t := t).
Qed.
Print Assumptions C13_tag_not_unknown.
Example C13_tag_not_unknown_ex :
  whitelisted_v0 ex_conf false (ex_m 1 "K1" (Some (S "t'1"))) = true /\
  whitelisted_v0 ex_conf true (ex_m 0 "K0" None) = true.
Proof. split; vm_compute; reflexivity. Qed.

(* ---- refutations: the forced hypotheses are necessary (each witness is replayed on the implementation) ---- *)

(* F9: two members with the same __name__ and auto tags: the first one's dump loads as the second (both engines). *)
Definition dup (cid : N) (fields : list pstr) : member :=
  {| m_cid := cid; m_name := S "Dup"; m_tag := None; m_auto := false; m_fields := fields; m_defaults := []; m_catchall := false; m_raise := false |}.
Theorem C13_equal_names_refuted :
  exists c args m vals,
    In (AData m) args /\ conforming m vals /\ ~ tags_injective c args /\
    load_union_v0 c true args (dump_member c false m vals) <> Ok (LInst m vals []) /\
    load_union_v1 no_coerce c args (dump_member c false m vals) <> Ok (LInst m vals []).
Proof.
  exists {| u_tag_key := S "__tag__"; u_auto := true |},
         [AData (dup 0 [S "a"]); AData (dup 1 [S "a"])], (dup 0 [S "a"]), [(S "a", JInt 1)].
  split; [now left|]. split; [split; [reflexivity|repeat constructor; cbn; tauto]|].
  split.
  - intros Inj.
    assert (E : dup 0 [S "a"] = dup 1 [S "a"]).
    { apply (Inj _ _ (S "Dup")); [now left|right; now left|vm_compute; reflexivity|vm_compute; reflexivity]. }
    discriminate E.
  - split; vm_compute; discriminate.
Qed.
Print Assumptions C13_equal_names_refuted.

(* F9, v1 only: same __name__ but DISTINCT explicit tags (tags_injective holds): still loaded as the other class. *)
Definition dupt (cid : N) (tag : string) : member :=
  {| m_cid := cid; m_name := S "Dup"; m_tag := Some (S tag); m_auto := false; m_fields := [S "a"]; m_defaults := []; m_catchall := false; m_raise := false |}.
Theorem C13_equal_names_v1_refuted :
  exists c args m vals,
    In (AData m) args /\ conforming m vals /\
    load_union_v0 c false args (dump_member c false m vals) = Ok (LInst m vals []) /\
    load_union_v1 no_coerce c args (dump_member c false m vals) <> Ok (LInst m vals []).
Proof.
  exists {| u_tag_key := S "__tag__"; u_auto := false |},
         [AData (dupt 0 "t0"); AData (dupt 1 "t1")], (dupt 0 "t0"), [(S "a", JInt 1)].
  split; [now left|]. split; [split; [reflexivity|repeat constructor; cbn; tauto]|].
  split; vm_compute; [reflexivity|discriminate].
Qed.
Print Assumptions C13_equal_names_v1_refuted.

(* F23: default engine, auto tag, first load in the interpreter (pre = false): the tag key is captured by the
   member's CatchAll field / reported as unknown; after a dump (pre = true) the same load succeeds. *)
Definition f23_m (raise_ : bool) : member :=
  {| m_cid := 0; m_name := S "K0"; m_tag := None; m_auto := false; m_fields := [S "a"]; m_defaults := []; m_catchall := negb raise_; m_raise := raise_ |}.
Theorem C13_tag_key_before_first_dump_refuted :
  let c := {| u_tag_key := S "type"; u_auto := true |} in
  let vals := [(S "a", JInt 1)] in
  (forall r, load_union_v0 c true [AData (f23_m r)] (dump_member c false (f23_m r) vals) = Ok (LInst (f23_m r) vals [])) /\
  load_union_v0 c false [AData (f23_m false)] (dump_member c false (f23_m false) vals)
    = Ok (LInst (f23_m false) vals [(S "type", JStr (S "K0"))]) /\
  load_union_v0 c false [AData (f23_m true)] (dump_member c false (f23_m true) vals) = Err (EUnknownKey 0 (S "type")).
Proof. cbn zeta. split; [intros []; vm_compute; reflexivity|]. split; vm_compute; reflexivity. Qed.
Print Assumptions C13_tag_key_before_first_dump_refuted.

(* F62: a member whose tag comes only from ITS OWN auto_assign_tags (no explicit tag, container flag off): the loader
   dispatches on the class name, but the dumper emits no tag unless the container's Union parser was built before the
   member's dump function (built = true: an earlier load through the container) — load(dump(k)) is a ParseError. *)
Definition f62_m : member :=
  {| m_cid := 0; m_name := S "K0"; m_tag := None; m_auto := true; m_fields := [S "a"]; m_defaults := [];
     m_catchall := false; m_raise := false |}.
Theorem C13_member_auto_tag_refuted :
  let c := {| u_tag_key := S "__tag__"; u_auto := false |} in
  let vals := [(S "a", JInt 1)] in
  eff_tag c f62_m = Some (S "K0") /\
  load_union_v0 c false [AData f62_m] (dump_member c false f62_m vals) = Err ENoMatch /\
  load_union_v1 no_coerce c [AData f62_m] (dump_member c false f62_m vals) = Err ENoMatch /\
  load_union_v0 c false [AData f62_m] (dump_member c true f62_m vals) = Ok (LInst f62_m vals []).
Proof. cbn zeta. repeat split; vm_compute; reflexivity. Qed.
Print Assumptions C13_member_auto_tag_refuted.

(* ================= container-typed Union members (list[s], dict[str, s], tuple) beside tagged dataclasses =============
   Model: coq/model/TagUnionCont.v; lemmas: coq/proofs/TagUnionContProofs.v.  `cargs` is ANY argument list: any number
   of dataclass members, scalar members, None and container members in any order; `plain cargs` are the non-container
   members.  `coerce` / `tuple_v1` are stdlib-level oracles (element conversions of values that are not of the declared
   element type; the v1 tuple loader): every theorem holds for ALL of them. *)

(* v1: the tag branch comes before every type check, so the container members NEVER capture a dumped member instance —
   for all families, all container members, all argument orders, all positions. *)
Theorem C13_cont_dispatch_v1 :
  forall coerce tuple_v1 c built cargs,
  tags_injective c (plain cargs) -> names_injective c (plain cargs) ->
  forall p v, shaped c built (inst_leaf_v1 c built (plain cargs)) p v ->
              load_pos (load_union_c_v1 coerce tuple_v1 c cargs) p (dump_lv c built v) = Ok v.
Proof. exact cont_dispatch_v1. Qed.
Print Assumptions C13_cont_dispatch_v1.

(* default engine, SAFE REGION = no member whose base type is dict (list / tuple members allowed, any number, anywhere):
   a dumped member instance (and a scalar) loads back as itself.  Partial: see the refutation below (finding F96). *)
Theorem C13_cont_dispatch_v0_partial :
  forall coerce c pre built cargs,
  has_dict cargs = false -> tags_injective c (plain cargs) ->
  forall p v, shaped c built (leaf_v0 c pre built (plain cargs)) p v ->
              load_pos (load_union_c_v0 coerce c pre cargs) p (dump_lv c built v) = Ok v.
Proof. exact cont_dispatch_v0. Qed.
Print Assumptions C13_cont_dispatch_v0_partial.

(* non-vacuity: the family of ex_args with list[int], dict-free, tuple and list[str] members mixed in *)
Definition ex_cargs : list carg :=
  [CCont (CList SInt); CArg (AData (ex_m 0 "K0" None)); CArg (AScalar SInt); CCont CTuple;
   CArg (AData (ex_m 1 "K1" (Some (S "t'1")))); CArg ANone; CArg (AData (ex_m 2 "K2" None)); CCont (CList SStr); CArg (AScalar SStr)].
Example ex_cargs_plain : plain ex_cargs = ex_args /\ has_dict ex_cargs = false.
Proof. split; reflexivity. Qed.
Example C13_cont_dispatch_v0_ex :
  load_pos (load_union_c_v0 no_coerce ex_conf false ex_cargs) (PList (PDict PHere)) (dump_lv ex_conf false ex_val) = Ok ex_val.
Proof. exact (C13_cont_dispatch_v0_partial no_coerce ex_conf false false ex_cargs eq_refl ex_tags_injective _ _ ex_shaped). Qed.

(* F96 (default engine): the region hypothesis is necessary, and ORDER does not matter: with a dict-typed member anywhere
   among the arguments NO dict — tagged with a valid tag or not — is ever loaded as a dataclass member. *)
Theorem C13_cont_dict_member_captures_v0 :
  forall coerce c pre cargs items,
  has_dict cargs = true -> not_inst (load_union_c_v0 coerce c pre cargs (JDict items)).
Proof. exact dict_member_captures_v0. Qed.
Print Assumptions C13_cont_dict_member_captures_v0.

Definition f96_m : member :=
  {| m_cid := 0; m_name := S "K0"; m_tag := None; m_auto := false; m_fields := [S "a"]; m_defaults := [];
     m_catchall := false; m_raise := false |}.
Theorem C13_cont_dict_member_refuted :
  let c := {| u_tag_key := S "__tag__"; u_auto := true |} in
  let vals := [(S "a", JInt 1)] in
  (* dataclass first, dict[str, int] last: the dump of K0(a=1) is taken by the dict member, whose int() fails on the tag *)
  load_union_c_v0 no_coerce c true [CArg (AData f96_m); CCont (CDict SInt)] (dump_member c false f96_m vals) = Err EElem /\
  (* dict[str, str]: loaded as a plain dict *)
  load_union_c_v0 (fun _ _ => Some (JStr (S "1"))) c true [CArg (AData f96_m); CCont (CDict SStr)] (dump_member c false f96_m vals)
    = Ok (LScalar (JDict [(S "a", JStr (S "1")); (S "__tag__", JStr (S "K0"))])) /\
  (* without the dict member, and in v1 with it: the same document loads as K0 *)
  load_union_c_v0 no_coerce c true [CArg (AData f96_m); CCont (CList SInt)] (dump_member c false f96_m vals) = Ok (LInst f96_m vals []) /\
  load_union_c_v1 no_coerce no_tuple c [CCont (CDict SInt); CArg (AData f96_m)] (dump_member c false f96_m vals) = Ok (LInst f96_m vals []).
Proof. cbn zeta. repeat split; vm_compute; reflexivity. Qed.
Print Assumptions C13_cont_dict_member_refuted.

(* A list / dict VALUE of a container member (elements of the declared type) is never mistaken for a dataclass and is
   not rejected: it goes to the first container member of its kind.  Default engine: unconditionally (for a dict: even
   when it carries the tag key — the other face of F96).  v1: a list value provided no tuple member stands among the
   arguments; an untagged dict value provided there is no list / tuple member (v1's list loader iterates a dict's keys). *)
Theorem C13_cont_values_v0 :
  forall coerce c pre cargs s,
  (forall l, first_list cargs = Some s -> Forall (exact s) l ->
             load_union_c_v0 coerce c pre cargs (JList l) = Ok (LScalar (JList l))) /\
  (forall items, first_dict cargs = Some s -> Forall (fun kv => exact s (snd kv)) items ->
             load_union_c_v0 coerce c pre cargs (JDict items) = Ok (LScalar (JDict items))).
Proof. intros. split; intros; [now apply list_value_v0 with (s := s)|now apply dict_value_v0 with (s := s)]. Qed.
Print Assumptions C13_cont_values_v0.

Theorem C13_cont_values_v1 :
  forall coerce tuple_v1 c cargs s, has_tuple cargs = false ->
  (forall l, first_list cargs = Some s -> Forall (exact s) l ->
             load_union_c_v1 coerce tuple_v1 c cargs (JList l) = Ok (LScalar (JList l))) /\
  (forall items, has_list cargs = false -> first_dict cargs = Some s -> Forall (fun kv => exact s (snd kv)) items ->
             lookup (u_tag_key c) items = None ->
             load_union_c_v1 coerce tuple_v1 c cargs (JDict items) = Ok (LScalar (JDict items))).
Proof. intros. split; intros; [now apply list_value_v1 with (s := s)|now apply dict_value_v1 with (s := s)]. Qed.
Print Assumptions C13_cont_values_v1.
Example C13_cont_values_ex :
  first_list ex_cargs = Some SInt /\ Forall (exact SInt) [JInt 1; JInt 2] /\
  (* the v1 conditions are necessary: a list[str] member before the dict member takes a dict's keys *)
  load_union_c_v1 no_coerce no_tuple ex_conf [CCont (CList SStr); CCont (CDict SInt)] (JDict [(S "k", JInt 1)])
    = Ok (LScalar (JList [JStr (S "k")])).
Proof. split; [reflexivity|]. split; [repeat constructor|vm_compute; reflexivity]. Qed.

(* Order of the arguments, container members included.  Default engine: every dict input in the safe region; v1: every
   dict that carries the tag key, whatever container members there are. *)
Theorem C13_cont_order_irrelevant_v0 :
  forall coerce c pre cargs cargs' items,
  Permutation cargs cargs' -> tags_injective c (plain cargs) -> has_dict cargs = false ->
  same_res (load_union_c_v0 coerce c pre cargs (JDict items)) (load_union_c_v0 coerce c pre cargs' (JDict items)).
Proof. exact cont_order_v0. Qed.
Print Assumptions C13_cont_order_irrelevant_v0.

Theorem C13_cont_order_irrelevant_v1 :
  forall coerce tuple_v1 c cargs cargs' items tagv,
  Permutation cargs cargs' -> tags_injective c (plain cargs) -> names_injective c (plain cargs) ->
  lookup (u_tag_key c) items = Some tagv -> has_tagged c (plain cargs) = true ->
  same_res (load_union_c_v1 coerce tuple_v1 c cargs (JDict items)) (load_union_c_v1 coerce tuple_v1 c cargs' (JDict items)).
Proof. exact cont_order_v1. Qed.
Print Assumptions C13_cont_order_irrelevant_v1.
Example C13_cont_order_ex : Permutation ex_cargs (rev ex_cargs) /\ has_tagged ex_conf (plain ex_cargs) = true.
Proof. split; [apply Permutation_rev|reflexivity]. Qed.

(* ================= documents that omit fields (members with defaulted fields) ==================================
   The tag ALONE selects the class: a document that carries K's tag and ANY subset of K's fields is handed to K, and the
   outcome is K's constructor rule (`ctor`: given value, else default, else MissingFields) — never another member. *)
Theorem C13_partial_fields :
  forall coerce c pre args m given t,
  tags_injective c args -> names_injective c args -> In (AData m) args -> eff_tag c m = Some t ->
  partial_doc m given -> is_field (u_tag_key c) m = false ->
  (tag_key_tolerated_v0 c pre m ->
   load_union_v0 c pre args (JDict (given ++ [(u_tag_key c, JStr t)])) = ctor m given) /\
  load_union_v1 coerce c args (JDict (given ++ [(u_tag_key c, JStr t)])) = ctor m given.
Proof.
  intros coerce c pre args m given t Inj NInj Hin Ht Hp Hk. split.
  - intros Htol. now apply partial_dispatch_v0.
  - now apply partial_dispatch_v1.
Qed.
Print Assumptions C13_partial_fields.

(* every omitted field has a default: K is constructed, with exactly K's fields *)
Theorem C13_defaults_filled :
  forall m given, covered m given -> exists vals, ctor m given = Ok (LInst m vals []) /\ map fst vals = m_fields m.
Proof. exact ctor_covered. Qed.
Print Assumptions C13_defaults_filled.
Example C13_defaults_filled_ex :
  let m := ex_m 1 "K1" (Some (S "t'1")) in
  partial_doc m [(S "a", JInt 7)] /\ covered m [(S "a", JInt 7)] /\
  load_union_v0 ex_conf false ex_args (JDict ([(S "a", JInt 7)] ++ [(u_tag_key ex_conf, JStr (S "t'1"))]))
    = Ok (LInst m [(S "a", JInt 7); (S "b", JStr (S "dflt"))] []).
Proof.
  cbn zeta. split; [|split].
  - split; [intros kv [<-|[]]; reflexivity|repeat constructor; cbn; tauto].
  - intros f [<-|[<-|[]]]; [left|right]; vm_compute; discriminate.
  - vm_compute. reflexivity.
Qed.

(* ================= several DISTINCT tagged Unions in one annotation (Tuple[U0, U1, ...], each slot at any position) ====
   The positions are independent: slot i dispatches with Union i's own tag table.  For ANY number of Unions, of any sizes,
   with disjoint or overlapping member sets (the hypotheses are per Union: a tag may be assigned in several Unions). *)
Theorem C13_multi_union_dispatch :
  forall coerce c pre built us vs,
  (Forall2 (slot_ok_v1 c built) us vs ->
   load_slots (map (slot_loader_v1 coerce c) us) (map (dump_lv c built) vs) = Ok (LTuple vs)) /\
  (Forall2 (slot_ok_v0 c pre built) us vs ->
   load_slots (map (slot_loader_v0 c pre) us) (map (dump_lv c built) vs) = Ok (LTuple vs)).
Proof. intros. split; [apply multi_dispatch_v1|apply multi_dispatch_v0]. Qed.
Print Assumptions C13_multi_union_dispatch.

(* slot i fails with ITS loader's error (for an unassigned tag: by C13_unknown_tag, Union i's valid tags) whenever the
   earlier slots load *)
Theorem C13_multi_union_error_is_local :
  forall fs docs i f d e,
  nth_error fs i = Some f -> nth_error docs i = Some d -> List.length fs = List.length docs -> f d = Err e ->
  (forall j g x, j < i -> nth_error fs j = Some g -> nth_error docs j = Some x -> exists v, g x = Ok v) ->
  load_slots fs docs = Err e.
Proof. exact load_slots_err. Qed.
Print Assumptions C13_multi_union_error_is_local.

(* non-vacuity: two Unions of the SAME size over disjoint look-alike members, the second inside a list; the document
   relabelled with a tag of the OTHER Union is rejected with the valid tags of its own Union *)
Definition mu_c : uconf := {| u_tag_key := S "__tag__"; u_auto := true |}.
Definition mu_m (cid : N) (name : string) : member :=
  {| m_cid := cid; m_name := S name; m_tag := None; m_auto := false; m_fields := [S "x"]; m_defaults := []; m_catchall := false; m_raise := false |}.
Definition mu_us : list (list arg * pos) :=
  [([AData (mu_m 0 "A"); AData (mu_m 1 "B")], PHere); ([AData (mu_m 2 "C"); AData (mu_m 3 "D")], PList PHere)].
Example C13_multi_union_ex :
  load_slots (map (slot_loader_v1 no_coerce mu_c) mu_us)
             (map (dump_lv mu_c false) [LInst (mu_m 1 "B") [(S "x", JInt 2)] []; LList [LInst (mu_m 2 "C") [(S "x", JInt 3)] []]])
    = Ok (LTuple [LInst (mu_m 1 "B") [(S "x", JInt 2)] []; LList [LInst (mu_m 2 "C") [(S "x", JInt 3)] []]]) /\
  load_slots (map (slot_loader_v1 no_coerce mu_c) mu_us)
             [JDict [(S "x", JInt 2); (S "__tag__", JStr (S "C"))]; JList []]
    = Err (EUnknownTag [S "A"; S "B"]).
Proof. split; vm_compute; reflexivity. Qed.
