(* C12 — Meta cascades to nested classes with documented priority unless recursive=False.
   Only statements closed by `exact` / short glue, and Print Assumptions.
   Model: coq/model/MetaMerge.v; lemmas: coq/proofs/MetaMergeProofs.v. *)
From DW Require Import PyStr T_MetaFields MetaMerge MetaMergeProofs MetaMergeTable MetaMergeTableProofs.

(* Tie T: the settings table regenerated from AbstractMeta / AbstractEnvMeta is the documented one
   (names, which settings are special = never merged, and the defaults the merge falls back to). *)
Theorem C12_tables :
  meta_all_fields =
    [S "debug_enabled"; S "recursive"; S "recursive_classes"; S "raise_on_unknown_json_key"; S "json_key_to_field";
     S "marshal_date_time_as"; S "key_transform_with_load"; S "key_transform_with_dump"; S "tag"; S "tag_key";
     S "auto_assign_tags"; S "skip_defaults"; S "skip_if"; S "skip_defaults_if"; S "v1"; S "v1_debug"; S "v1_key_case";
     S "v1_field_to_alias"; S "v1_on_unknown_key"; S "v1_unsafe_parse_dataclass_in_union"] /\
  meta_special_attrs = [S "recursive"; S "json_key_to_field"; S "tag"; S "v1_field_to_alias"] /\
  map (fun k => (k, own k abstract_dict))
      [S "recursive"; S "tag"; S "tag_key"; S "auto_assign_tags"; S "skip_defaults"; S "raise_on_unknown_json_key";
       S "key_transform_with_load"; S "key_transform_with_dump"; S "marshal_date_time_as"; S "v1_key_case";
       S "v1_on_unknown_key"; S "json_key_to_field"; S "skip_if"; S "skip_defaults_if"; S "v1"] =
    [(S "recursive", Some (VBool true)); (S "tag", Some VNone); (S "tag_key", Some (VStr (S "__tag__")));
     (S "auto_assign_tags", Some (VBool false)); (S "skip_defaults", Some (VBool false));
     (S "raise_on_unknown_json_key", Some (VBool false)); (S "key_transform_with_load", Some VNone);
     (S "key_transform_with_dump", Some VNone); (S "marshal_date_time_as", Some VNone); (S "v1_key_case", Some VNone);
     (S "v1_on_unknown_key", Some VNone); (S "json_key_to_field", Some VNone); (S "skip_if", Some VNone);
     (S "skip_defaults_if", Some VNone); (S "v1", Some (VBool false))] /\
  envmeta_special_attrs = [S "debug_enabled"; S "env_var_to_field"] /\
  const_tag = S "__tag__".
Proof. repeat split; vm_compute; reflexivity. Qed.
Print Assumptions C12_tables.

(* m1 | m2: every setting m1 sets itself wins (mergeable or special). *)
Theorem C12_or_left_wins :
  forall k m1 m2 v, is_setting k = true -> own k m1 = Some v ->
  own k (meta_or m1 m2) = Some v /\ get k (meta_or m1 m2) = Some v.
Proof. exact or_left_wins. Qed.
Print Assumptions C12_or_left_wins.
Example C12_or_left_wins_ex :
  is_setting k_ktd = true /\ own k_ktd [(k_ktd, VStr (S "SNAKE"))] = Some (VStr (S "SNAKE")).
Proof. split; vm_compute; reflexivity. Qed.

(* ... every mergeable setting m1 does not set comes from m2 (and from the AbstractMeta default when
   m2 does not set it either: `get`). *)
Theorem C12_or_fallback :
  forall k m1 m2, is_mergeable k = true -> own k m1 = None ->
  own k (meta_or m1 m2) = own k m2 /\ get k (meta_or m1 m2) = get k m2.
Proof. exact or_fallback. Qed.
Print Assumptions C12_or_fallback.
Example C12_or_fallback_ex :
  map is_mergeable [k_ktl; k_ktd; k_v1kc; k_marshal; k_skip_defaults; k_skip_if; k_skip_defaults_if; k_raise; k_v1unk;
                    k_tag_key; k_auto; S "debug_enabled"; S "v1_debug"; S "v1"; S "recursive_classes";
                    S "v1_unsafe_parse_dataclass_in_union"] = repeat true 16.
Proof. vm_compute. reflexivity. Qed.

(* ... and the special attributes (tag, recursive, json_key_to_field, v1_field_to_alias) are never taken from m2. *)
Theorem C12_or_special :
  forall k m1 m2, is_special k = true ->
  own k (meta_or m1 m2) = own k m1 /\ get k (meta_or m1 m2) = get k m1.
Proof. exact or_special. Qed.
Print Assumptions C12_or_special.
Theorem C12_or_special_not_inherited :
  forall k m1 m2, is_special k = true -> own k m1 = None ->
  get k (meta_or m1 m2) = own k abstract_dict.
Proof. intros k m1 m2 Sp Hn. destruct (or_special k m1 m2 Sp) as [_ ->]. unfold get. now rewrite Hn. Qed.
Print Assumptions C12_or_special_not_inherited.
Example C12_or_special_ex : map is_special [k_tag; k_recursive; S "json_key_to_field"; S "v1_field_to_alias"] = repeat true 4.
Proof. vm_compute. reflexivity. Qed.

(* AbstractMeta | m (a nested class without any Meta): the mergeable part of m, special attributes at their defaults. *)
Theorem C12_or_abstract_left :
  forall k m, is_setting k = true ->
  get k (meta_or_abstract m) = if is_special k then own k abstract_dict else get k m.
Proof. exact or_abstract_left. Qed.
Print Assumptions C12_or_abstract_left.

(* m1 &= m2 (a second LoadMeta/DumpMeta bound to the same class): every setting of m2 overlays m1, special ones too. *)
Theorem C12_and_overlay :
  forall k m1 m2, own k (meta_and m1 m2) = if is_setting k then first_some (own k m2) (own k m1) else own k m1.
Proof. exact and_overlay. Qed.
Print Assumptions C12_and_overlay.

(* recursive=False on the root (or a root without Meta): nested classes keep exactly their own Meta. *)
Theorem C12_effective_nonrecursive :
  forall own_ root, cascades root = false -> effective own_ root = own_.
Proof. exact effective_nonrecursive. Qed.
Print Assumptions C12_effective_nonrecursive.
Example C12_effective_nonrecursive_ex : cascades (Some [(k_recursive, VBool false); (k_ktd, VStr (S "SNAKE"))]) = false.
Proof. vm_compute. reflexivity. Qed.

(* The documented priority, as a statement about lookups in effective(own, root): the nested class's own value;
   else, when the root cascades and the setting is mergeable, the root's value (or its default); else the default. *)
Theorem C12_effective_get :
  forall k own_ root, is_setting k = true ->
  cget k (effective own_ root) =
    match cown k own_ with
    | Some v => Some v
    | None => if cascades root && is_mergeable k then cget k root else own k abstract_dict
    end.
Proof. exact effective_get. Qed.
Print Assumptions C12_effective_get.

(* Cascade, by induction on the nesting SHAPE: every dataclass node reached from a field of the root —
   through Optional, list, dict values, tuples, Unions and intermediate dataclasses (which have their own Meta),
   at any depth — is generated under effective(its own Meta, the root's Meta); all three engines. *)
Theorem C12_cascade :
  forall e root fields n, In n (nested_nodes e root fields) -> n_meta n = effective (n_own n) root.
Proof. exact cascade. Qed.
Print Assumptions C12_cascade.

(* ... and the cascade reaches every dataclass occurring in the field types. *)
Theorem C12_cascade_complete :
  forall e root fields t name own_ fs, In t fields -> reaches t (TData name own_ fs) ->
  In {| n_name := name; n_own := own_; n_meta := effective own_ root |} (nested_nodes e root fields).
Proof. exact cascade_complete. Qed.
Print Assumptions C12_cascade_complete.
Example C12_cascade_ex :
  let n := TData (S "N") (Some [(k_skip_defaults, VBool false)]) [TScalar (S "int")] in
  let m := TData (S "M") (Some [(k_ktd, VStr (S "PASCAL"))]) [TDict (TTuple [TScalar (S "int"); TOpt n])] in
  reaches (TList (TUnion [TScalar (S "str"); m])) n.
Proof.
  cbn. apply R_list. eapply R_union; [right; left; reflexivity|]. eapply R_field; [left; reflexivity|].
  apply R_dict. eapply R_tuple; [right; left; reflexivity|]. apply R_opt. apply R_here.
Qed.

(* Observable behaviour (key transforms through the loader/dumper written by bind_to, date/time marshalling,
   skip rules, unknown-key policies, tag and tag key) of a nested class under the cascade = behaviour of a
   stand-alone class whose Meta is effective(own, root). *)
Theorem C12_behaviour :
  forall e root own_, impl_behaviour (root_config e root) own_ = spec_behaviour (effective own_ root).
Proof. exact behaviour_cascade. Qed.
Print Assumptions C12_behaviour.

(* auto_assign_tags for a Union field of the nested class is read from the root's config: it agrees with
   effective outside the region of finding F22 ... *)
Theorem C12_auto_tags_partial :
  forall e root own_, in_region_auto (root_config e root) own_ = false ->
  impl_union_auto (root_config e root) = spec_union_auto (effective own_ root).
Proof. exact auto_tags_partial. Qed.
Print Assumptions C12_auto_tags_partial.

(* ... and differs inside it: a nested class that sets auto_assign_tags=True itself, under a root whose Meta
   only sets skip_defaults, gets no tags (finding F22; replayed on the implementation by the check). *)
Theorem C12_auto_tags_refuted :
  exists e root own_,
    in_region_auto (root_config e root) own_ = true /\
    impl_union_auto (root_config e root) <> spec_union_auto (effective own_ root).
Proof.
  exists LoadV0, (Some [(k_skip_defaults, VBool true)]), (Some [(k_auto, VBool true)]).
  split; vm_compute; [reflexivity|discriminate].
Qed.
Print Assumptions C12_auto_tags_refuted.

(* default engine, dump and v1 decide the cascading config in the same way *)
Theorem C12_engines_agree : forall root, root_config_v0 root = root_config_v1 root.
Proof. exact engines_agree. Qed.
Print Assumptions C12_engines_agree.

(* ---- earlier uses of the nested class in the same interpreter (histories) ---- *)

(* First use: whatever the operation (dump / load), the nested class reached under a root behaves as a
   stand-alone class with Meta effective(own, root). *)
Theorem C12_history_fresh :
  forall own_ root k,
  hist_behaviour own_ [] {| u_kind := k; u_root := Some root |} = spec_behaviour (effective own_ root).
Proof. exact hist_fresh_effective. Qed.
Print Assumptions C12_history_fresh.

(* After ANY earlier uses of the class (dumped or loaded on its own, under other roots with other Metas, in any
   order): the skip rules, the unknown-key policies, the tag, the emitted tag key and the explicit key maps are
   still those of effective(own, root) — they are read from the merged Meta each time a function is generated. *)
Theorem C12_history_independent :
  forall own_ h root k,
  stable_part (hist_behaviour own_ h {| u_kind := k; u_root := Some root |}) = stable_part (spec_behaviour (effective own_ root)).
Proof. exact hist_stable_effective. Qed.
Print Assumptions C12_history_independent.
Example C12_history_ex :
  let own_ := Some [(k_skip_defaults, VBool false)] in
  let h := [{| u_kind := UDump; u_root := None |}; {| u_kind := ULoad; u_root := Some (Some [(k_ktd, VStr (S "SNAKE"))]) |}] in
  b_skip_if (hist_behaviour own_ h {| u_kind := UDump; u_root := Some (Some [(k_skip_if, VTok 3)]) |}) = Some (VTok 3).
Proof. vm_compute. reflexivity. Qed.

(* The key transforms (and the timestamp hooks, the whitelisted tag keys, v1's alias table) DO depend on earlier
   uses — finding F10 seen from C12: a class without Meta dumped on its own, then under a root with
   key_transform_with_dump = PASCAL, keeps its camelCase keys. *)
Theorem C12_history_refuted :
  exists own_ h root,
    b_dp_case (hist_behaviour own_ h {| u_kind := UDump; u_root := Some root |})
    <> b_dp_case (spec_behaviour (effective own_ root)).
Proof.
  exists None, [{| u_kind := UDump; u_root := None |}], (Some [(k_ktd, VStr (S "PASCAL"))]).
  vm_compute. discriminate.
Qed.
Print Assumptions C12_history_refuted.

(* dump side, nested class reached BY VALUE only (annotation `list` / `Any` / `Dict[str, Any]`): the class's own
   dump-function generation performs the auto-tag step; outside region F22 the outcome is again effective's. *)
Theorem C12_auto_tags_byvalue_partial :
  forall e root own_, in_region_auto (root_config e root) own_ = false ->
  impl_union_auto_byvalue (root_config e root) own_ = spec_union_auto (effective own_ root).
Proof. exact auto_tags_byvalue_partial. Qed.
Print Assumptions C12_auto_tags_byvalue_partial.

(* ---- multi-root histories over the global _META table --------------------------------------------------------
   State: _META (class -> own settings of its registered Meta), the table of what the USER declared, the classes whose
   field parsers the default engine has cached.  Operations, in any number and any order: a user-level binding (class
   definition with a Meta, LoadMeta/DumpMeta(...).bind_to: `_META[cls] = m`, or `_META[cls] &= m` when the class already
   has an entry - also an entry the library auto-created), the first load (default engine / v1) or first dump of any
   root over any class graph (shared nested classes, Unions, recursion).  The library's own writes are the auto-tag
   writes of UnionParser / load_to_union. *)

(* INVARIANT, for all class graphs and all histories: for every class, every setting other than `tag` is in the class's
   own Meta exactly as the user declared it (the library never adds, changes or removes a user-level setting of any
   class); `tag` is what the user declared, or the class's own name where the user declared no truthy tag. *)
Theorem C12_table_invariant :
  forall fuel D h c,
  let st := run_hist fuel D h in
  (forall k, is_setting k = true -> k <> k_tag -> cown k (tget c (t_meta st)) = cown k (tget c (t_decl st))) /\
  (cown k_tag (tget c (t_meta st)) = cown k_tag (tget c (t_decl st)) \/
   (cown k_tag (tget c (t_meta st)) = Some (VStr c) /\ otruthy (cown k_tag (tget c (t_decl st))) = false)).
Proof. exact table_invariant. Qed.
Print Assumptions C12_table_invariant.

(* CASCADE after any history: every dataclass node reached from root r (any shape, any depth; own Metas read from the
   table as it is then) is generated under a Meta that agrees, on every setting other than `tag`, with
   effective(declared_own(node), declared Meta(r)) - whatever roots were defined, loaded or dumped before, in whatever
   order, and whatever the library wrote into the nested classes' Metas on the way. *)
Theorem C12_table_cascade :
  forall fuel fuel' D h e r n k,
  let st := run_hist fuel D h in
  In n (nested_nodes e (tget r (t_meta st)) (map (resolve fuel' D (t_meta st)) (fields_of D r))) ->
  is_setting k = true -> k <> k_tag ->
  cget k (n_meta n) = cget k (declared_effective st (n_name n) r).
Proof. exact table_cascade_nodes. Qed.
Print Assumptions C12_table_cascade.

(* the same as a law of the two tables (no shape needed) *)
Theorem C12_table_effective :
  forall fuel D h n r k,
  let st := run_hist fuel D h in
  is_setting k = true -> k <> k_tag ->
  cget k (table_effective st n r) = cget k (declared_effective st n r).
Proof. exact table_cascade. Qed.
Print Assumptions C12_table_effective.

(* ... and `tag` is the declared one or the auto-assigned class name (never a root's: tag is special) *)
Theorem C12_table_tag :
  forall fuel D h n r,
  let st := run_hist fuel D h in
  cget k_tag (table_effective st n r) = cget k_tag (declared_effective st n r) \/
  (cget k_tag (table_effective st n r) = Some (VStr n) /\ otruthy (cget k_tag (declared_effective st n r)) = false).
Proof. exact table_tag. Qed.
Print Assumptions C12_table_tag.

(* non-vacuity: two roots share UA (directly) and N (whose Union holds UA, UB); R1 is dumped, then a LATER user binding on
   UA goes through `&=` into the Meta the library auto-created, then R2 is loaded: UA's entry = auto tag + exactly that
   binding; N, which the user gave a Meta, is untouched; the history reaches all three kinds of write. *)
Example C12_table_ex :
  let u := RUnion [RClass (S "UA"); RClass (S "UB"); RScalar] in
  let D := [(S "UA", [RScalar]); (S "UB", [RScalar]); (S "N", [RScalar; u]); (S "R1", [RClass (S "N"); u]); (S "R2", [RList (RClass (S "N")); u])] in
  let h := [HBind (S "N") [(k_skip_defaults, VBool true)];
            HBind (S "R1") [(k_auto, VBool true); (k_tag_key, VStr (S "kA"))];
            HBind (S "R2") [(k_auto, VBool true); (k_tag_key, VStr (S "kB"))];
            HUse DumpV0 (S "R1");
            HBind (S "UA") [(k_raise, VBool true)];
            HUse LoadV0 (S "R2")] in
  let st := run_hist 40 D h in
  t_fuel_out st = false /\
  show_table [S "UA"; S "UB"; S "N"] (t_meta st) = S "UA=d:True,i:s:UA;UB=i:s:UB;N=l:True" /\
  cget k_tag_key (table_effective st (S "UA") (S "R2")) = Some (VStr (S "kB")).
Proof. vm_compute. repeat split; reflexivity. Qed.

(* The auto-tag bookkeeping itself DOES persist (finding F10-C12-auto-assigned-tag-persists-across-roots): UA is tagged
   while R1 (auto_assign_tags) is dumped; under R2, which assigns no tags, UA still carries tag "UA". *)
Theorem C12_table_tag_persists_refuted :
  exists D h n r,
    let st := run_hist 40 D h in
    t_fuel_out st = false /\
    cget k_tag (table_effective st n r) <> cget k_tag (declared_effective st n r).
Proof.
  exists [(S "UA", [RScalar]); (S "R1", [RUnion [RClass (S "UA")]]); (S "R2", [RUnion [RClass (S "UA")]])],
         [HBind (S "R1") [(k_auto, VBool true)]; HBind (S "R2") [(k_skip_defaults, VBool true)]; HUse DumpV0 (S "R1")],
         (S "UA"), (S "R2").
  vm_compute. split; [reflexivity|discriminate].
Qed.
Print Assumptions C12_table_tag_persists_refuted.

(* The default engine's cached field parsers freeze the FIRST root's config for everything below a shared class (finding
   F10-C12-first-root-frozen-in-cached-field-parsers), visible in the table: N's Union was built while R1 (no auto tags)
   was loaded; under R2 (auto_assign_tags) it is not built again, so UA gets no tag - while R2 loaded first tags it. *)
Theorem C12_table_parsers_frozen_refuted :
  exists D pre h,
    t_fuel_out (run_hist 40 D (pre ++ h)) = false /\
    tget (S "UA") (t_meta (run_hist 40 D (pre ++ HUse LoadV0 (S "R1") :: h))) <> tget (S "UA") (t_meta (run_hist 40 D (pre ++ h))).
Proof.
  exists [(S "UA", [RScalar]); (S "N", [RUnion [RClass (S "UA")]]); (S "R1", [RClass (S "N")]); (S "R2", [RClass (S "N")])],
         [HBind (S "R1") [(k_skip_defaults, VBool true)]; HBind (S "R2") [(k_auto, VBool true)]],
         [HUse LoadV0 (S "R2")].
  vm_compute. split; [reflexivity|discriminate].
Qed.
Print Assumptions C12_table_parsers_frozen_refuted.

(* Tie T for the ALGORITHM: `meta_or_src` / `meta_or_abstract_src` / `meta_and_src` are translated by
   harness/tables/MetaMergeAlg.py from the CURRENT source text of bases.py (ABCOrAndMeta.__or__ and
   __and__: which class's __dict__ each loop consults, in which order, over which setting list) on every
   run; they equal the model's merge functions for all Meta contents, so the merge algebra above
   (left wins / fallback / special attributes not inherited / in-place overlay) is about the loops the
   source spells out now. *)
From DW Require Import T_MetaMergeAlg MetaMergeSrcTie.
Theorem C12_merge_source_tie :
  (forall src other, meta_or_src src other = meta_or src other) /\
  (forall other, meta_or_abstract_src other = meta_or_abstract other) /\
  (forall cls other, meta_and_src cls other = meta_and cls other).
Proof. exact (conj meta_or_src_eq (conj meta_or_abstract_src_eq meta_and_src_eq)). Qed.
Print Assumptions C12_merge_source_tie.
