(* C18 — EnvWizard resolves fields by documented precedence; os.environ stays untouched.
   Model: model/EnvModel.v (state, operations, the generated __init__);
   specification: model/EnvSpec.v (pure, history-free); lemmas: proofs/EnvProofs.v.
   This file holds only statements closed by `exact` and Print Assumptions, plus Examples. *)
From DW Require Import PyStr StrConv EnvModel EnvSpec EnvProofs T_LetterCase.

(* PURE PART.  In any state satisfying the cache invariant, with lookups.environ = e, resolving the
   fields of a class (stateful, cached lookups: var_names, lazily created cleaned_to_env) yields for
   every field a source admitted by the pure specification `ref_field` on e alone:
   keyword > explicit variable(s) (first present, prefix applied) > LetterCasePriority tiers on
   prefix ++ name > default > missing; a chosen variable's value is e's value.  Where the
   specification is deterministic (no two variables with the same cleaned name compete) the result
   EQUALS `ref_resolve`; elsewhere it is ONE OF the admitted sources (the implementation's choice
   depends on set iteration order).  The invariant and environ are preserved.
   Unconditional since the F37 repair (prefix applied to each of several candidate names). *)
Theorem C18_pure :
  forall st e p prefix kw fs,
  EnvInv st -> environ st = Some e ->
  Forall2 (adm e) (snd (resolve_fields st p prefix kw fs)) (map (ref_field e p prefix kw) fs) /\
  (deterministic e p prefix kw fs = true ->
   snd (resolve_fields st p prefix kw fs) = ref_resolve e p prefix kw fs) /\
  EnvInv (fst (resolve_fields st p prefix kw fs)) /\
  environ (fst (resolve_fields st p prefix kw fs)) = Some e.
Proof. exact pure_refinement. Qed.
Print Assumptions C18_pure.

(* the specification is deterministic whenever `clean` is injective on the variable names present *)
Theorem C18_deterministic_region :
  forall e p prefix kw fs, clean_inj_on (dom e) -> deterministic e p prefix kw fs = true.
Proof. exact deterministic_of_inj. Qed.
Print Assumptions C18_deterministic_region.

(* CACHE INVARIANT.  EnvInv: var_names = dom environ; cleaned_to_env k = Some v -> v in var_names and
   clean v = k; every v in var_names has an entry under clean v (the conjunct F13 broke).  It holds
   initially, is preserved by EVERY operation (instantiation of any class with any arguments -
   _reload or not, _env_file, _env_prefix, _secrets_dir, keywords -, Env.reload() at class creation,
   os.environ edits), hence in every reachable state. *)
Theorem C18_invariant :
  (forall os, EnvInv (init_state os)) /\
  (forall st o, EnvInv st -> EnvInv (fst (step st o))) /\
  (forall os h, EnvInv (run (init_state os) h)).
Proof. exact invariant_all. Qed.
Print Assumptions C18_invariant.

(* RELOAD AFTER ANY HISTORY.  For every initial os.environ, every history h of operations, every class
   and arguments with _reload=True: the outcome is admitted by the specification evaluated on
   e = (os.environ as produced by the user's own edits in h) overlaid with the secret directories and
   then the dotenv files; it equals outcome_of(ref_resolve e) where the specification is deterministic;
   and os.environ afterwards is still exactly the user's edits. *)
Theorem C18_reload :
  forall os0 h c a,
  a_reload a = true ->
  let st := run (init_state os0) h in
  let e := overlay (user_edits os0 h) (eff_secrets c a) (eff_dotenv c a) in
  adm_outcome e c a (snd (instantiate st c a)) /\
  (deterministic e (c_prio c) (eff_prefix c a) (a_kwargs a) (c_fields c) = true ->
   snd (instantiate st c a) =
     outcome_of (c_fields c) (ref_resolve e (c_prio c) (eff_prefix c a) (a_kwargs a) (c_fields c))) /\
  os_env (fst (instantiate st c a)) = user_edits os0 h.
Proof. exact reload_any_history. Qed.
Print Assumptions C18_reload.

(* The overlaid environment, variable by variable: the last dotenv file that defines v wins (its last
   line), else the last secrets directory that defines it, else os.environ. *)
Theorem C18_overlay_value :
  forall os secrets dotenv v,
  get (overlay os secrets dotenv) v = ref_env_value os secrets dotenv v.
Proof. exact overlay_value. Qed.
Print Assumptions C18_overlay_value.

(* MISSING VARIABLES.  After any history, an instantiation with _reload=True raises MissingVars iff some
   field has no keyword, no variable and no default, and then lists ALL such fields, in field order. *)
Theorem C18_missing_all :
  forall os0 h c a,
  a_reload a = true ->
  let st := run (init_state os0) h in
  let e := overlay (user_edits os0 h) (eff_secrets c a) (eff_dotenv c a) in
  let m := ref_missing e (c_prio c) (eff_prefix c a) (a_kwargs a) (c_fields c) in
  (forall l, snd (instantiate st c a) = OMissing l -> l = m) /\
  (m <> [] -> snd (instantiate st c a) = OMissing m).
Proof. exact missing_all. Qed.
Print Assumptions C18_missing_all.

(* OS.ENVIRON UNTOUCHED.  No library operation (instantiation, Env.reload at class creation) changes
   os.environ, in any state whatsoever; so os.environ is a function of the user's edits alone. *)
Theorem C18_environ_untouched :
  (forall st o, is_library_op o = true -> os_env (fst (step st o)) = os_env st) /\
  (forall st h, os_env (run st h) = user_edits (os_env st) h).
Proof. exact environ_untouched. Qed.
Print Assumptions C18_environ_untouched.

(* Tie T: the LetterCasePriority member -> lookup function table regenerated from enums.py is the
   documented one (the model's get_env dispatches through this table). *)
Theorem C18_priority_table :
  letter_case_priority_members =
    [(S "SCREAMING_SNAKE", S "with_screaming_snake_case"); (S "SNAKE", S "with_snake_case");
     (S "CAMEL", S "with_pascal_or_camel_case"); (S "PASCAL", S "with_pascal_or_camel_case")].
Proof. exact priority_table. Qed.
Print Assumptions C18_priority_table.

(* Tie T for the ALGORITHM: the `_src` functions are what harness/tables/EnvLookupAlg.py translates
   from the CURRENT source text of environ/lookups.py on every run (clean, try_cleaned, the three
   with_* tiers, lookup_exact); they equal the hand-written model on every state and key, so the
   precedence theorems above are about the order of attempts the source spells out now. *)
From DW Require Import T_EnvLookupAlg EnvLookupSrcTie.
Theorem C18_lookup_source_tie :
  (forall s, clean_src s = clean s) /\
  (forall st key, try_cleaned_src st key = try_cleaned st key) /\
  (forall st key, with_screaming_snake_case_src st key = with_screaming_snake_case st key) /\
  (forall st key, with_snake_case_src st key = with_snake_case st key) /\
  (forall st key, with_pascal_or_camel_case_src st key = with_pascal_or_camel_case st key) /\
  (forall st v, lookup_exact_str_src st v = lookup_exact_str st v) /\
  (forall st vars, lookup_exact_seq_src st vars = lookup_exact_seq st vars).
Proof.
  exact (conj clean_src_eq (conj try_cleaned_src_eq (conj with_screaming_snake_case_src_eq
        (conj with_snake_case_src_eq (conj with_pascal_or_camel_case_src_eq
        (conj lookup_exact_str_src_eq lookup_exact_seq_src_eq)))))).
Qed.
Print Assumptions C18_lookup_source_tie.

(* ---- non-vacuity ------------------------------------------------------------------------------- *)
(* The F13 history (repaired by commit b4949e0): My-Var=A and myvar=B are set, E(_reload=True) touches
   cleaned_to_env, the winner is deleted from os.environ, E(_reload=True) again: the survivor is found
   whichever of the two had won (both deletions are checked). *)
Definition ex_cls : cls := mkCls [mkField (S "my_var") ExNone true] PScreaming [] [] [].
Definition ex_reload : args := mkArgs [] true EFDefault None None.
Definition ex_hist (del : pstr) : list op :=
  [OpSet (S "My-Var") (S "A"); OpSet (S "myvar") (S "B"); OpInst ex_cls ex_reload; OpDel del].

Example C18_F13_history :
  snd (instantiate (run (init_state []) (ex_hist (S "myvar"))) ex_cls ex_reload) = OInstance [SEnv (S "My-Var") (S "A")] /\
  snd (instantiate (run (init_state []) (ex_hist (S "My-Var"))) ex_cls ex_reload) = OInstance [SEnv (S "myvar") (S "B")] /\
  deterministic (overlay (user_edits [] (ex_hist (S "myvar"))) [] []) PScreaming [] [] (c_fields ex_cls) = true.
Proof. repeat split; vm_compute; reflexivity. Qed.

(* F37 (repaired by 466ac1d): prefix 'P_' and x = env_field(('Q', 'A', 'B')): P_A and P_B are set, P_A wins *)
Example C18_prefix_tuple :
  snd (instantiate (init_state [(S "P_B", S "2"); (S "P_A", S "1"); (S "A", S "10")])
         (mkCls [mkField (S "x") (ExTuple [S "Q"; S "A"; S "B"]) true] PScreaming (S "P_") [] [])
         (mkArgs [] true EFDefault None None))
  = OInstance [SEnv (S "P_A") (S "1")].
Proof. vm_compute. reflexivity. Qed.

(* a state satisfying the hypotheses of C18_pure with a non-trivial cache, and a one-of region *)
Example C18_pure_hypotheses :
  let st := run (init_state []) [OpSet (S "My-Var") (S "A"); OpSet (S "myvar") (S "B"); OpInst ex_cls ex_reload] in
  EnvInv st /\ environ st = Some [(S "My-Var", S "A"); (S "myvar", S "B")] /\ cleaned st <> None /\
  ref_field [(S "My-Var", S "A"); (S "myvar", S "B")] PScreaming [] [] (mkField (S "my_var") ExNone true)
    = [REnv (S "My-Var"); REnv (S "myvar")] /\
  deterministic [(S "My-Var", S "A"); (S "myvar", S "B")] PScreaming [] [] (c_fields ex_cls) = false.
Proof.
  split; [apply (proj2 (proj2 C18_invariant))|].
  repeat split; vm_compute; try reflexivity. discriminate.
Qed.

(* clean_inj_on holds for a concrete environment with assorted casings *)
Example C18_clean_injective_example :
  clean_inj_on (dom [(S "MY_VAR", S "1"); (S "other-var", S "2"); (S "Third", S "3")]).
Proof.
  split.
  - repeat constructor; cbn [In]; intros H; repeat (destruct H as [H|H]; [discriminate H|]); exact H.
  - cbn [dom map fst In]. intros a b Ha Hb.
    repeat (destruct Ha as [<-|Ha]; [|]); try destruct Ha;
    repeat (destruct Hb as [<-|Hb]; [|]); try destruct Hb; vm_compute; intros E; try reflexivity; discriminate E.
Qed.

(* ================================================================================================== *)
(* EXTENSION: the generated __init__ as the source spells it, the file-system side of secrets,
   default kinds (model/EnvInit.v, proofs/EnvInitProofs.v).                                           *)
From DW Require Import EnvInit T_EnvInitOrderAlg EnvInitProofs.

(* Tie T for the ORDER of the preamble of the generated __init__: the table that
   harness/tables/EnvInitOrderAlg.py reads from the CURRENT source text of environ/wizard.py
   (every `Env.*` line emitted before `_vars = []`, with its guard) decodes to: Env.reload()/load_environ(),
   then update_with_secret_values(_secrets_dir), then update_with_dotenv(Meta values, only when
   `_env_file is None`), then update_with_dotenv(_env_file); the two update_with_* methods of
   lookups.py do `cls.reload(values)` then `environ.update(values)`; after the field loop the only
   statements are the ParseError handler and `raise MissingVars(cls, _vars)`.  Interpreting that
   decoded order step by step IS the hand-written `prepare` of EnvModel.v, for every state, class and
   arguments - so C18_reload / C18_overlay_value (dotenv over secrets over os.environ) are about the
   order the source spells out now. *)
Theorem C18_overlay_order_table :
  decode_preamble env_init_preamble_v0 = Some [PLoad; PSecrets; PDotenvMeta; PDotenvArg] /\
  env_update_with_v0 =
    [(S "update_with_secret_values", [S "cls.reload(secret_values)"; S "environ.update(secret_values)"]);
     (S "update_with_dotenv", [S "cls.reload(dotenv_values)"; S "environ.update(dotenv_values)"])] /\
  env_init_after_v0 =
    [(S "field_names", S "except", S "handle_err(e, cls, _name, _env_prefix, _env_var)");
     (S "", S "if _vars", S "raise MissingVars(cls, _vars) from None")] /\
  (forall st c a, prepare_steps [PLoad; PSecrets; PDotenvMeta; PDotenvArg] st c a = prepare st c a).
Proof. exact (conj preamble_decoded (conj update_with_decoded (conj after_decoded prepare_steps_eq))). Qed.
Print Assumptions C18_overlay_order_table.

(* The per-field decision read from the source (guard `name is not MISSING or (name := lookup) is not
   MISSING`, lookup_exact for explicit names / get_env otherwise on the prefixed name, else-arm
   `if default / elif default_factory() / else add to the missing list`) decodes to
   keyword > lookup > default > default_factory > missing, and interpreting that list is
   resolve_field followed by the attribute binding (aval_of), for every state, field and default kind. *)
Theorem C18_field_decision_table :
  decode_field env_init_field_v0 env_init_lookup_forms_v0 = Some [FKwarg; FLookup; FDefault; FFactory; FMissing] /\
  (forall st p prefix kw f k n,
   f_default f = has_default k ->
   decide [FKwarg; FLookup; FDefault; FFactory; FMissing] st p prefix kw f k n =
     (fst (resolve_field st p prefix kw f),
      fst (aval_of k n (snd (resolve_field st p prefix kw f))),
      snd (aval_of k n (snd (resolve_field st p prefix kw f))))).
Proof. exact (conj field_decoded decide_eq). Qed.
Print Assumptions C18_field_decision_table.

(* KEYWORD ARGUMENTS ALWAYS WIN, in any state (no invariant, no _reload needed), any class, any arguments,
   whatever the environment / secrets / dotenv contain: a field passed as keyword is resolved to the
   keyword WITHOUT any lookup (state unchanged); in an instance a source is the keyword iff the field
   was passed; a field passed as keyword is never reported missing. *)
Theorem C18_kwarg_wins :
  (forall st p prefix kw f, In (f_name f) kw -> resolve_field st p prefix kw f = (st, SKwarg)) /\
  (forall st c a,
   match snd (instantiate st c a) with
   | OInstance ss => Forall2 (kw_src (a_kwargs a)) (c_fields c) ss
   | OMissing l => forall n, In n l -> ~ In n (a_kwargs a)
   | OCrash => True
   end).
Proof. exact (conj kwarg_wins_field kwarg_wins_inst). Qed.
Print Assumptions C18_kwarg_wins.

(* ARGUMENTS OVERRIDE META: `_env_prefix`, `_secrets_dir`, `_env_file` when passed replace
   Meta.env_prefix / secrets_dir / env_file completely: two classes that differ only in the overridden
   Meta settings behave identically (same outcome, same state), in every state. *)
Theorem C18_arg_overrides_meta :
  forall st c c' a,
  c_fields c = c_fields c' -> c_prio c = c_prio c' ->
  (a_prefix a = None -> c_prefix c = c_prefix c') ->
  (a_secrets a = None -> c_secrets c = c_secrets c') ->
  (a_envfile a = EFDefault -> c_envfile c = c_envfile c') ->
  instantiate st c a = instantiate st c' a.
Proof. exact arg_overrides. Qed.
Print Assumptions C18_arg_overrides_meta.

(* Env.secret_values: raises ValueError iff one of the paths is a file; otherwise the dict is
   merge_files of the per-directory dicts (what `prepare` overlays), i.e. per variable the LAST directory
   that has a regular file of that name; within a directory the variable NAME is the file name and the
   value is the content verbatim; entries that are not regular files and absent directories define nothing. *)
Theorem C18_secret_values :
  forall dirs,
  (secret_values dirs = None <-> In SDIsFile dirs) /\
  (forall e, secret_values dirs = Some e ->
     e = merge_files (map dir_env dirs) /\ forall v, get e v = last_def (map dir_env dirs) v) /\
  (forall es n, NoDup (map fst es) ->
     (forall c, In (n, DEFile c) es -> get (rev (dir_env (SDDir es))) n = Some c) /\
     ((forall c, ~ In (n, DEFile c) es) -> get (rev (dir_env (SDDir es))) n = None)) /\
  (forall v, get (rev (dir_env SDAbsent)) v = None).
Proof. exact secret_values_all. Qed.
Print Assumptions C18_secret_values.

(* Instantiation with `_secrets_dir=dirs` over the file system, after ANY history, _reload=True:
   ValueError iff a path is a file; otherwise the outcome is admitted by (equal to, where deterministic)
   the specification on os.environ (the user's edits) overlaid with the directories in order, then the
   dotenv files; os.environ is untouched in BOTH cases. *)
Theorem C18_secrets_fs :
  forall os0 h c a dirs,
  a_reload a = true ->
  let st := run (init_state os0) h in
  let e := overlay (user_edits os0 h) (map dir_env dirs) (eff_dotenv c a) in
  (snd (instantiate_fs st c a dirs) = FValueError <-> In SDIsFile dirs) /\
  (~ In SDIsFile dirs ->
   exists o, snd (instantiate_fs st c a dirs) = FOk o /\
     adm_outcome e c (set_secrets a (map dir_env dirs)) o /\
     (deterministic e (c_prio c) (eff_prefix c a) (a_kwargs a) (c_fields c) = true ->
      o = outcome_of (c_fields c) (ref_resolve e (c_prio c) (eff_prefix c a) (a_kwargs a) (c_fields c)))) /\
  os_env (fst (instantiate_fs st c a dirs)) = user_edits os0 h.
Proof. exact instantiate_fs_all. Qed.
Print Assumptions C18_secrets_fs.

(* DEFAULT_FACTORY FRESHNESS.  The attribute of a field is a factory result only if the field has a
   default_factory and neither keyword nor variable supplied it (then the factory is called once, now);
   a keyword / variable never calls it; a `default` value is the shared object.  Over a whole process
   (any initial environment, any history of operations, classes, arguments, default kinds) no two
   attributes of any instances ever receive the same factory call: all stamps are pairwise distinct. *)
Theorem C18_factory_fresh :
  (forall k n s,
     (s = SKwarg -> aval_of k n s = (n, AKwarg)) /\
     (forall var v, s = SEnv var v -> aval_of k n s = (n, AEnv var v)) /\
     (forall j, snd (aval_of k n s) = AFresh j ->
        k = DKFactory /\ s = SDefault /\ j = n /\ fst (aval_of k n s) = Datatypes.S n) /\
     (k = DKFactory -> s = SDefault -> aval_of k n s = (Datatypes.S n, AFresh n)) /\
     (k = DKValue -> s = SDefault -> aval_of k n s = (n, AShared))) /\
  (forall items n, NoDup (flat_map stamps (stamp_all n items))) /\
  (forall os ops, NoDup (flat_map stamps (stamp_all 0 (trace_items (init_state os) ops)))).
Proof. exact (conj aval_of_spec (conj (fun items n => proj1 (stamp_all_fresh items n)) history_fresh)). Qed.
Print Assumptions C18_factory_fresh.

(* ---- non-vacuity of the extension ---------------------------------------------------------------- *)
(* two secrets directories with an overlapping name, a sub-directory, an absent one; trailing newline kept *)
Definition ex_dirs : list sdir :=
  [SDDir [(S "MY_VAR", DEFile (S "one" ++ [ch 10])); (S "other", DEFile [])];
   SDAbsent;
   SDDir [(S "sub", DEOther); (S "MY_VAR", DEFile (S "two"))]].
Example C18_secret_values_example :
  secret_values ex_dirs = Some [(S "MY_VAR", S "two"); (S "other", [])] /\
  secret_values (rev ex_dirs) = Some [(S "MY_VAR", S "one" ++ [ch 10]); (S "other", [])] /\
  secret_values (ex_dirs ++ [SDIsFile]) = None.
Proof. repeat split; vm_compute; reflexivity. Qed.

(* dotenv over secrets over os.environ; keyword over all; a factory field called twice gets stamps 0, 1 *)
Definition ex_dcls : cls :=
  mkCls [dfield (S "my_var") ExNone DKNone; dfield (S "lst") ExNone DKFactory; dfield (S "shared") ExNone DKValue]
        PScreaming [] [] [].
Example C18_extension_example :
  let os := [(S "MY_VAR", S "os")] in
  let a := mkArgs [] true (EFFiles [[(S "MY_VAR", S "dotenv")]]) None None in
  snd (instantiate_fs (init_state os) ex_dcls a ex_dirs)
    = FOk (OInstance [SEnv (S "MY_VAR") (S "dotenv"); SDefault; SDefault]) /\
  snd (instantiate_fs (init_state os) ex_dcls (mkArgs [] true EFDefault None None) ex_dirs)
    = FOk (OInstance [SEnv (S "MY_VAR") (S "two"); SDefault; SDefault]) /\
  snd (instantiate_fs (init_state os) ex_dcls (mkArgs [S "my_var"; S "lst"] true EFDefault None None) ex_dirs)
    = FOk (OInstance [SKwarg; SKwarg; SDefault]) /\
  snd (instantiate_fs (init_state os) ex_dcls a (ex_dirs ++ [SDIsFile])) = FValueError /\
  stamp_all 0 (trace_items (init_state os)
     [(OpInst ex_dcls a, [DKNone; DKFactory; DKValue]);
      (OpInst ex_dcls (mkArgs [S "lst"] true EFDefault None None), [DKNone; DKFactory; DKValue]);
      (OpInst ex_dcls a, [DKNone; DKFactory; DKValue])])
    = [[AEnv (S "MY_VAR") (S "dotenv"); AFresh 0; AShared];
       [AEnv (S "MY_VAR") (S "os"); AKwarg; AShared];
       [AEnv (S "MY_VAR") (S "dotenv"); AFresh 1; AShared]].
Proof. repeat split; vm_compute; reflexivity. Qed.
