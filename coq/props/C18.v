(* C18 — EnvWizard resolves fields by documented precedence; os.environ stays untouched.
   Model: model/EnvModel.v (state, operations, the generated __init__);
   specification: model/EnvSpec.v (pure, history-free); lemmas: proofs/EnvProofs.v.
   This file holds only statements closed by `exact` and Print Assumptions, plus Examples. *)
From DW Require Import PyStr StrConv EnvModel EnvSpec EnvProofs T_LetterCase.

(* PURE PART.  In any state satisfying the cache invariant, with lookups.environ = e, resolving the
   fields of a class (stateful, cached lookups: var_names, lazily created cleaned_to_env) yields for
   every field a source admitted by the pure specification `ref_field` on e alone:
   keyword > explicit variable(s) (first present, prefix applied) > LetterCasePriority tiers on
   prefix ++ name > default > missing; a chosen variable's value is e's value.  Where the
   specification is deterministic (no two variables with the same cleaned name compete) the result
   EQUALS `ref_resolve`; elsewhere it is ONE OF the admitted sources (the implementation's choice
   depends on set iteration order).  The invariant and environ are preserved.
   Unconditional since the F37 repair (prefix applied to each of several candidate names). *)
Theorem C18_pure :
  forall st e p prefix kw fs,
  EnvInv st -> environ st = Some e ->
  Forall2 (adm e) (snd (resolve_fields st p prefix kw fs)) (map (ref_field e p prefix kw) fs) /\
  (deterministic e p prefix kw fs = true ->
   snd (resolve_fields st p prefix kw fs) = ref_resolve e p prefix kw fs) /\
  EnvInv (fst (resolve_fields st p prefix kw fs)) /\
  environ (fst (resolve_fields st p prefix kw fs)) = Some e.
Proof. exact pure_refinement. Qed.
Print Assumptions C18_pure.

(* the specification is deterministic whenever `clean` is injective on the variable names present *)
Theorem C18_deterministic_region :
  forall e p prefix kw fs, clean_inj_on (dom e) -> deterministic e p prefix kw fs = true.
Proof. exact deterministic_of_inj. Qed.
Print Assumptions C18_deterministic_region.

(* CACHE INVARIANT.  EnvInv: var_names = dom environ; cleaned_to_env k = Some v -> v in var_names and
   clean v = k; every v in var_names has an entry under clean v (the conjunct F13 broke).  It holds
   initially, is preserved by EVERY operation (instantiation of any class with any arguments -
   _reload or not, _env_file, _env_prefix, _secrets_dir, keywords -, Env.reload() at class creation,
   os.environ edits), hence in every reachable state. *)
Theorem C18_invariant :
  (forall os, EnvInv (init_state os)) /\
  (forall st o, EnvInv st -> EnvInv (fst (step st o))) /\
  (forall os h, EnvInv (run (init_state os) h)).
Proof. exact invariant_all. Qed.
Print Assumptions C18_invariant.

(* RELOAD AFTER ANY HISTORY.  For every initial os.environ, every history h of operations, every class
   and arguments with _reload=True: the outcome is admitted by the specification evaluated on
   e = (os.environ as produced by the user's own edits in h) overlaid with the secret directories and
   then the dotenv files; it equals outcome_of(ref_resolve e) where the specification is deterministic;
   and os.environ afterwards is still exactly the user's edits. *)
Theorem C18_reload :
  forall os0 h c a,
  a_reload a = true ->
  let st := run (init_state os0) h in
  let e := overlay (user_edits os0 h) (eff_secrets c a) (eff_dotenv c a) in
  adm_outcome e c a (snd (instantiate st c a)) /\
  (deterministic e (c_prio c) (eff_prefix c a) (a_kwargs a) (c_fields c) = true ->
   snd (instantiate st c a) =
     outcome_of (c_fields c) (ref_resolve e (c_prio c) (eff_prefix c a) (a_kwargs a) (c_fields c))) /\
  os_env (fst (instantiate st c a)) = user_edits os0 h.
Proof. exact reload_any_history. Qed.
Print Assumptions C18_reload.

(* The overlaid environment, variable by variable: the last dotenv file that defines v wins (its last
   line), else the last secrets directory that defines it, else os.environ. *)
Theorem C18_overlay_value :
  forall os secrets dotenv v,
  get (overlay os secrets dotenv) v = ref_env_value os secrets dotenv v.
Proof. exact overlay_value. Qed.
Print Assumptions C18_overlay_value.

(* MISSING VARIABLES.  After any history, an instantiation with _reload=True raises MissingVars iff some
   field has no keyword, no variable and no default, and then lists ALL such fields, in field order. *)
Theorem C18_missing_all :
  forall os0 h c a,
  a_reload a = true ->
  let st := run (init_state os0) h in
  let e := overlay (user_edits os0 h) (eff_secrets c a) (eff_dotenv c a) in
  let m := ref_missing e (c_prio c) (eff_prefix c a) (a_kwargs a) (c_fields c) in
  (forall l, snd (instantiate st c a) = OMissing l -> l = m) /\
  (m <> [] -> snd (instantiate st c a) = OMissing m).
Proof. exact missing_all. Qed.
Print Assumptions C18_missing_all.

(* OS.ENVIRON UNTOUCHED.  No library operation (instantiation, Env.reload at class creation) changes
   os.environ, in any state whatsoever; so os.environ is a function of the user's edits alone. *)
Theorem C18_environ_untouched :
  (forall st o, is_library_op o = true -> os_env (fst (step st o)) = os_env st) /\
  (forall st h, os_env (run st h) = user_edits (os_env st) h).
Proof. exact environ_untouched. Qed.
Print Assumptions C18_environ_untouched.

(* Tie T: the LetterCasePriority member -> lookup function table regenerated from enums.py is the
   documented one (the model's get_env dispatches through this table). *)
Theorem C18_priority_table :
  letter_case_priority_members =
    [(S "SCREAMING_SNAKE", S "with_screaming_snake_case"); (S "SNAKE", S "with_snake_case");
     (S "CAMEL", S "with_pascal_or_camel_case"); (S "PASCAL", S "with_pascal_or_camel_case")].
Proof. exact priority_table. Qed.
Print Assumptions C18_priority_table.

(* Tie T for the ALGORITHM: the `_src` functions are what harness/tables/EnvLookupAlg.py translates
   from the CURRENT source text of environ/lookups.py on every run (clean, try_cleaned, the three
   with_* tiers, lookup_exact); they equal the hand-written model on every state and key, so the
   precedence theorems above are about the order of attempts the source spells out now. *)
From DW Require Import T_EnvLookupAlg EnvLookupSrcTie.
Theorem C18_lookup_source_tie :
  (forall s, clean_src s = clean s) /\
  (forall st key, try_cleaned_src st key = try_cleaned st key) /\
  (forall st key, with_screaming_snake_case_src st key = with_screaming_snake_case st key) /\
  (forall st key, with_snake_case_src st key = with_snake_case st key) /\
  (forall st key, with_pascal_or_camel_case_src st key = with_pascal_or_camel_case st key) /\
  (forall st v, lookup_exact_str_src st v = lookup_exact_str st v) /\
  (forall st vars, lookup_exact_seq_src st vars = lookup_exact_seq st vars).
Proof.
  exact (conj clean_src_eq (conj try_cleaned_src_eq (conj with_screaming_snake_case_src_eq
        (conj with_snake_case_src_eq (conj with_pascal_or_camel_case_src_eq
        (conj lookup_exact_str_src_eq lookup_exact_seq_src_eq)))))).
Qed.
Print Assumptions C18_lookup_source_tie.

(* ---- non-vacuity ------------------------------------------------------------------------------- *)
(* The F13 history (repaired by commit b4949e0): My-Var=A and myvar=B are set, E(_reload=True) touches
   cleaned_to_env, the winner is deleted from os.environ, E(_reload=True) again: the survivor is found
   whichever of the two had won (both deletions are checked). *)
Definition ex_cls : cls := mkCls [mkField (S "my_var") ExNone true] PScreaming [] [] [].
Definition ex_reload : args := mkArgs [] true EFDefault None None.
Definition ex_hist (del : pstr) : list op :=
  [OpSet (S "My-Var") (S "A"); OpSet (S "myvar") (S "B"); OpInst ex_cls ex_reload; OpDel del].

Example C18_F13_history :
  snd (instantiate (run (init_state []) (ex_hist (S "myvar"))) ex_cls ex_reload) = OInstance [SEnv (S "My-Var") (S "A")] /\
  snd (instantiate (run (init_state []) (ex_hist (S "My-Var"))) ex_cls ex_reload) = OInstance [SEnv (S "myvar") (S "B")] /\
  deterministic (overlay (user_edits [] (ex_hist (S "myvar"))) [] []) PScreaming [] [] (c_fields ex_cls) = true.
Proof. repeat split; vm_compute; reflexivity. Qed.

(* F37 (repaired by 466ac1d): prefix 'P_' and x = env_field(('Q', 'A', 'B')): P_A and P_B are set, P_A wins *)
Example C18_prefix_tuple :
  snd (instantiate (init_state [(S "P_B", S "2"); (S "P_A", S "1"); (S "A", S "10")])
         (mkCls [mkField (S "x") (ExTuple [S "Q"; S "A"; S "B"]) true] PScreaming (S "P_") [] [])
         (mkArgs [] true EFDefault None None))
  = OInstance [SEnv (S "P_A") (S "1")].
Proof. vm_compute. reflexivity. Qed.

(* a state satisfying the hypotheses of C18_pure with a non-trivial cache, and a one-of region *)
Example C18_pure_hypotheses :
  let st := run (init_state []) [OpSet (S "My-Var") (S "A"); OpSet (S "myvar") (S "B"); OpInst ex_cls ex_reload] in
  EnvInv st /\ environ st = Some [(S "My-Var", S "A"); (S "myvar", S "B")] /\ cleaned st <> None /\
  ref_field [(S "My-Var", S "A"); (S "myvar", S "B")] PScreaming [] [] (mkField (S "my_var") ExNone true)
    = [REnv (S "My-Var"); REnv (S "myvar")] /\
  deterministic [(S "My-Var", S "A"); (S "myvar", S "B")] PScreaming [] [] (c_fields ex_cls) = false.
Proof.
  split; [apply (proj2 (proj2 C18_invariant))|].
  repeat split; vm_compute; try reflexivity. discriminate.
Qed.

(* clean_inj_on holds for a concrete environment with assorted casings *)
Example C18_clean_injective_example :
  clean_inj_on (dom [(S "MY_VAR", S "1"); (S "other-var", S "2"); (S "Third", S "3")]).
Proof.
  split.
  - repeat constructor; cbn [In]; intros H; repeat (destruct H as [H|H]; [discriminate H|]); exact H.
  - cbn [dom map fst In]. intros a b Ha Hb.
    repeat (destruct Ha as [<-|Ha]; [|]); try destruct Ha;
    repeat (destruct Hb as [<-|Hb]; [|]); try destruct Hb; vm_compute; intros E; try reflexivity; discriminate E.
Qed.
