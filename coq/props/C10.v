(* C10 — unknown keys are ignored, rejected or captured exactly as configured.
   Only statements closed by `exact` / short glue, Examples by computation, and
   Print Assumptions.  Model: coq/model/FieldsUnknown.v; proofs:
   coq/proofs/FieldsUnknownProofs.v.  Everything is parametric in the value types and the
   per-field conversion `conv` (for a nested dataclass field: the nested class's loader).

   Two regions are excluded and refuted below (open findings):
   * F41 (default engine): a document key equal to the internal CATCH_ALL sentinel in a
     class with a CatchAll field (`sentinel_freeb`);
   * F19 (v1): two fields sharing a top-level key (AliasPath 'a.b' / 'a.c'), which makes
     the counter `i` over-count (`v1_disjointb`). *)
From DW Require Import PyStr StrConv FieldsMissing FieldsMissingProofs FieldsUnknown FieldsUnknownProofs FieldsUnknownCfgProofs.

Definition sentinel_freeb {raw} (c : v0cls) (d : doc raw) : bool :=
  forallb (fun k => negb (skip_key c k)) (keys d).

Lemma sentinel_freeb_ok {raw} c (d : doc raw) : sentinel_freeb c d = true -> sentinel_free c d.
Proof.
  unfold sentinel_freeb, sentinel_free. rewrite forallb_forall. intros H k Hk.
  apply negb_true_iff. now apply H.
Qed.

Section C10.
Variables raw V : Type.
Variable conv : pstr -> raw -> cres V.

(* ---- default engine ------------------------------------------------------------------- *)

(* The history quantifier: for EVERY class configuration (policy ignore / raise / CatchAll
   with or without default, tag key or not), EVERY sequence of documents loaded one after
   the other through the shared json_to_field cache (arbitrary keys, known or unknown, any
   order; only the F41 region excluded), each outcome is the cache-free specification of
   its own document: earlier loads never change later outcomes. *)
Theorem C10_spec_partial :
  forall (c : v0cls) (docs : list (doc raw)),
  forallb (sentinel_freeb c) docs = true ->
  v0_run conv c (init_cache c) docs = map (v0_spec conv c) docs.
Proof.
  intros c docs H. apply v0_run_spec; [apply init_cache_inv|].
  rewrite forallb_forall in H. apply Forall_forall. intros d Hd. apply sentinel_freeb_ok. now apply H.
Qed.

(* ... in particular the same call repeated n times (n >= 1 included) gives n times the
   specified outcome: `raise` raises EVERY time (F1 stays fixed), CatchAll captures every time *)
Theorem C10_spec_repeat_partial :
  forall (c : v0cls) (d : doc raw) n,
  sentinel_freeb c d = true ->
  v0_run conv c (init_cache c) (repeat d n) = repeat (v0_spec conv c d) n.
Proof. intros c d n H. apply v0_repeat_spec. now apply sentinel_freeb_ok. Qed.

(* the invariant behind it: holds initially, is preserved by every load from ANY cache
   state satisfying it, and under it the outcome is the specification *)
Theorem C10_cache_invariant :
  forall (c : v0cls),
  cache_inv c (init_cache c) /\
  forall st (d : doc raw), cache_inv c st -> sentinel_freeb c d = true ->
    snd (v0_load conv c st d) = v0_spec conv c d /\ cache_inv c (fst (v0_load conv c st d)).
Proof.
  intro c. split; [apply init_cache_inv|]. intros st d Hi Hs.
  apply v0_load_spec; [exact Hi|now apply sentinel_freeb_ok].
Qed.

(* what the specification says.  raise policy: rejected iff some key is unknown, naming the
   first unknown key (document order) and the class; no unknown key -> the constructor call *)
Theorem C10_raise :
  forall (c : v0cls) (d : doc raw),
  c_raise c = true ->
  (forall k v f, In (k, v) d -> classify c k = KMapped f -> exists x, conv f v = CVal x) ->
  match unknown_pairs c d with
  | [] => exists kw, v0_spec conv c d = OKCall kw
  | (k, _) :: _ => v0_spec conv c d = EUnknown (c_name c) [k]
  end.
Proof. intros c d. apply spec_raise. Qed.

(* ignore / CatchAll policies: the kwargs of the mapped fields are those of the document
   with every unknown pair removed (extra keys never change mapped fields) *)
Theorem C10_mapped_unaffected :
  forall (c : v0cls) (d : doc raw), c_raise c = false ->
  match v0_spec_loop conv c d [] [], v0_spec_loop conv c (known_pairs c d) [] [] with
  | inr (kw1, _), inr (kw2, _) => kw1 = kw2
  | inl e1, inl e2 => e1 = e2
  | _, _ => False
  end.
Proof. intros c d H. now apply spec_mapped_frame. Qed.

(* CatchAll: the captured dict is exactly the unknown pairs of the document, verbatim,
   in document order; the tag key (class KTag) and every key that resolves to a field are
   not among them *)
Theorem C10_catchall_exact :
  forall (c : v0cls) (d : doc raw) kw catch,
  c_raise c = false -> has_catch c = true -> NoDup (keys d) ->
  v0_spec_loop conv c d [] [] = inr (kw, catch) ->
  catch = unknown_pairs c d.
Proof.
  intros c d kw catch Hr Hc Hn H.
  exact (spec_catch_exact raw V conv c Hr Hc d [] [] kw catch Hn (fun _ _ H => H) H).
Qed.

(* load then dump: every unknown pair reappears at top level of to_dict(from_dict(d)),
   same key, same value — provided the keys the dumper emits for the fields are not
   themselves unknown keys (C08: a field's dump key resolves to the field) *)
Theorem C10_catchall_rt :
  forall (c : v0cls) (dump_key : pstr -> pstr) cf dflt tag (d : doc raw) kw,
  c_raise c = false -> c_catch c = Some (cf, dflt) -> In cf (c_fields c) ->
  NoDup (keys d) ->
  (forall f, In f (c_fields c) -> classify c (dump_key f) <> KUnknown) ->
  (forall tk t, tag = Some (tk, t) -> c_tag c = Some tk) ->
  v0_spec conv c d = OKCall kw ->
  forall k v, In (k, v) (unknown_pairs c d) ->
  assoc k (to_dict (dump_pairs dump_key (Some cf) tag kw (c_fields c))) = Some (DRaw v).
Proof. intros c dump_key cf dflt tag d kw. apply v0_roundtrip. Qed.

(* ---- v1 ---------------------------------------------------------------------------------- *)

(* the fast path `len(o) != i`: when every key is counted once (no two fields share a key,
   the tag key is no field key) the v1 loader IS its specification (which has no counter):
   RAISE rejects iff some key is in no alias set, naming exactly those keys; a CatchAll
   field receives exactly those pairs (or keeps its default when there are none) *)
Theorem C10_v1_spec_partial :
  forall (c : v1cls) (o : doc raw),
  v1_disjointb c = true -> NoDup (keys o) -> v1_load conv c o = v1_spec conv c o.
Proof.
  intros c o H Hn. apply v1_load_spec; [|exact Hn]. unfold v1_disjoint. now apply nodup_str_NoDup.
Qed.

(* the count lemma, both directions *)
Theorem C10_v1_count :
  forall (c : v1cls) (o : doc raw),
  v1_disjointb c = true -> NoDup (keys o) ->
  (List.length o = v1_count c o -> v1_extras c o = []) /\
  (one_alias_present c o -> v1_extras c o = [] -> List.length o = v1_count c o).
Proof.
  intros c o H Hn. assert (Hd : v1_disjoint c) by (unfold v1_disjoint; now apply nodup_str_NoDup).
  split; [now apply v1_count_sound|now apply v1_count_complete].
Qed.

Theorem C10_v1_catchall_rt :
  forall (c : v1cls) (dump_key : pstr -> pstr) cf dflt tag fields (o : doc raw) kw,
  d_catch c = Some (cf, dflt) -> In cf fields -> NoDup (keys o) ->
  (forall f, In f fields -> In (dump_key f) (v1_aliases c)) ->
  (forall tk t, tag = Some (tk, t) -> In tk (v1_aliases c)) ->
  v1_spec conv c o = OKCall kw ->
  forall k v, In (k, v) (v1_extras c o) ->
  assoc k (to_dict (dump_pairs dump_key (Some cf) tag kw fields)) = Some (DRaw v).
Proof. intros c dump_key cf dflt tag fields o kw. apply v1_roundtrip. Qed.

End C10.

Print Assumptions C10_spec_partial.
Print Assumptions C10_spec_repeat_partial.
Print Assumptions C10_cache_invariant.
Print Assumptions C10_raise.
Print Assumptions C10_mapped_unaffected.
Print Assumptions C10_catchall_exact.
Print Assumptions C10_catchall_rt.
Print Assumptions C10_v1_spec_partial.
Print Assumptions C10_v1_count.
Print Assumptions C10_v1_catchall_rt.

(* ---- refutations outside the regions (faithful model; witnesses replayed on /repo) -------- *)
Definition yconv (f r : pstr) : cres pstr := CVal r.

(* F19: x = AliasPath('a.b'), y = AliasPath('a.c') share the top-level key 'a'; under RAISE
   the document {'a': .., 'zzz': 3} is ACCEPTED by the loader although 'zzz' is unknown *)
Definition F19_cls : v1cls :=
  {| d_name := S "F"; d_fields := [(S "x", [S "a"]); (S "y", [S "a"])];
     d_catch := None; d_tag := None; d_policy := PRaise |}.
Definition F19_doc : doc pstr := [(S "a", S "{b:1,c:2}"); (S "zzz", S "3")].

Theorem C10_v1_refuted_shared_key :
  exists (c : v1cls) (o : doc pstr),
    v1_disjointb c = false /\ NoDup (keys o) /\
    v1_spec yconv c o = EUnknown (d_name c) [S "zzz"] /\
    v1_load yconv c o = OKCall [(S "x", KV (S "{b:1,c:2}")); (S "y", KV (S "{b:1,c:2}"))].
Proof.
  exists F19_cls, F19_doc. split; [vm_compute; reflexivity|]. split.
  - apply nodup_str_NoDup. vm_compute. reflexivity.
  - split; vm_compute; reflexivity.
Qed.
Print Assumptions C10_v1_refuted_shared_key.

(* F41: CatchAll field with a default; the document key '<-|CatchAll|->' is unknown, so the
   specification captures it, but the loader resolves it through the internal entry of
   json_to_field to the name 'extras?' and fails with a bare KeyError *)
Definition F22_cls : v0cls :=
  {| c_name := S "B"; c_fields := [S "my_val"; S "extras"]; c_catch := Some (S "extras", true);
     c_tag := None; c_raise := false |}.
Definition F22_doc : doc pstr := [(S "my_val", S "1"); (sentinel, S "5")].

Theorem C10_refuted_sentinel_key :
  exists (c : v0cls) (d : doc pstr),
    sentinel_freeb c d = false /\ NoDup (keys d) /\
    v0_spec yconv c d = OKCall [(S "my_val", KV (S "1")); (S "extras", KCatch [(sentinel, S "5")])] /\
    snd (v0_load yconv c (init_cache c) d) = EKeyError (S "extras?").
Proof.
  exists F22_cls, F22_doc. split; [vm_compute; reflexivity|]. split.
  - apply nodup_str_NoDup. vm_compute. reflexivity.
  - split; vm_compute; reflexivity.
Qed.
Print Assumptions C10_refuted_sentinel_key.

(* ---- non-vacuity ----------------------------------------------------------------------------- *)
Definition XA : v0cls :=
  {| c_name := S "A"; c_fields := [S "my_val"; S "other"; S "extras"];
     c_catch := Some (S "extras", true); c_tag := Some (S "__tag__"); c_raise := false |}.
Definition XR : v0cls :=
  {| c_name := S "R"; c_fields := [S "my_val"; S "other"]; c_catch := None; c_tag := None; c_raise := true |}.
Definition xd : doc pstr :=
  [(S "myVal", S "1"); (S "zzz", S "3"); (S "__tag__", S "A"); (S "my_vall", S "4"); (S "Other", S "2")].

Example C10_example_region : sentinel_freeb XA xd = true /\ sentinel_freeb XR xd = true.
Proof. split; vm_compute; reflexivity. Qed.

(* three repetitions, each: near-miss key 'my_vall' and 'zzz' captured verbatim, the tag key
   excluded, 'myVal' / 'Other' mapped; under raise the first unknown key every time *)
Example C10_example_catch :
  v0_run yconv XA (init_cache XA) [xd; xd; xd] =
  repeat (OKCall [(S "my_val", KV (S "1")); (S "other", KV (S "2"));
                  (S "extras", KCatch [(S "zzz", S "3"); (S "my_vall", S "4")])]) 3.
Proof. vm_compute. reflexivity. Qed.

Example C10_example_raise :
  v0_run yconv XR (init_cache XR) [xd; xd; [(S "my_val", S "1")]; xd] =
  [EUnknown (S "R") [S "zzz"]; EUnknown (S "R") [S "zzz"]; OKCall [(S "my_val", KV (S "1"))];
   EUnknown (S "R") [S "zzz"]].
Proof. vm_compute. reflexivity. Qed.

Definition XV : v1cls :=
  {| d_name := S "V"; d_fields := [(S "my_val", [S "my_val"]); (S "other", [S "o1"; S "o2"])];
     d_catch := Some (S "extras", true); d_tag := Some (S "__tag__"); d_policy := PIgnore |}.
Example C10_example_v1 :
  v1_disjointb XV = true /\
  v1_load yconv XV [(S "my_val", S "1"); (S "o1", S "2"); (S "o2", S "9"); (S "__tag__", S "V")]
    = OKCall [(S "my_val", KV (S "1")); (S "other", KV (S "2"))] /\
  v1_load yconv XV [(S "my_val", S "1"); (S "myVal", S "2"); (S "__tag__", S "V")]
    = OKCall [(S "my_val", KV (S "1")); (S "extras", KCatch [(S "myVal", S "2")])].
Proof. repeat split; vm_compute; reflexivity. Qed.

(* load then dump on the example: camelCase dump keys resolve to their fields (hypothesis of
   C10_catchall_rt), and the two captured pairs reappear at top level, the tag last *)
Definition xdump_key (f : pstr) : pstr := if pstr_eqb f (S "my_val") then S "myVal" else f.
Example C10_example_rt_hyp :
  forallb (fun f => match classify XA (xdump_key f) with KUnknown => false | _ => true end) (c_fields XA) = true.
Proof. vm_compute. reflexivity. Qed.
Example C10_example_rt :
  to_dict (dump_pairs xdump_key (Some (S "extras")) (Some (S "__tag__", S "A"))
             [(S "my_val", KV (S "1")); (S "other", KV (S "2"));
              (S "extras", KCatch [(S "zzz", S "3"); (S "my_vall", S "4")])] (c_fields XA))
  = [(S "myVal", DField (S "1")); (S "other", DField (S "2")); (S "zzz", DRaw (S "3"));
     (S "my_vall", DRaw (S "4")); (S "__tag__", DTag (S "A"))].
Proof. vm_compute. reflexivity. Qed.

(* ---- open finding F10-C10-alone-first (the hypothesis `cache_inv c st` of C10_cache_invariant
   is what excludes it): the nested class is first loaded ALONE under its default policy
   (ignore), which writes the negative entry 'seen' -> ExplicitNull into the per-class dict;
   the loader generated later under a recursive strict outer Meta (same class, c_raise = true)
   starts from THAT cache, not from init_cache, and accepts the key it should reject.  A key
   that was not seen before is still rejected. *)
Definition AI (r : bool) : v0cls :=
  {| c_name := S "AInner"; c_fields := [S "a"]; c_catch := None; c_tag := None; c_raise := r |}.
Definition AI_alone : doc pstr := [(S "a", S "7"); (S "seen", S "3")].

Theorem C10_refuted_alone_first :
  exists (alone strict : v0cls) (d0 : doc pstr),
    c_fields alone = c_fields strict /\ c_raise alone = false /\ c_raise strict = true /\
    let st := fst (v0_load yconv alone (init_cache alone) d0) in
    v0_spec yconv strict [(S "a", S "2"); (S "seen", S "3")] = EUnknown (S "AInner") [S "seen"] /\
    snd (v0_load yconv strict st [(S "a", S "2"); (S "seen", S "3")]) = OKCall [(S "a", KV (S "2"))] /\
    snd (v0_load yconv strict st [(S "a", S "2"); (S "bogus", S "3")]) = EUnknown (S "AInner") [S "bogus"].
Proof. exists (AI false), (AI true), AI_alone. repeat split; vm_compute; reflexivity. Qed.
Print Assumptions C10_refuted_alone_first.


(* =============================================================================================
   Round 3.  A: how the policy reaches the generator.  B: generations.  C: dump composition.
   ============================================================================================= *)

(* ---- A. configuration -------------------------------------------------------------------- *)

(* For EVERY sequence of Meta binds on a class (inner Meta, LoadMeta, DumpMeta, in any order and
   number; each Meta writing or not writing v1_on_unknown_key / raise_on_unknown_json_key, in any
   spelling) that succeeds: what the generator reads is the LAST explicitly written value —
   for the v1 policy normalised to None or a KeyAction member, never a raw string. *)
Theorem C10_cfg_last_wins :
  forall (bs : list metadict) st, bind_all None bs = BOk st ->
  stored_action st = match last_explicit md_action bs None with Some v => norm_action v | None => PvNone end /\
  stored_raise st = match last_explicit md_raise bs None with Some v => v | None => PvBool false end /\
  is_normal_action (stored_action st) = true /\
  v1_policy_of (stored_action st) = spec_policy bs /\
  py_truthy (stored_raise st) = spec_raise_flag bs.
Proof.
  intros bs st H. destruct (cfg_last_wins bs st H) as [A B]. destruct (cfg_policy bs st H) as (C & D & E).
  repeat split; assumption.
Qed.

(* the binds succeed whenever every written policy is a KeyAction name in some spelling *)
Theorem C10_cfg_valid :
  forall bs, forallb valid_bind bs = true -> exists st, bind_all None bs = BOk st.
Proof. intros bs H. now apply cfg_valid_binds_ok. Qed.

(* string and enum spellings are indistinguishable downstream *)
Theorem C10_cfg_spelling :
  forall bs bs', Forall2 md_equiv bs bs' ->
  spec_policy bs = spec_policy bs' /\ spec_raise_flag bs = spec_raise_flag bs'.
Proof. exact cfg_spelling. Qed.

Example C10_example_spellings :
  Forall2 md_equiv
    [ {| md_action := None; md_raise := Some (PvInt 1) |}; {| md_action := Some (PvStr (S "raise")); md_raise := None |};
      {| md_action := Some (PvStr (S "")); md_raise := Some (PvStr (S "")) |} ]
    [ {| md_action := None; md_raise := Some (PvBool true) |}; {| md_action := Some (PvAction PRaise); md_raise := None |};
      {| md_action := Some PvNone; md_raise := Some (PvBool false) |} ] /\
  bind_all None [ {| md_action := Some (PvStr (S "IGNORE")); md_raise := None |};
                  {| md_action := None; md_raise := Some (PvBool true) |};
                  {| md_action := Some (PvStr (S "Raise")); md_raise := None |} ]
  = BOk (Some {| md_action := Some (PvAction PRaise); md_raise := Some (PvBool true) |}) /\
  bind_all None [ {| md_action := Some (PvStr (S "strict")); md_raise := None |} ] = BParseError.
Proof. split; [repeat constructor|split; vm_compute; reflexivity]. Qed.

Section C10cfg.
Variables raw V : Type.
Variable conv : pstr -> raw -> cres V.

(* composition with the loaders: whatever the entry points, their order and the spellings,
   the v1 loader generated after the binds is the specification under the last written policy *)
Theorem C10_cfg_v1_partial :
  forall (c c' : v1cls) (bs : list metadict) (o : doc raw),
  v1_configured c bs = Some c' -> v1_disjointb c = true -> NoDup (keys o) ->
  v1_load conv c' o = v1_spec conv (v1_with_policy c (spec_policy bs)) o.
Proof.
  intros c c' bs o H Hd Hn. unfold v1_configured in H. destruct (bind_all None bs) as [st|] eqn:E; [|discriminate].
  injection H as <-. destruct (cfg_policy bs st E) as (-> & _ & _).
  apply v1_load_spec; [|exact Hn]. unfold v1_disjoint. apply nodup_str_NoDup. exact Hd.
Qed.

(* default engine: every history of loads after the binds, under the last written flag *)
Theorem C10_cfg_v0_partial :
  forall (c c' : v0cls) (bs : list metadict) (docs : list (doc raw)),
  v0_configured c bs = Some c' -> forallb (sentinel_freeb c) docs = true ->
  v0_run conv c' (init_cache c') docs = map (v0_spec conv (v0_with_raise c (spec_raise_flag bs))) docs.
Proof.
  intros c c' bs docs H Hs. unfold v0_configured in H. destruct (bind_all None bs) as [st|] eqn:E; [|discriminate].
  injection H as <-. destruct (cfg_policy bs st E) as (_ & -> & _).
  apply C10_spec_partial. exact Hs.
Qed.

(* ---- B. generations ------------------------------------------------------------------------ *)

(* For ALL histories of generations and loads across roots (a class is generated once per root
   that nests it and once alone): every load is served as by a loader generated from the
   PRISTINE class — no generation consumes what the next one reads. *)
Theorem C10_gen_history :
  forall (src : v1src) (pol : nat -> v1policy) (ops : list (gop raw)),
  g_run conv src pol (g_init src) ops = g_ref conv src pol ops.
Proof. intros. apply g_run_ref. apply gen_inv_init. Qed.

(* ... so the outcomes of the loads do not depend on how many generations are interleaved *)
Theorem C10_gen_count_independent :
  forall (src : v1src) (pol : nat -> v1policy) (ops ops' : list (gop raw)),
  @loads_of raw ops = @loads_of raw ops' ->
  g_run conv src pol (g_init src) ops = g_run conv src pol (g_init src) ops'.
Proof. intros. now apply g_run_generation_independent. Qed.

(* and for a regular class (dataclass order; the '?' of the marker agrees with the CatchAll
   field having a default — which holds for EVERY class since fix d23b12f, see
   C10_gen_class_regular) every load of every history is the counter-free, position-free
   specification; the generation never fails.  `_partial`: only the F19 region
   (two fields sharing a key) stays excluded. *)
Theorem C10_gen_history_spec_partial :
  forall (src : v1src) (pol : nat -> v1policy) (ops : list (gop raw)),
  src_regular src = true ->
  (forall p g, v1_generate src (s_init src) p = GenOk g -> v1_disjointb (g_cls g) = true) ->
  (forall r o, In (r, o) (@loads_of raw ops) -> NoDup (keys o)) ->
  g_run conv src pol (g_init src) ops =
  map (fun ro => match v1_generate src (s_init src) (pol (fst ro)) with
                 | GenOk g => GOut (v1_spec conv (g_cls g) (snd ro))
                 | GenValueError => GValueError
                 end) (@loads_of raw ops).
Proof.
  intros src pol ops Hr Hd Hn. apply g_run_spec; [exact Hr| |exact Hn].
  intros p g E. unfold v1_disjoint. apply nodup_str_NoDup. eapply Hd; eauto.
Qed.

Theorem C10_gen_never_fails :
  forall (src : v1src) (p : v1policy),
  (forall cf q, s_catch src = Some (cf, q) -> In cf (map if_name (s_init src))) ->
  exists g, v1_generate src (s_init src) p = GenOk g.
Proof. exact gen_pristine_ok. Qed.

(* after fix d23b12f (F91) class_helper writes the '?' of the marker from the field itself
   (default OR default_factory): EVERY class in dataclass order with distinct field names is
   regular — whatever kind of default the CatchAll field has and wherever it is declared — and
   its generation cannot fail *)
Theorem C10_gen_class_regular :
  forall name (init : list ifield) (catch tag : option pstr),
  req_then_opt init = true -> NoDup (map if_name init) ->
  src_regular (mk_src name init catch tag) = true /\
  forall p, exists g, v1_generate (mk_src name init catch tag) init p = GenOk g.
Proof.
  intros name init catch tag Hr Hn. split; [now apply mk_src_regular|].
  intro p. apply (gen_pristine_ok (mk_src name init catch tag) p). apply mk_src_catch_in.
Qed.

(* the former F91 region stated positively: a CatchAll field with a default — plain or
   default_factory — declared ANYWHERE among the defaulted fields (in particular after a
   defaulted field) gets the '?' marker, is passed by keyword (it is not among the positional
   arguments), every positional value lands in its own parameter, and every load of every
   history is the specification: exactly the unknown pairs, mapped fields untouched *)
Theorem C10_gen_default_factory :
  forall name (init : list ifield) cf tag f (pol : nat -> v1policy) (ops : list (gop raw)),
  req_then_opt init = true -> NoDup (map if_name init) ->
  find (fun f => pstr_eqb (if_name f) cf) init = Some f -> if_default f = true ->
  let src := mk_src name init (Some cf) tag in
  (forall p, exists g, v1_generate src init p = GenOk g /\ pos_ok src g = true /\
                       d_catch (g_cls g) = Some (cf, true) /\ ~ In cf (g_pos g)) /\
  ((forall p g, v1_generate src init p = GenOk g -> v1_disjointb (g_cls g) = true) ->
   (forall r o, In (r, o) (@loads_of raw ops) -> NoDup (keys o)) ->
   g_run conv src pol (g_init src) ops =
   map (fun ro => match v1_generate src init (pol (fst ro)) with
                  | GenOk g => GOut (v1_spec conv (g_cls g) (snd ro))
                  | GenValueError => GValueError
                  end) (@loads_of raw ops)).
Proof.
  intros name init cf tag f pol ops Hr Hn Ef Hd src. split.
  - intro p. now apply (gen_defaulted_catch_by_keyword name init cf tag p f).
  - intros Hdis Hdocs. apply (C10_gen_history_spec_partial src pol ops); [now apply mk_src_regular|exact Hdis|exact Hdocs].
Qed.

(* default engine: the loaders generated for one class under several roots share its cache and
   differ in the raise flag.  For ALL histories of loads across roots in which no load under an
   ignore-policy generation precedes a load under a raise-policy generation, every outcome is the
   cache-free specification under ITS root's policy.  (The excluded histories are the open
   finding F10-C10-alone-first: C10_refuted_alone_first.) *)
Theorem C10_multi_root_partial :
  forall (c : v0cls) (rz : nat -> bool) (ops : list (nat * doc raw)),
  strict_then_lax rz ops = true ->
  forallb (fun ro => sentinel_freeb c (snd ro)) ops = true ->
  v0_multi_run conv c rz (init_cache c) ops =
  map (fun ro => v0_spec conv (v0_with_raise c (rz (fst ro))) (snd ro)) ops.
Proof.
  intros c rz ops Hl Hs. apply multi_root_spec; [exact (init_cache_inv (v0_with_raise c true))|exact Hl|].
  rewrite forallb_forall in Hs. apply Forall_forall. intros ro Hin. apply sentinel_freeb_ok. now apply Hs.
Qed.

(* ---- C. dump ------------------------------------------------------------------------------- *)

(* For ALL dump-side settings (exclude set, skip_defaults, Meta.skip_if, Meta.skip_defaults_if, a
   SkipIf on any field including the CatchAll field, key transform, tag), all truth tables of
   the conditions (every operator, every value, TypeErrors included), all instances: when
   cls_asdict returns, the pairs written by the CatchAll branch are EXACTLY the captured items,
   in order — or none when the CatchAll FIELD is selected by exclude / the skip-defaults rule
   (`catch_field_skipped`, which mentions neither Meta.skip_if nor any per-field SkipIf). *)
Theorem C10_dump_catch_exact :
  forall (cond : Type) (ctest : cond -> pstr -> option bool) (is_dflt : pstr -> bool)
         (cfg : dumpcfg cond) (args : dumpargs) (inst : list (pstr * kwval raw V)) cf items pairs,
  dc_catch cfg = Some cf -> NoDup (dc_fields cfg) -> In cf (dc_fields cfg) ->
  assoc cf inst = Some (KCatch items) ->
  dump_cfg ctest is_dflt cfg args inst = Some pairs ->
  filter (@is_xraw raw V) pairs =
    if catch_field_skipped ctest is_dflt cfg args cf then [] else raw_items raw V items.
Proof. intros. eapply dump_cfg_catch_exact; eauto. Qed.

(* two configurations that differ only in Meta.skip_if and the per-field SkipIf conditions
   write the same captured pairs *)
Theorem C10_dump_skip_if_irrelevant :
  forall (cond : Type) (ctest : cond -> pstr -> option bool) (is_dflt : pstr -> bool)
         (cfg cfg' : dumpcfg cond) (args : dumpargs) (inst : list (pstr * kwval raw V)) cf items pairs pairs',
  dc_catch cfg = Some cf -> dc_catch cfg' = Some cf ->
  dc_fields cfg' = dc_fields cfg -> dc_has_default cfg' cf = dc_has_default cfg cf ->
  dc_skip_defaults_if cfg' = dc_skip_defaults_if cfg ->
  NoDup (dc_fields cfg) -> In cf (dc_fields cfg) -> assoc cf inst = Some (KCatch items) ->
  dump_cfg ctest is_dflt cfg args inst = Some pairs ->
  dump_cfg ctest is_dflt cfg' args inst = Some pairs' ->
  filter (@is_xraw raw V) pairs = filter (@is_xraw raw V) pairs'.
Proof.
  intros cond ctest is_dflt cfg cfg' args inst cf items pairs pairs' Hc Hc' Hf Hd Hs Hn Hin Hi H H'.
  rewrite (dump_cfg_catch_exact raw V cond ctest is_dflt cfg args inst cf items pairs Hc Hn Hin Hi H).
  assert (Hn' : NoDup (dc_fields cfg')) by now rewrite Hf.
  assert (Hin' : In cf (dc_fields cfg')) by now rewrite Hf.
  rewrite (dump_cfg_catch_exact raw V cond ctest is_dflt cfg' args inst cf items pairs' Hc' Hn' Hin' Hi H').
  unfold catch_field_skipped. now rewrite Hd, Hs.
Qed.

(* load then dump under any dump configuration, v1: the instance holds what the loader passed
   for the CatchAll field; unless that FIELD is skipped, to_dict(from_dict(d))[k] = v for every
   unknown pair (the other fields' dump keys being keys of the class, as in C10_v1_catchall_rt) *)
Theorem C10_dump_catch_rt_v1 :
  forall (cond : Type) (ctest : cond -> pstr -> option bool) (is_dflt : pstr -> bool)
         (c : v1cls) (cfg : dumpcfg cond) (args : dumpargs) cf dflt (o : doc raw) kw
         (inst : list (pstr * kwval raw V)) pairs,
  d_catch c = Some (cf, dflt) -> dc_catch cfg = Some cf -> NoDup (dc_fields cfg) -> In cf (dc_fields cfg) ->
  NoDup (keys o) -> v1_spec conv c o = OKCall kw -> v1_extras c o <> [] ->
  assoc cf inst = assoc cf kw ->
  dump_cfg ctest is_dflt cfg args inst = Some pairs ->
  catch_field_skipped ctest is_dflt cfg args cf = false ->
  (forall f, In f (dc_fields cfg) -> is_catch cfg f = false -> In (dc_key cfg f) (v1_aliases c)) ->
  (forall tk t, dc_tag cfg = Some (tk, t) -> In tk (v1_aliases c)) ->
  forall k v, In (k, v) (v1_extras c o) -> assoc k (to_dict pairs) = Some (XRaw v).
Proof.
  intros cond ctest is_dflt c cfg args cf dflt o kw inst pairs Hc Hdc Hn Hin Hno Hs Hne Hi Hd Hsk Hkey Htag k v Hkv.
  rewrite (v1_spec_catch_kw raw V conv c cf dflt o kw Hc Hs Hne) in Hi.
  assert (Uk : ~ In k (v1_aliases c)).
  { unfold v1_extras in Hkv. apply filter_In in Hkv as [_ H]. cbn [fst] in H.
    apply negb_true_iff in H. now apply mem_false in H. }
  eapply dump_cfg_contains; eauto.
  - unfold v1_extras. now apply keys_filter_nodup.
  - intros f Hf Hcf E. apply Uk. rewrite <- E. now apply Hkey.
  - intros tk t Ht E. apply Uk. rewrite <- E. eapply Htag; eauto.
Qed.

(* the same for the default engine *)
Theorem C10_dump_catch_rt_v0 :
  forall (cond : Type) (ctest : cond -> pstr -> option bool) (is_dflt : pstr -> bool)
         (c : v0cls) (cfg : dumpcfg cond) (args : dumpargs) cf dflt (d : doc raw) kw
         (inst : list (pstr * kwval raw V)) pairs,
  c_raise c = false -> c_catch c = Some (cf, dflt) -> dc_catch cfg = Some cf ->
  NoDup (dc_fields cfg) -> In cf (dc_fields cfg) -> NoDup (keys d) ->
  v0_spec conv c d = OKCall kw -> unknown_pairs c d <> [] ->
  assoc cf inst = assoc cf kw ->
  dump_cfg ctest is_dflt cfg args inst = Some pairs ->
  catch_field_skipped ctest is_dflt cfg args cf = false ->
  (forall f, In f (dc_fields cfg) -> is_catch cfg f = false -> classify c (dc_key cfg f) <> KUnknown) ->
  (forall tk t, dc_tag cfg = Some (tk, t) -> c_tag c = Some tk) ->
  forall k v, In (k, v) (unknown_pairs c d) -> assoc k (to_dict pairs) = Some (XRaw v).
Proof.
  intros cond ctest is_dflt c cfg args cf dflt d kw inst pairs Hr Hc Hdc Hn Hin Hno Hs Hne Hi Hd Hsk Hkey Htag k v Hkv.
  rewrite (v0_spec_catch_kw raw V conv c cf dflt d kw Hr Hc Hno Hs Hne) in Hi.
  assert (Uk : classify c k = KUnknown).
  { unfold unknown_pairs in Hkv. apply filter_In in Hkv as [_ H]. cbn [fst] in H.
    destruct (classify c k); try discriminate. reflexivity. }
  eapply dump_cfg_contains; eauto.
  - unfold unknown_pairs. now apply keys_filter_nodup.
  - intros f Hf Hcf E. apply (Hkey f Hf Hcf). now rewrite E.
  - intros tk t Ht E. apply (tag_not_unknown c tk (Htag tk t Ht)). now rewrite E.
Qed.

End C10cfg.

Print Assumptions C10_cfg_last_wins.
Print Assumptions C10_cfg_valid.
Print Assumptions C10_cfg_spelling.
Print Assumptions C10_cfg_v1_partial.
Print Assumptions C10_cfg_v0_partial.
Print Assumptions C10_gen_history.
Print Assumptions C10_gen_count_independent.
Print Assumptions C10_gen_history_spec_partial.
Print Assumptions C10_gen_never_fails.
Print Assumptions C10_gen_class_regular.
Print Assumptions C10_gen_default_factory.
Print Assumptions C10_multi_root_partial.
Print Assumptions C10_dump_catch_exact.
Print Assumptions C10_dump_skip_if_irrelevant.
Print Assumptions C10_dump_catch_rt_v1.
Print Assumptions C10_dump_catch_rt_v0.

(* ---- B: non-vacuity, and the open finding F91 ------------------------------------------------- *)
Definition fld (n : pstr) (d : bool) : ifield := {| if_name := n; if_keys := [n]; if_default := d |}.

(* Item(name, extra: CatchAll = None, qty = 1): regular; nested under two roots and used alone,
   generated five times in all: every load captures exactly its unknown keys *)
Definition XItem : v1src :=
  {| s_name := S "Item"; s_init := [fld (S "name") false; fld (S "extra") true; fld (S "qty") true];
     s_catch := Some (S "extra", true); s_tag := None |}.
Definition xitem_doc : doc pstr := [(S "name", S "pen"); (S "qty", S "2"); (S "colour", S "blue")].

Example C10_example_generations :
  src_regular XItem = true /\
  g_run yconv XItem (fun _ => PIgnore) (g_init XItem)
    [OpLoad 0 xitem_doc; OpGen 1; OpGen 2; OpLoad 1 xitem_doc; OpGen 0; OpLoad 2 [(S "name", S "ink")]; OpLoad 0 xitem_doc]
  = [GOut (OKCall [(S "name", KV (S "pen")); (S "qty", KV (S "2")); (S "extra", KCatch [(S "colour", S "blue")])]);
     GOut (OKCall [(S "name", KV (S "pen")); (S "qty", KV (S "2")); (S "extra", KCatch [(S "colour", S "blue")])]);
     GOut (OKCall [(S "name", KV (S "ink"))]);
     GOut (OKCall [(S "name", KV (S "pen")); (S "qty", KV (S "2")); (S "extra", KCatch [(S "colour", S "blue")])])].
Proof. split; vm_compute; reflexivity. Qed.

(* why the table must not be consumed: a generator that hands its shortened list back as the
   table makes the SECOND generation fail (`tuple.index(x): x not in tuple`) *)
Example C10_example_consumed_table :
  let tbl1 := remove_nth 1 (s_init XItem) in
  (exists g, v1_generate XItem (s_init XItem) PIgnore = GenOk g) /\
  v1_generate XItem tbl1 PIgnore = GenValueError.
Proof. split; [eexists|]; vm_compute; reflexivity. Qed.

(* F91 (FIXED by d23b12f).  The class of the former witness, the marker written by the repaired
   class_helper: the unknown key is captured, `b` keeps its default; a document giving `b` loads;
   the same through a second generation *)
Definition F91_init : list ifield := [fld (S "a") false; fld (S "b") true; fld (S "rest") true].
Definition F91_src : v1src := mk_src (S "A") F91_init (Some (S "rest")) None.

Example C10_example_default_factory :
  s_catch F91_src = Some (S "rest", true) /\ src_regular F91_src = true /\
  g_run yconv F91_src (fun _ => PIgnore) (g_init F91_src)
    [OpLoad 0 [(S "a", S "1"); (S "zz", S "5")]; OpGen 1; OpLoad 1 [(S "a", S "1"); (S "b", S "2")];
     OpLoad 0 [(S "a", S "1")]; OpLoad 1 [(S "a", S "1"); (S "b", S "2"); (S "zz", S "5")]]
  = [GOut (OKCall [(S "a", KV (S "1")); (S "rest", KCatch [(S "zz", S "5")])]);
     GOut (OKCall [(S "a", KV (S "1")); (S "b", KV (S "2"))]);
     GOut (OKCall [(S "a", KV (S "1"))]);
     GOut (OKCall [(S "a", KV (S "1")); (S "b", KV (S "2")); (S "rest", KCatch [(S "zz", S "5")])])].
Proof. repeat split; vm_compute; reflexivity. Qed.

(* the PRE-FIX class_helper gave a default_factory CatchAll field no '?' (it tested only
   `f.default`): with that marker the generator passes the variable POSITIONALLY at
   `catch_all_idx`, but the positional list holds only the required fields — the captured dict
   lands in `b` (an unknown key changes a mapped field) and a document giving `b` is a bare
   TypeError.  Kept as a statement about the explicitly named pre-fix marker: a revert of
   d23b12f makes the implementation behave like THIS model, not like `mk_src`. *)
Definition pre_fix_F91_src : v1src :=
  {| s_name := S "A"; s_init := F91_init; s_catch := Some (S "rest", false); s_tag := None |}.

Theorem C10_gen_pre_fix_refuted :
  exists (g : v1gen),
    s_catch pre_fix_F91_src <> class_marker F91_init (Some (S "rest")) /\
    src_regular pre_fix_F91_src = false /\ v1_generate pre_fix_F91_src F91_init PIgnore = GenOk g /\
    v1_disjointb (g_cls g) = true /\ pos_ok pre_fix_F91_src g = false /\
    v1_spec yconv (g_cls g) [(S "a", S "1"); (S "zz", S "5")]
      = OKCall [(S "a", KV (S "1")); (S "rest", KCatch [(S "zz", S "5")])] /\
    v1g_load yconv pre_fix_F91_src g [(S "a", S "1"); (S "zz", S "5")]
      = GOut (OKCall [(S "a", KV (S "1")); (S "b", KCatch [(S "zz", S "5")])]) /\
    v1g_load yconv pre_fix_F91_src g [(S "a", S "1"); (S "b", S "2")] = GTypeError (S "b").
Proof.
  eexists. split; [vm_compute; discriminate|]. split; [vm_compute; reflexivity|]. split; [vm_compute; reflexivity|].
  repeat split; vm_compute; reflexivity.
Qed.
Print Assumptions C10_gen_pre_fix_refuted.

(* two roots, the strict one used first: the second load (lax root) drops 'seen', the third
   (strict root again) still rejects a NEW key... and would accept 'seen' (F10-C10-alone-first) *)
Example C10_example_multi_root :
  strict_then_lax (fun r => Nat.eqb r 1) [(1, AI_alone); (0, AI_alone)] = true /\
  v0_multi_run yconv (AI false) (fun r => Nat.eqb r 1) (init_cache (AI false)) [(1, AI_alone); (0, AI_alone)]
  = [EUnknown (S "AInner") [S "seen"]; OKCall [(S "a", KV (S "7"))]].
Proof. split; vm_compute; reflexivity. Qed.

(* ---- C: non-vacuity ---------------------------------------------------------------------------- *)
(* class (my_val, other = .., extras: CatchAll = None), Meta.skip_if = IS_TRUTHY(),
   Meta.skip_defaults_if = IS(None), a SkipIf(IS_TRUTHY()) on the CatchAll field itself,
   exclude = ['other']: the truthy my_val is skipped, `other` is excluded, the captured pairs stay *)
Definition xcfg (sdi : option nat) : dumpcfg nat :=
  {| dc_fields := [S "my_val"; S "other"; S "extras"]; dc_key := xdump_key; dc_catch := Some (S "extras");
     dc_has_default := fun f => negb (pstr_eqb f (S "my_val")); dc_skip_if := Some 0; dc_skip_defaults_if := sdi;
     dc_field_skip := fun f => if pstr_eqb f (S "extras") then Some 0 else None; dc_tag := Some (S "__tag__", S "A") |}.
Definition xtest (c : nat) (f : pstr) : option bool :=      (* 0 = IS_TRUTHY(), 1 = IS(None): on this instance *)
  match c with 0 => Some true | _ => Some false end.
Definition xinst : list (pstr * kwval pstr pstr) :=
  [(S "my_val", KV (S "1")); (S "other", KV (S "2")); (S "extras", KCatch [(S "zzz", S "3"); (S "my_vall", S "4")])].

Example C10_example_dump_cfg :
  dump_cfg xtest (fun _ => false) (xcfg (Some 1)) {| da_exclude := Some [S "other"]; da_skip_defaults := true |} xinst
    = Some [(S "zzz", XRaw (S "3")); (S "my_vall", XRaw (S "4")); (S "__tag__", XTag (S "A"))] /\
  (* Meta.skip_defaults_if = IS_TRUTHY(): the CatchAll field is a defaulted field whose value satisfies it *)
  dump_cfg xtest (fun _ => false) (xcfg (Some 0)) {| da_exclude := None; da_skip_defaults := true |} xinst
    = Some [(S "__tag__", XTag (S "A"))] /\
  catch_field_skipped xtest (fun _ => false) (xcfg (Some 0)) {| da_exclude := None; da_skip_defaults := true |} (S "extras") = true.
Proof. repeat split; vm_compute; reflexivity. Qed.
