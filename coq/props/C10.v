(* C10 — unknown keys are ignored, rejected or captured exactly as configured.
   Only statements closed by `exact` / short glue, Examples by computation, and
   Print Assumptions.  Model: coq/model/FieldsUnknown.v; proofs:
   coq/proofs/FieldsUnknownProofs.v.  Everything is parametric in the value types and the
   per-field conversion `conv` (for a nested dataclass field: the nested class's loader).

   Two regions are excluded and refuted below (open findings):
   * F41 (default engine): a document key equal to the internal CATCH_ALL sentinel in a
     class with a CatchAll field (`sentinel_freeb`);
   * F19 (v1): two fields sharing a top-level key (AliasPath 'a.b' / 'a.c'), which makes
     the counter `i` over-count (`v1_disjointb`). *)
From DW Require Import PyStr StrConv FieldsMissing FieldsMissingProofs FieldsUnknown FieldsUnknownProofs.

Definition sentinel_freeb {raw} (c : v0cls) (d : doc raw) : bool :=
  forallb (fun k => negb (skip_key c k)) (keys d).

Lemma sentinel_freeb_ok {raw} c (d : doc raw) : sentinel_freeb c d = true -> sentinel_free c d.
Proof.
  unfold sentinel_freeb, sentinel_free. rewrite forallb_forall. intros H k Hk.
  apply negb_true_iff. now apply H.
Qed.

Section C10.
Variables raw V : Type.
Variable conv : pstr -> raw -> cres V.

(* ---- default engine ------------------------------------------------------------------- *)

(* The history quantifier: for EVERY class configuration (policy ignore / raise / CatchAll
   with or without default, tag key or not), EVERY sequence of documents loaded one after
   the other through the shared json_to_field cache (arbitrary keys, known or unknown, any
   order; only the F41 region excluded), each outcome is the cache-free specification of
   its own document: earlier loads never change later outcomes. *)
Theorem C10_spec_partial :
  forall (c : v0cls) (docs : list (doc raw)),
  forallb (sentinel_freeb c) docs = true ->
  v0_run conv c (init_cache c) docs = map (v0_spec conv c) docs.
Proof.
  intros c docs H. apply v0_run_spec; [apply init_cache_inv|].
  rewrite forallb_forall in H. apply Forall_forall. intros d Hd. apply sentinel_freeb_ok. now apply H.
Qed.

(* ... in particular the same call repeated n times (n >= 1 included) gives n times the
   specified outcome: `raise` raises EVERY time (F1 stays fixed), CatchAll captures every time *)
Theorem C10_spec_repeat_partial :
  forall (c : v0cls) (d : doc raw) n,
  sentinel_freeb c d = true ->
  v0_run conv c (init_cache c) (repeat d n) = repeat (v0_spec conv c d) n.
Proof. intros c d n H. apply v0_repeat_spec. now apply sentinel_freeb_ok. Qed.

(* the invariant behind it: holds initially, is preserved by every load from ANY cache
   state satisfying it, and under it the outcome is the specification *)
Theorem C10_cache_invariant :
  forall (c : v0cls),
  cache_inv c (init_cache c) /\
  forall st (d : doc raw), cache_inv c st -> sentinel_freeb c d = true ->
    snd (v0_load conv c st d) = v0_spec conv c d /\ cache_inv c (fst (v0_load conv c st d)).
Proof.
  intro c. split; [apply init_cache_inv|]. intros st d Hi Hs.
  apply v0_load_spec; [exact Hi|now apply sentinel_freeb_ok].
Qed.

(* what the specification says.  raise policy: rejected iff some key is unknown, naming the
   first unknown key (document order) and the class; no unknown key -> the constructor call *)
Theorem C10_raise :
  forall (c : v0cls) (d : doc raw),
  c_raise c = true ->
  (forall k v f, In (k, v) d -> classify c k = KMapped f -> exists x, conv f v = CVal x) ->
  match unknown_pairs c d with
  | [] => exists kw, v0_spec conv c d = OKCall kw
  | (k, _) :: _ => v0_spec conv c d = EUnknown (c_name c) [k]
  end.
Proof. intros c d. apply spec_raise. Qed.

(* ignore / CatchAll policies: the kwargs of the mapped fields are those of the document
   with every unknown pair removed (extra keys never change mapped fields) *)
Theorem C10_mapped_unaffected :
  forall (c : v0cls) (d : doc raw), c_raise c = false ->
  match v0_spec_loop conv c d [] [], v0_spec_loop conv c (known_pairs c d) [] [] with
  | inr (kw1, _), inr (kw2, _) => kw1 = kw2
  | inl e1, inl e2 => e1 = e2
  | _, _ => False
  end.
Proof. intros c d H. now apply spec_mapped_frame. Qed.

(* CatchAll: the captured dict is exactly the unknown pairs of the document, verbatim,
   in document order; the tag key (class KTag) and every key that resolves to a field are
   not among them *)
Theorem C10_catchall_exact :
  forall (c : v0cls) (d : doc raw) kw catch,
  c_raise c = false -> has_catch c = true -> NoDup (keys d) ->
  v0_spec_loop conv c d [] [] = inr (kw, catch) ->
  catch = unknown_pairs c d.
Proof.
  intros c d kw catch Hr Hc Hn H.
  exact (spec_catch_exact raw V conv c Hr Hc d [] [] kw catch Hn (fun _ _ H => H) H).
Qed.

(* load then dump: every unknown pair reappears at top level of to_dict(from_dict(d)),
   same key, same value — provided the keys the dumper emits for the fields are not
   themselves unknown keys (C08: a field's dump key resolves to the field) *)
Theorem C10_catchall_rt :
  forall (c : v0cls) (dump_key : pstr -> pstr) cf dflt tag (d : doc raw) kw,
  c_raise c = false -> c_catch c = Some (cf, dflt) -> In cf (c_fields c) ->
  NoDup (keys d) ->
  (forall f, In f (c_fields c) -> classify c (dump_key f) <> KUnknown) ->
  (forall tk t, tag = Some (tk, t) -> c_tag c = Some tk) ->
  v0_spec conv c d = OKCall kw ->
  forall k v, In (k, v) (unknown_pairs c d) ->
  assoc k (to_dict (dump_pairs dump_key (Some cf) tag kw (c_fields c))) = Some (DRaw v).
Proof. intros c dump_key cf dflt tag d kw. apply v0_roundtrip. Qed.

(* ---- v1 ---------------------------------------------------------------------------------- *)

(* the fast path `len(o) != i`: when every key is counted once (no two fields share a key,
   the tag key is no field key) the v1 loader IS its specification (which has no counter):
   RAISE rejects iff some key is in no alias set, naming exactly those keys; a CatchAll
   field receives exactly those pairs (or keeps its default when there are none) *)
Theorem C10_v1_spec_partial :
  forall (c : v1cls) (o : doc raw),
  v1_disjointb c = true -> NoDup (keys o) -> v1_load conv c o = v1_spec conv c o.
Proof.
  intros c o H Hn. apply v1_load_spec; [|exact Hn]. unfold v1_disjoint. now apply nodup_str_NoDup.
Qed.

(* the count lemma, both directions *)
Theorem C10_v1_count :
  forall (c : v1cls) (o : doc raw),
  v1_disjointb c = true -> NoDup (keys o) ->
  (List.length o = v1_count c o -> v1_extras c o = []) /\
  (one_alias_present c o -> v1_extras c o = [] -> List.length o = v1_count c o).
Proof.
  intros c o H Hn. assert (Hd : v1_disjoint c) by (unfold v1_disjoint; now apply nodup_str_NoDup).
  split; [now apply v1_count_sound|now apply v1_count_complete].
Qed.

Theorem C10_v1_catchall_rt :
  forall (c : v1cls) (dump_key : pstr -> pstr) cf dflt tag fields (o : doc raw) kw,
  d_catch c = Some (cf, dflt) -> In cf fields -> NoDup (keys o) ->
  (forall f, In f fields -> In (dump_key f) (v1_aliases c)) ->
  (forall tk t, tag = Some (tk, t) -> In tk (v1_aliases c)) ->
  v1_spec conv c o = OKCall kw ->
  forall k v, In (k, v) (v1_extras c o) ->
  assoc k (to_dict (dump_pairs dump_key (Some cf) tag kw fields)) = Some (DRaw v).
Proof. intros c dump_key cf dflt tag fields o kw. apply v1_roundtrip. Qed.

End C10.

Print Assumptions C10_spec_partial.
Print Assumptions C10_spec_repeat_partial.
Print Assumptions C10_cache_invariant.
Print Assumptions C10_raise.
Print Assumptions C10_mapped_unaffected.
Print Assumptions C10_catchall_exact.
Print Assumptions C10_catchall_rt.
Print Assumptions C10_v1_spec_partial.
Print Assumptions C10_v1_count.
Print Assumptions C10_v1_catchall_rt.

(* ---- refutations outside the regions (faithful model; witnesses replayed on /repo) -------- *)
Definition yconv (f r : pstr) : cres pstr := CVal r.

(* F19: x = AliasPath('a.b'), y = AliasPath('a.c') share the top-level key 'a'; under RAISE
   the document {'a': .., 'zzz': 3} is ACCEPTED by the loader although 'zzz' is unknown *)
Definition F19_cls : v1cls :=
  {| d_name := S "F"; d_fields := [(S "x", [S "a"]); (S "y", [S "a"])];
     d_catch := None; d_tag := None; d_policy := PRaise |}.
Definition F19_doc : doc pstr := [(S "a", S "{b:1,c:2}"); (S "zzz", S "3")].

Theorem C10_v1_refuted_shared_key :
  exists (c : v1cls) (o : doc pstr),
    v1_disjointb c = false /\ NoDup (keys o) /\
    v1_spec yconv c o = EUnknown (d_name c) [S "zzz"] /\
    v1_load yconv c o = OKCall [(S "x", KV (S "{b:1,c:2}")); (S "y", KV (S "{b:1,c:2}"))].
Proof.
  exists F19_cls, F19_doc. split; [vm_compute; reflexivity|]. split.
  - apply nodup_str_NoDup. vm_compute. reflexivity.
  - split; vm_compute; reflexivity.
Qed.
Print Assumptions C10_v1_refuted_shared_key.

(* F41: CatchAll field with a default; the document key '<-|CatchAll|->' is unknown, so the
   specification captures it, but the loader resolves it through the internal entry of
   json_to_field to the name 'extras?' and fails with a bare KeyError *)
Definition F22_cls : v0cls :=
  {| c_name := S "B"; c_fields := [S "my_val"; S "extras"]; c_catch := Some (S "extras", true);
     c_tag := None; c_raise := false |}.
Definition F22_doc : doc pstr := [(S "my_val", S "1"); (sentinel, S "5")].

Theorem C10_refuted_sentinel_key :
  exists (c : v0cls) (d : doc pstr),
    sentinel_freeb c d = false /\ NoDup (keys d) /\
    v0_spec yconv c d = OKCall [(S "my_val", KV (S "1")); (S "extras", KCatch [(sentinel, S "5")])] /\
    snd (v0_load yconv c (init_cache c) d) = EKeyError (S "extras?").
Proof.
  exists F22_cls, F22_doc. split; [vm_compute; reflexivity|]. split.
  - apply nodup_str_NoDup. vm_compute. reflexivity.
  - split; vm_compute; reflexivity.
Qed.
Print Assumptions C10_refuted_sentinel_key.

(* ---- non-vacuity ----------------------------------------------------------------------------- *)
Definition XA : v0cls :=
  {| c_name := S "A"; c_fields := [S "my_val"; S "other"; S "extras"];
     c_catch := Some (S "extras", true); c_tag := Some (S "__tag__"); c_raise := false |}.
Definition XR : v0cls :=
  {| c_name := S "R"; c_fields := [S "my_val"; S "other"]; c_catch := None; c_tag := None; c_raise := true |}.
Definition xd : doc pstr :=
  [(S "myVal", S "1"); (S "zzz", S "3"); (S "__tag__", S "A"); (S "my_vall", S "4"); (S "Other", S "2")].

Example C10_example_region : sentinel_freeb XA xd = true /\ sentinel_freeb XR xd = true.
Proof. split; vm_compute; reflexivity. Qed.

(* three repetitions, each: near-miss key 'my_vall' and 'zzz' captured verbatim, the tag key
   excluded, 'myVal' / 'Other' mapped; under raise the first unknown key every time *)
Example C10_example_catch :
  v0_run yconv XA (init_cache XA) [xd; xd; xd] =
  repeat (OKCall [(S "my_val", KV (S "1")); (S "other", KV (S "2"));
                  (S "extras", KCatch [(S "zzz", S "3"); (S "my_vall", S "4")])]) 3.
Proof. vm_compute. reflexivity. Qed.

Example C10_example_raise :
  v0_run yconv XR (init_cache XR) [xd; xd; [(S "my_val", S "1")]; xd] =
  [EUnknown (S "R") [S "zzz"]; EUnknown (S "R") [S "zzz"]; OKCall [(S "my_val", KV (S "1"))];
   EUnknown (S "R") [S "zzz"]].
Proof. vm_compute. reflexivity. Qed.

Definition XV : v1cls :=
  {| d_name := S "V"; d_fields := [(S "my_val", [S "my_val"]); (S "other", [S "o1"; S "o2"])];
     d_catch := Some (S "extras", true); d_tag := Some (S "__tag__"); d_policy := PIgnore |}.
Example C10_example_v1 :
  v1_disjointb XV = true /\
  v1_load yconv XV [(S "my_val", S "1"); (S "o1", S "2"); (S "o2", S "9"); (S "__tag__", S "V")]
    = OKCall [(S "my_val", KV (S "1")); (S "other", KV (S "2"))] /\
  v1_load yconv XV [(S "my_val", S "1"); (S "myVal", S "2"); (S "__tag__", S "V")]
    = OKCall [(S "my_val", KV (S "1")); (S "extras", KCatch [(S "myVal", S "2")])].
Proof. repeat split; vm_compute; reflexivity. Qed.

(* load then dump on the example: camelCase dump keys resolve to their fields (hypothesis of
   C10_catchall_rt), and the two captured pairs reappear at top level, the tag last *)
Definition xdump_key (f : pstr) : pstr := if pstr_eqb f (S "my_val") then S "myVal" else f.
Example C10_example_rt_hyp :
  forallb (fun f => match classify XA (xdump_key f) with KUnknown => false | _ => true end) (c_fields XA) = true.
Proof. vm_compute. reflexivity. Qed.
Example C10_example_rt :
  to_dict (dump_pairs xdump_key (Some (S "extras")) (Some (S "__tag__", S "A"))
             [(S "my_val", KV (S "1")); (S "other", KV (S "2"));
              (S "extras", KCatch [(S "zzz", S "3"); (S "my_vall", S "4")])] (c_fields XA))
  = [(S "myVal", DField (S "1")); (S "other", DField (S "2")); (S "zzz", DRaw (S "3"));
     (S "my_vall", DRaw (S "4")); (S "__tag__", DTag (S "A"))].
Proof. vm_compute. reflexivity. Qed.

(* ---- open finding F10-C10-alone-first (the hypothesis `cache_inv c st` of C10_cache_invariant
   is what excludes it): the nested class is first loaded ALONE under its default policy
   (ignore), which writes the negative entry 'seen' -> ExplicitNull into the per-class dict;
   the loader generated later under a recursive strict outer Meta (same class, c_raise = true)
   starts from THAT cache, not from init_cache, and accepts the key it should reject.  A key
   that was not seen before is still rejected. *)
Definition AI (r : bool) : v0cls :=
  {| c_name := S "AInner"; c_fields := [S "a"]; c_catch := None; c_tag := None; c_raise := r |}.
Definition AI_alone : doc pstr := [(S "a", S "7"); (S "seen", S "3")].

Theorem C10_refuted_alone_first :
  exists (alone strict : v0cls) (d0 : doc pstr),
    c_fields alone = c_fields strict /\ c_raise alone = false /\ c_raise strict = true /\
    let st := fst (v0_load yconv alone (init_cache alone) d0) in
    v0_spec yconv strict [(S "a", S "2"); (S "seen", S "3")] = EUnknown (S "AInner") [S "seen"] /\
    snd (v0_load yconv strict st [(S "a", S "2"); (S "seen", S "3")]) = OKCall [(S "a", KV (S "2"))] /\
    snd (v0_load yconv strict st [(S "a", S "2"); (S "bogus", S "3")]) = EUnknown (S "AInner") [S "bogus"].
Proof. exists (AI false), (AI true), AI_alone. repeat split; vm_compute; reflexivity. Qed.
Print Assumptions C10_refuted_alone_first.
