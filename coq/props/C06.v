(* C06 — results do not depend on call history: caches are transparent.
   Only statements closed by `exact` and Print Assumptions.
   Model: coq/model/StateModel.v (state `sigma`, `step`, `run`), pure reference and
   safety predicates: coq/model/StatePure.v.  Proofs: coq/proofs/State*.v. *)
From DW Require Import PyStr StrConv StateModel StatePure StateInv StateHist StateTransparent StateWitness StateProps.

(* The memo invariant.  `Inv s` = for some assignment G of "the Meta under which the tables of class n
   were generated", every cache entry of s equals the pure function it memoises (InvG, proofs/StateInv.v):
   key cache = resolve_pure, alias table = apply_tr, hook cache = hook_pure, parser table = parsers_of,
   FIELD_TO_DEFAULT = d_defaults, installed load / dump functions and class attributes = the closures for
   their own class, loader / dumper attributes = the transforms of that Meta. *)
Theorem C06_inv_init : Inv init.
Proof. exact Inv_init. Qed.
Print Assumptions C06_inv_init.

(* one operation preserves the invariant (Good = memo invariant + well-formed class trees + Meta-object
   bookkeeping), for every state, every ghost and every operation that is safe there *)
Theorem C06_inv_step :
  forall s Gh def o, Good s Gh def -> safe_op s Gh def o = true ->
  Good (fst (step s o)) (gstep s Gh o) (dstep def o).
Proof. intros s Gh def o H K. exact (proj1 (step_good s Gh def o H K)). Qed.
Print Assumptions C06_inv_step.
Example C06_inv_step_example : Good init g0 [].
Proof. exact Good_init. Qed.
Print Assumptions C06_inv_step_example.

(* lifted over all histories by induction on the operation list *)
Theorem C06_inv_run : forall h, safe_history h = true -> Inv (run init h).
Proof. exact Inv_run. Qed.
Print Assumptions C06_inv_run.

(* TRANSPARENCY: for every safe history h and operation o, the outcome of o after h equals its outcome
   in a fresh state holding only the class definitions and Meta bindings of h (no load, no dump, no
   failed call, no key spelling, no value type has been processed) *)
Theorem C06_transparent :
  forall h o, safe_history (h ++ [o]) = true ->
  snd (step (run init h) o) = snd (step (run init (defs_all h)) o).
Proof. exact transparent. Qed.
Print Assumptions C06_transparent.

(* with ONLY THE NEEDED DEFINITIONS (C06 + the frame theorem of C07): inG is the family of classes the
   operation needs (closed under nested / base / instance classes, sharing no nested class and no
   qualname with the rest of the history) *)
Theorem C06_transparent_needed :
  forall inG h o, op_in inG o = true ->
  disjoint_tables inG (h ++ [o]) = true ->
  safe_history (h ++ [o]) = true -> safe_history (proj inG (h ++ [o])) = true ->
  snd (step (run init h) o) = snd (step (run init (defs_all (proj inG h))) o).
Proof. exact transparent_needed. Qed.
Print Assumptions C06_transparent_needed.
Example C06_needed_example :
  op_in g_frame (last h_frame o_safe) = true /\
  disjoint_tables g_frame h_frame = true /\ safe_history h_frame = true /\ safe_history (proj g_frame h_frame) = true.
Proof. exact needed_example. Qed.
Print Assumptions C06_needed_example.

(* ... and both equal the cache-free outcome computed from the declarations alone *)
Theorem C06_pure_outcome :
  forall h o, safe_history (h ++ [o]) = true -> is_def o = false ->
  snd (step (run init h) o) = pure_op (run init h) o.
Proof. exact pure_outcome. Qed.
Print Assumptions C06_pure_outcome.

(* a strict setting rejects (any call answers) the same document the same way every time *)
Theorem C06_strict_key_every_time :
  forall h o, safe_history (h ++ [o; o]) = true -> is_def o = false ->
  snd (step (run init (h ++ [o])) o) = snd (step (run init h) o).
Proof. exact repeat_same. Qed.
Print Assumptions C06_strict_key_every_time.
Example C06_strict_example :
  safe_history (h_strict ++ [o_strict; o_strict]) = true /\
  snd (step (run init (h_strict ++ [o_strict])) o_strict) = OErr (EUnknownKey 1 (S "zzz")).
Proof. exact strict_example. Qed.
Print Assumptions C06_strict_example.

(* non-vacuity: a 14-operation history with cascading Meta, a subclass, bindings, unknown keys under
   raise_on_unknown_json_key, novel key spellings and novel value subtypes is safe *)
Example C06_safe_example : safe_history (h_safe ++ [o_safe]) = true.
Proof. exact safe_example. Qed.
Print Assumptions C06_safe_example.

(* REFUTATIONS on the faithful model (the full statement without `safe_history` is false).  In each,
   the history h is itself safe and the last operation o leaves the safe region. *)
(* F2: subclass defined after its base's from_dict was used loads as the base class *)
Theorem C06_refuted_subclass_after_use :
  exists h o, safe_history h = true /\ snd (step (run init h) o) <> snd (step (run init (defs_all h)) o).
Proof. exists h_f2, o_f2. exact refuted_f2. Qed.
Print Assumptions C06_refuted_subclass_after_use.

(* F2: subclass defined before, base's to_dict used first: the subclass dump drops its own fields *)
Theorem C06_refuted_base_used_first :
  exists h o, safe_history h = true /\ snd (step (run init h) o) <> snd (step (run init (defs_all h)) o).
Proof. exists h_f2b, o_f2b. exact refuted_f2b. Qed.
Print Assumptions C06_refuted_base_used_first.

(* F10: nested class shared by two roots with different Metas: the second root emits the first's keys *)
Theorem C06_refuted_shared_nested :
  exists h o, safe_history h = true /\ snd (step (run init h) o) <> snd (step (run init (defs_all h)) o).
Proof. exists h_f10, o_f10. exact refuted_f10. Qed.
Print Assumptions C06_refuted_shared_nested.

(* F10: nested class loaded alone first (negative key-cache entry), then under a root that raises on
   unknown keys: the unknown key is no longer rejected *)
Theorem C06_refuted_nested_alone_first :
  exists h o, safe_history h = true /\ snd (step (run init h) o) <> snd (step (run init (defs_all h)) o).
Proof. exists h_f10c, o_f10c. exact refuted_f10c. Qed.
Print Assumptions C06_refuted_nested_alone_first.
