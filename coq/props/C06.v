(* C06 — results do not depend on call history: caches are transparent.
   Only statements closed by `exact` and Print Assumptions.
   Model: coq/model/StateModel.v (state `sigma`, `step`, `run`), pure reference and
   safety predicates: coq/model/StatePure.v.  Proofs: coq/proofs/State*.v. *)
From DW Require Import PyStr StrConv StateModel StatePure StateInv StateHist StateTransparent StateWitness StateProps.
From DW Require Import HistMemo HistMemoProofs HistValueModel HistValueProofs HistPatProofs HistProduct HistWitness.

(* The memo invariant.  `Inv s` = for some assignment G of "the Meta under which the tables of class n
   were generated", every cache entry of s equals the pure function it memoises (InvG, proofs/StateInv.v):
   key cache = resolve_pure, alias table = apply_tr, hook cache = hook_pure, parser table = parsers_of,
   FIELD_TO_DEFAULT = d_defaults, installed load / dump functions and class attributes = the closures for
   their own class, loader / dumper attributes = the transforms of that Meta. *)
Theorem C06_inv_init : Inv init.
Proof. exact Inv_init. Qed.
Print Assumptions C06_inv_init.

(* one operation preserves the invariant (Good = memo invariant + well-formed class trees + Meta-object
   bookkeeping), for every state, every ghost and every operation that is safe there *)
Theorem C06_inv_step :
  forall s Gh def o, Good s Gh def -> safe_op s Gh def o = true ->
  Good (fst (step s o)) (gstep s Gh o) (dstep def o).
Proof. intros s Gh def o H K. exact (proj1 (step_good s Gh def o H K)). Qed.
Print Assumptions C06_inv_step.
Example C06_inv_step_example : Good init g0 [].
Proof. exact Good_init. Qed.
Print Assumptions C06_inv_step_example.

(* lifted over all histories by induction on the operation list *)
Theorem C06_inv_run : forall h, safe_history h = true -> Inv (run init h).
Proof. exact Inv_run. Qed.
Print Assumptions C06_inv_run.

(* TRANSPARENCY: for every safe history h and operation o, the outcome of o after h equals its outcome
   in a fresh state holding only the class definitions and Meta bindings of h (no load, no dump, no
   failed call, no key spelling, no value type has been processed) *)
Theorem C06_transparent :
  forall h o, safe_history (h ++ [o]) = true ->
  snd (step (run init h) o) = snd (step (run init (defs_all h)) o).
Proof. exact transparent. Qed.
Print Assumptions C06_transparent.

(* with ONLY THE NEEDED DEFINITIONS (C06 + the frame theorem of C07): inG is the family of classes the
   operation needs (closed under nested / base / instance classes, sharing no nested class and no
   qualname with the rest of the history) *)
Theorem C06_transparent_needed :
  forall inG h o, op_in inG o = true ->
  disjoint_tables inG (h ++ [o]) = true ->
  safe_history (h ++ [o]) = true -> safe_history (proj inG (h ++ [o])) = true ->
  snd (step (run init h) o) = snd (step (run init (defs_all (proj inG h))) o).
Proof. exact transparent_needed. Qed.
Print Assumptions C06_transparent_needed.
Example C06_needed_example :
  op_in g_frame (last h_frame o_safe) = true /\
  disjoint_tables g_frame h_frame = true /\ safe_history h_frame = true /\ safe_history (proj g_frame h_frame) = true.
Proof. exact needed_example. Qed.
Print Assumptions C06_needed_example.

(* ... and both equal the cache-free outcome computed from the declarations alone *)
Theorem C06_pure_outcome :
  forall h o, safe_history (h ++ [o]) = true -> is_def o = false ->
  snd (step (run init h) o) = pure_op (run init h) o.
Proof. exact pure_outcome. Qed.
Print Assumptions C06_pure_outcome.

(* a strict setting rejects (any call answers) the same document the same way every time *)
Theorem C06_strict_key_every_time :
  forall h o, safe_history (h ++ [o; o]) = true -> is_def o = false ->
  snd (step (run init (h ++ [o])) o) = snd (step (run init h) o).
Proof. exact repeat_same. Qed.
Print Assumptions C06_strict_key_every_time.
Example C06_strict_example :
  safe_history (h_strict ++ [o_strict; o_strict]) = true /\
  snd (step (run init (h_strict ++ [o_strict])) o_strict) = OErr (EUnknownKey 1 (S "zzz")).
Proof. exact strict_example. Qed.
Print Assumptions C06_strict_example.

(* non-vacuity: a 14-operation history with cascading Meta, a subclass, bindings, unknown keys under
   raise_on_unknown_json_key, novel key spellings and novel value subtypes is safe *)
Example C06_safe_example : safe_history (h_safe ++ [o_safe]) = true.
Proof. exact safe_example. Qed.
Print Assumptions C06_safe_example.

(* REFUTATIONS on the faithful model (the full statement without `safe_history` is false).  In each,
   the history h is itself safe and the last operation o leaves the safe region. *)
(* F2: subclass defined after its base's from_dict was used loads as the base class *)
Theorem C06_refuted_subclass_after_use :
  exists h o, safe_history h = true /\ snd (step (run init h) o) <> snd (step (run init (defs_all h)) o).
Proof. exists h_f2, o_f2. exact refuted_f2. Qed.
Print Assumptions C06_refuted_subclass_after_use.

(* F2: subclass defined before, base's to_dict used first: the subclass dump drops its own fields *)
Theorem C06_refuted_base_used_first :
  exists h o, safe_history h = true /\ snd (step (run init h) o) <> snd (step (run init (defs_all h)) o).
Proof. exists h_f2b, o_f2b. exact refuted_f2b. Qed.
Print Assumptions C06_refuted_base_used_first.

(* F10: nested class shared by two roots with different Metas: the second root emits the first's keys *)
Theorem C06_refuted_shared_nested :
  exists h o, safe_history h = true /\ snd (step (run init h) o) <> snd (step (run init (defs_all h)) o).
Proof. exists h_f10, o_f10. exact refuted_f10. Qed.
Print Assumptions C06_refuted_shared_nested.

(* F10: nested class loaded alone first (negative key-cache entry), then under a root that raises on
   unknown keys: the unknown key is no longer rejected *)
Theorem C06_refuted_nested_alone_first :
  exists h o, safe_history h = true /\ snd (step (run init h) o) <> snd (step (run init (defs_all h)) o).
Proof. exists h_f10c, o_f10c. exact refuted_f10c. Qed.
Print Assumptions C06_refuted_nested_alone_first.

(* ======================================================================================================
   SECOND STATE MACHINE (model/HistValueModel.v): values that carry their exact Python type, the generated
   loaders of BOTH engines as state (default-engine key cache, v1 key-resolution order), Pattern objects
   shared between classes, and a value-level memo whose key equality `mk` is a parameter.
   The stdlib parsers (fromisoformat, fromtimestamp, strptime) and the leaf conversions / dump hooks that are
   not spelled out are universally quantified: every theorem holds whatever they are.
   ====================================================================================================== *)

(* MEMO SOUNDNESS, in general: a memo table consulted with key equality keq is transparent (after every
   history of calls every call answers as the memoised function f) IF AND ONLY IF f factors through keq on
   the entries the table keeps. *)
Theorem C06_memo_sound_iff :
  forall (K V : Type) (f : K -> V) (keq : K -> K -> bool) (cacheable : V -> bool),
  mtransparent f keq cacheable <-> factors f keq cacheable.
Proof. exact @memo_sound_iff. Qed.
Print Assumptions C06_memo_sound_iff.

(* the invariant behind it: every entry a lookup can return equals the pure function of the key looked up *)
Theorem C06_memo_inv :
  forall (K V : Type) (f : K -> V) (keq : K -> K -> bool) (cacheable : V -> bool) (t : mtable) (k : K),
  factors f keq cacheable -> msound f keq t ->
  snd (mcall f keq cacheable t k) = f k /\ msound f keq (fst (mcall f keq cacheable t k)).
Proof. exact @mcall_sound. Qed.
Print Assumptions C06_memo_inv.

(* instances: no value-level memo (the library), and a memo keyed by (type, value) exactly, factor *)
Theorem C06_memo_library_factors :
  forall iso fromts, factors (am iso fromts) mk_none am_cacheable /\ factors (am iso fromts) mk_exact am_cacheable.
Proof. intros iso fromts. split; [apply factors_none | apply factors_exact]. Qed.
Print Assumptions C06_memo_library_factors.

(* the machine's invariant (every generated table of every class equals the pure function of the class
   definition / of its key; the value memo is sound) holds after EVERY history (both variants of the machine) *)
Theorem C06_hist_inv_run :
  forall shared_pat conv0 dumpv iso fromts strp mk, factors (am iso fromts) mk am_cacheable ->
  forall h, HInv iso fromts mk (hrun shared_pat conv0 dumpv iso fromts strp mk hinit h).
Proof. intros sp conv0 dumpv iso fromts strp mk F h. apply hrun_inv; [exact F | apply HInv_init]. Qed.
Print Assumptions C06_hist_inv_run.

(* FULL TRANSPARENCY over ALL histories, no side condition on the history: the outcome of every load / dump
   (returned value, error class, class, field AND the type a ParseError names) equals the outcome of the same
   call after the definitions alone.  `hstep false` is the library since fix commit 38c6a1a (finding F73 repaired:
   every default-engine pattern parser works on its own copy of the Pattern object). *)
Theorem C06_hist_transparent_all :
  forall conv0 dumpv iso fromts strp mk, factors (am iso fromts) mk am_cacheable ->
  forall h o,
  snd (hstep false conv0 dumpv iso fromts strp mk (hrun false conv0 dumpv iso fromts strp mk hinit h) o) =
  snd (hstep false conv0 dumpv iso fromts strp mk (hrun false conv0 dumpv iso fromts strp mk hinit (hdefs_all h)) o).
Proof. exact hist_transparent_full. Qed.
Print Assumptions C06_hist_transparent_all.

(* the library's own policy (no value-level memo), and an exact-keyed memo: no hypothesis left *)
Theorem C06_hist_transparent_library :
  forall conv0 dumpv iso fromts strp mk, mk = mk_none \/ mk = mk_exact ->
  forall h o,
  snd (hstep false conv0 dumpv iso fromts strp mk (hrun false conv0 dumpv iso fromts strp mk hinit h) o) =
  snd (hstep false conv0 dumpv iso fromts strp mk (hrun false conv0 dumpv iso fromts strp mk hinit (hdefs_all h)) o).
Proof.
  intros conv0 dumpv iso fromts strp mk [-> | ->] h o; apply hist_transparent_full; [apply factors_none | apply factors_exact].
Qed.
Print Assumptions C06_hist_transparent_library.

(* ... and both equal the cache-free reference (no table read; keys resolved by resolve_x / the v1 chain of
   the definition; values converted by the conversion itself; a ParseError names the position's own type) *)
Theorem C06_hist_pure_outcome :
  forall conv0 dumpv iso fromts strp mk, factors (am iso fromts) mk am_cacheable ->
  forall h o,
  snd (hstep false conv0 dumpv iso fromts strp mk (hrun false conv0 dumpv iso fromts strp mk hinit h) o) =
  pure_hop false conv0 dumpv iso fromts strp mk (h_defs (hrun false conv0 dumpv iso fromts strp mk hinit h)) o.
Proof. exact hist_pure_full. Qed.
Print Assumptions C06_hist_pure_outcome.

(* the PRE-FIX VARIANT `hstep true` (parsers re-target the shared Pattern object and read it again when they report an
   error - /repo before 38c6a1a): transparent for all histories only up to the type an error names, fully only where
   every Pattern object sits at positions of one date/time type (refuted outside: C06_hist_prefix_variant_refuted) *)
Theorem C06_hist_prefix_variant_partial :
  forall conv0 dumpv iso fromts strp mk, factors (am iso fromts) mk am_cacheable ->
  forall h o,
  erase_ty (snd (hstep true conv0 dumpv iso fromts strp mk (hrun true conv0 dumpv iso fromts strp mk hinit h) o)) =
  erase_ty (snd (hstep true conv0 dumpv iso fromts strp mk (hrun true conv0 dumpv iso fromts strp mk hinit (hdefs_all h)) o))
  /\ (pat_consistent (h ++ [o]) = true ->
      snd (hstep true conv0 dumpv iso fromts strp mk (hrun true conv0 dumpv iso fromts strp mk hinit h) o) =
      snd (hstep true conv0 dumpv iso fromts strp mk (hrun true conv0 dumpv iso fromts strp mk hinit (hdefs_all h)) o)).
Proof.
  intros conv0 dumpv iso fromts strp mk F h o. split; [apply hist_transparent_erased | apply hist_transparent_partial]; exact F.
Qed.
Print Assumptions C06_hist_prefix_variant_partial.

(* non-vacuity: v1 AUTO with two spellings of one field after a camelCase document, default engine with two
   spellings (document order decides), exact-typed values, a shared Pattern object at two date positions *)
Example C06_hist_example :
  pat_consistent (h_ex ++ [o_ex]) = true /\
  snd (w_step mk_none (w_run mk_none hinit h_ex) o_ex) = HVal 1%nat [(S "user_name", v_str (S "bob")); (S "id", v_true)].
Proof. exact (conj (proj1 hist_example) (proj1 (proj2 hist_example))). Qed.
Print Assumptions C06_hist_example.

(* the two machines side by side (an interleaved history of both): C06_transparent and the theorem above compose *)
Theorem C06_product_transparent :
  forall conv0 dumpv iso fromts strp mk, factors (am iso fromts) mk am_cacheable ->
  forall h o, safe_history (lefts (h ++ [o])) = true ->
  snd (pstep conv0 dumpv iso fromts strp mk (prun conv0 dumpv iso fromts strp mk (init, hinit) h) o) =
  snd (pstep conv0 dumpv iso fromts strp mk (prun conv0 dumpv iso fromts strp mk (init, hinit) (pdefs_all h)) o).
Proof. exact product_transparent. Qed.
Print Assumptions C06_product_transparent.

(* REFUTATIONS.
   (C06-9) a memo keyed as a Python dict keys (value, type): 1 == True (== 1.0 == Decimal(1)) collide, the
   conversion dispatches on the exact type -> it does not factor, for EVERY stdlib in which the timestamp 1
   converts; hence (memo lemma) such a memo is not transparent *)
Theorem C06_memo_pyeq_refuted :
  forall iso fromts r, fromts KDt (x_txt v_int1) = COk r ->
  ~ factors (am iso fromts) mk_py am_cacheable /\ ~ mtransparent (am iso fromts) mk_py am_cacheable.
Proof. intros iso fromts r H. split; [exact (memo_py_not_factors iso fromts r H) | exact (memo_py_refuted iso fromts r H)]. Qed.
Print Assumptions C06_memo_pyeq_refuted.

(* ... and in the machine: an unrelated class loads the timestamp 1, then Event(at: datetime) accepts True *)
Theorem C06_hist_refuted_pyeq_memo :
  exists h o, snd (w_step mk_py (w_run mk_py hinit h) o) <> snd (w_step mk_py (w_run mk_py hinit (hdefs_all h)) o).
Proof.
  exists h_memo9, o_memo9. destruct refuted_memo9 as [A [B C]]. rewrite A, B. discriminate.
Qed.
Print Assumptions C06_hist_refuted_pyeq_memo.

(* (F73, repaired) the pre-fix variant: one Pattern object at a date and at a datetime position: the ParseError of the
   date position names datetime once the other class has set up its parser; the library names date either way *)
Theorem C06_hist_prefix_variant_refuted :
  (exists h o, pat_consistent (h ++ [o]) = false /\
     snd (w_step_prefix mk_none (w_run_prefix mk_none hinit h) o) <> snd (w_step_prefix mk_none (w_run_prefix mk_none hinit (hdefs_all h)) o)) /\
  snd (w_step mk_none (w_run mk_none hinit h_f71) o_f71) = HErr (HEParse 1%nat (S "day") (S "date")).
Proof.
  split; [| exact (proj1 f71_repaired)].
  exists h_f71, o_f71. destruct refuted_f71 as [A [B C]]. split; [exact C |]. rewrite A, B. discriminate.
Qed.
Print Assumptions C06_hist_prefix_variant_refuted.

(* (C06-8) remembering per FIELD the spelling that matched last memoises a function of (field, document) under
   the key `field`; (C06-7) memoising the generated transform on the Pattern OBJECT memoises a function of
   (object, cls) under the key `object`: neither factors, so neither is transparent; keyed by (object, cls)
   it would be *)
Theorem C06_learned_key_order_refuted :
  exists ks q, snd (mcall learned_f learned_keq is_some (mrun learned_f learned_keq is_some [] ks) q) <> learned_f q.
Proof. exact learned_key_refuted. Qed.
Print Assumptions C06_learned_key_order_refuted.
Theorem C06_pattern_object_memo_refuted :
  (exists ks q, snd (mcall patfn_f patfn_keq (fun _ => true) (mrun patfn_f patfn_keq (fun _ => true) [] ks) q) <> patfn_f q) /\
  (forall V (g : nat * dkind -> V), factors g (fun a b => Nat.eqb (fst a) (fst b) && dkind_eqb (snd a) (snd b)) (fun _ => true)).
Proof. split; [exact pattern_object_memo_refuted | exact @pattern_pair_memo_factors]. Qed.
Print Assumptions C06_pattern_object_memo_refuted.
