(* C20 — concurrent first use and concurrent calls give the sequential results.
   Only statements closed by `exact` / short glue, and Print Assumptions.

   The model (coq/model/ConcModel.v) describes the CURRENT tree: with the repairs F30 (hook
   scan over a snapshot), F32 (defaults dict published when complete), F33 (v1 catch-all
   marker read, not popped) and F34 (Env.reload loads environ first) in place.  One defect
   is open: F31 (two-phase fill of the JSON-path tables).

   PARTIAL: the theorems are about the micro-step model (one scheduling point per
   shared-table access; CPython rules R1-R4 stated there).  Missing for the full property:
   classes with JSON-path fields (refuted, F31), races inside a micro-step, C-extension GIL
   release points, free-threaded builds; of the v1 engine the FIRST LOAD of a class with nested
   classes is a full program (section 8; classes with >= 2 AliasPath fields refuted, the v1 site
   of F31), the v1 dump and explicit Alias(load=...) fields are not. *)
From DW Require Import PyStr T_ConcHooks ConcModel ConcProofs ConcLibProofs ConcV1Model ConcV1Proofs.
From Coq Require Import List.
Import ListNotations.

(* 1. The general theorem.  R = admissible values per table entry, Imp = publication order.
      If every thread's program is memo-shaped (writes admissible values only, publishes an
      entry after the entries it implies; result r independent of whether reads hit or miss),
      then FOR EVERY SCHEDULE - any number of threads, any length, preemption between any two
      shared-table accesses - a thread that has finished returned exactly r, and every table
      entry is admissible. *)
Theorem C20_memo_linearizable :
  forall (R : tab -> key -> val -> Prop) (Imp : tab -> key -> val -> list (tab * key))
         (ps : list prog) (rs : list (list outcome)) (s : store),
    store_ok R Imp s ->
    Forall2 (fun p r => memo_prog R Imp [] p r) ps rs ->
    forall (sched : list nat) (i : nat) (t : thread) (os : list outcome),
      nth_error (snd (run sched (s, start ps))) i = Some t ->
      finished t = Some os ->
      nth_error rs i = Some os /\ store_ok R Imp (fst (run sched (s, start ps))).
Proof. exact memo_linearizable. Qed.
Print Assumptions C20_memo_linearizable.

(* 2. ... and r is what a sequential execution returns: alone, from any consistent store,
      the program terminates (no step blocks) with r. *)
Theorem C20_memo_sequential :
  forall R Imp K p r, memo_prog R Imp K p r ->
  forall s it, store_ok R Imp s -> known s K ->
    exists n s' it', solo n s (mkT p it) = (s', mkT (Ret r) it') /\ store_ok R Imp s'.
Proof. exact memo_sequential. Qed.
Print Assumptions C20_memo_sequential.

(* 3. The memo protocols of the library, by name, are memo-shaped (with the library's
      admissible-value relation R_lib cd and publication map Imp_lib cd for the class cd),
      whatever continuation follows them.  `fx` = whether the proposed repair of F31 is in
      the tree (the statements hold either way). *)
Notation M cd := (memo_prog (R_lib cd) (Imp_lib cd)).
Definition cont_ok cd K (c : prog) r := forall K', incl K K' -> M cd K' c r.
Definition dflt_of (cd : cdesc) : list nat := dflt_ids (cd_fields cd) 0.

Theorem C20_protocols : forall cd,
  (* FIELDS: dataclass_fields *)
  (forall K c r, cont_ok cd K c r -> M cd K (p_fields c) r) /\
  (* CLASS_TO_LOADER: get_loader *)
  (forall tid K c r, cont_ok cd K c r -> M cd K (p_loader tid c) r) /\
  (* CLASS_TO_DUMPER: get_dumper (store, then re-read) *)
  (forall tid K c r, (forall o K', incl K K' -> M cd K' (c o) r) -> M cd K (p_dumper tid c) r) /\
  (* FIELD_NAME_TO_LOAD_PARSER + key-cache seeding: _setup_load_config_for_cls, class without JSON paths *)
  (forall fx K c r, no_paths cd -> cont_ok cd K c r -> M cd K (p_load_cfg fx cd c) r) /\
  (* IS_DUMP_CONFIG_SETUP (flag written AFTER the fill): setup_dump_config_for_cls_if_needed, no JSON paths *)
  (forall fx K c r, no_paths cd -> cont_ok cd K c r -> M cd K (p_dump_cfg fx cd c) r) /\
  (* setattr(cls, 'from_dict' / 'to_dict', generated function): _set_new_attribute *)
  (forall a K c r, cont_ok cd K c r -> M cd K (p_setattr cd a c) r) /\
  (* JSON key cache of the generated load function, positive and negative (ExplicitNull) entries *)
  (forall ks K c r, cont_ok cd K c r -> M cd K (key_loop ks c) r) /\
  (* FIELD_TO_DEFAULT (fill a local dict, publish, re-read): whoever is handed a dict (its own or
     another thread's) knows EVERY default to be in it *)
  (forall tid K c r,
     (forall o K', incl K K' -> (forall j, In j (dflt_of cd) -> In (T_DEFAULTS o, j) K') -> M cd K' (c o) r) ->
     M cd K (p_defaults tid cd c) r) /\
  (* dump hook cache + hook scan over a snapshot: every run-time type of the value *)
  (forall o v K c r, cont_ok cd K c r -> M cd K (p_value o v c) r) /\
  (* lookups.environ, first load: Env.load_environ() builds a complete dict, then binds the global to it *)
  (forall fx tid K c r, (forall K', incl K K' -> In (T_ENVIRON, 0) K' -> M cd K' c r) -> M cd K (p_load_environ fx tid false c) r) /\
  (* lookups.environ, forced reload, REBIND protocol only (`environ = os.environ.copy()`): NOT for an in-place refill *)
  (forall fx tid K c r, env_inplace fx = false -> In (T_ENVIRON, 0) K ->
     (forall K', incl K K' -> In (T_ENVIRON, 0) K' -> M cd K' c r) -> M cd K (p_load_environ fx tid true c) r) /\
  (* environ[key] / set(environ) through the reference: the dict behind it is complete *)
  (forall K c r, In (T_ENVIRON, 0) K -> cont_ok cd K c r -> M cd K (p_env_get c) r) /\
  (* Env.var_names (cached class property) read after environ is loaded *)
  (forall oid K c r, In (T_ENVIRON, 0) K -> (forall K', incl K K' -> M cd K' (c 1) r) -> M cd K (p_member oid c) r) /\
  (* Env.cleaned_to_env (cached class property) *)
  (forall tid K c r, In (T_ENVIRON, 0) K ->
     (forall a K', incl K K' -> In (T_OBJ, a) K' -> M cd K' (c a) r) -> M cd K (p_cleaned tid c) r) /\
  (* Env.reload() (REBIND protocol): load, var_names, forced reload, monotone in-place updates of the cached set / dict *)
  (forall fx tid K c r, env_inplace fx = false ->
     (forall K', incl K K' -> In (T_ENVIRON, 0) K' -> M cd K' c r) -> M cd K (p_reload fx tid c) r).
Proof.
  intro cd. repeat split.
  - exact (M_p_fields cd). - exact (M_p_loader cd). - exact (M_p_dumper cd). - exact (M_p_load_cfg cd).
  - exact (M_p_dump_cfg cd). - exact (M_p_setattr cd). - exact (M_key_loop cd). - exact (M_p_defaults cd).
  - exact (M_p_value cd). - exact (M_p_load_environ cd). - exact (M_p_load_environ_force cd).
  - exact (M_p_env_get cd). - exact (M_p_member cd). - exact (M_p_cleaned cd). - exact (M_p_reload cd).
Qed.
Print Assumptions C20_protocols.

(* 4. Complete programs: CLASS_TO_LOAD_FUNC / CLASS_TO_DUMP_FUNC check -> generate -> store ->
      call; EnvWizard.__init__ with and without _reload; first load of a v1 catch-all class.
      Load and dump need: no JSON-path field.  Nothing else: any defaults with or without
      skip_defaults, any run-time type of the dumped values, wizard subclass or not. *)
Theorem C20_load_plain :
  forall cd fx tid ks K, no_paths cd -> M cd K (call_load fx tid cd ks) [OSeq].
Proof. exact load_plain. Qed.
Print Assumptions C20_load_plain.

Theorem C20_dump_plain :
  forall cd fx tid vals K, no_paths cd -> M cd K (call_dump fx tid cd vals) [OSeq].
Proof. exact dump_plain. Qed.
Print Assumptions C20_dump_plain.

(* EnvWizard.__init__ is memo-shaped when Env.load_environ REBINDS `environ` to a complete fresh copy
   (the current tree).  It does NOT apply to an in-place refill of the shared dict (see 6d). *)
Theorem C20_env_plain : forall cd fx tid reload K,
  env_inplace fx = false -> M cd K (call_env fx tid reload) [OSeq].
Proof. exact env_plain. Qed.
Print Assumptions C20_env_plain.

Theorem C20_v1_catchall_plain : forall cd K, M cd K call_v1_catchall [OSeq].
Proof. exact v1_catchall_plain. Qed.
Print Assumptions C20_v1_catchall_plain.

(* 5. C20 on the safe region: any number of threads, each any list of load / dump /
      EnvWizard() (with or without _reload; Env.load_environ rebinding `environ`, as the current
      tree does) / v1-catch-all-load calls, on a class without JSON-path fields - under EVERY schedule every finished thread returned the sequential
      result of each of its calls.
      MISSING for the full property: classes with JSON-path fields (refuted below, F31);
      the v1 engine beyond the catch-all protocol. *)
Theorem C20_partial :
  forall (cd : cdesc) (fx : fixes) (pss : list (list call)),
    Forall (Forall (safe_call cd fx)) pss ->
    forall (sched : list nat) (i : nat) (t : thread) (os : list outcome),
      nth_error (snd (run sched (scenario fx cd pss))) i = Some t ->
      finished t = Some os ->
      exists cs, nth_error pss i = Some cs /\ os = repeat OSeq (List.length cs).
Proof. exact lib_linearizable. Qed.
Print Assumptions C20_partial.

(* non-vacuity: a wizard class with defaults and skip_defaults, values of new subtypes, a
   reloading EnvWizard, the v1 catch-all load: three threads, seven calls *)
Example C20_partial_nonvacuous :
  let cd := mkC [mkF false false; mkF true false; mkF true false] true true false in
  Forall (Forall (safe_call cd no_fixes))
    [[CLoad [KCamel 0; KExact 1; KUnknown 0]; CDump [VTSub 0 16; VTBase 0; VTOther 2]; CV1Load];
     [CDump [VTBase 1; VTSub 1 0; VTBase 1]; CLoad [KExact 0]; CEnv true];
     [CEnv false]].
Proof. cbv zeta. repeat constructor. Qed.

(* ... and on such a scenario a concrete interleaving really finishes with those results *)
Example C20_partial_runs :
  let cd := mkC [mkF false false; mkF true false] false true true in
  let c := scenario no_fixes cd [[CDump [VTSub 0 16; VTBase 1]; CEnv true]; [CDump [VTSub 1 0; VTBase 1]; CV1Load]] in
  let seg := [0;1;1;0;0;1;0;1;1;1;0;0;0;0;0;1;1;1;1;1;1;1;1;1;1;1;1;0;0;0;0;0;0;0] in
  outcomes (run (micro_of RUN_FUEL seg c ++ sequential2) c) = [Some [OSeq; OSeq]; Some [OSeq; OSeq]].
Proof. vm_compute. reflexivity. Qed.

(* 6. The open defect F31: outside the safe region the faithful model VIOLATES C20.
      `set_paths = False if field_to_path else True` (class_helper.py) takes a JSON-path table
      that another thread is still filling for a complete one: KeyError (dump) / MissingFields
      (load).  Each witness is a micro-step schedule (computed from the yield-point schedule the
      harness replays on the implementation) whose outcome differs from both sequential orders. *)
Theorem C20_refuted_path_fill :
  (exists sched,
     outcomes (run sched cfg_path_dump) = [Some [OSeq]; Some [OErr EKeyError]] /\
     outcomes (run sequential2 cfg_path_dump) = [Some [OSeq]; Some [OSeq]] /\
     outcomes (run sequential2' cfg_path_dump) = [Some [OSeq]; Some [OSeq]]) /\
  (exists sched,
     outcomes (run sched cfg_path_load) = [Some [OSeq]; Some [OErr EMissingFields]] /\
     outcomes (run sequential2 cfg_path_load) = [Some [OSeq]; Some [OSeq]] /\
     outcomes (run sequential2' cfg_path_load) = [Some [OSeq]; Some [OSeq]]).
Proof.
  split.
  - exists (micro_of RUN_FUEL seg_path_dump cfg_path_dump). vm_compute. repeat split.
  - exists (micro_of RUN_FUEL seg_path_load cfg_path_load). vm_compute. repeat split.
Qed.
Print Assumptions C20_refuted_path_fill.

(* 6b. The proposed repair of F31 (proposed_fixes/F31.patch), switched on in the model, removes
       the witnesses (these schedules only; not proved for every schedule). *)
Theorem C20_f31_repair_removes_witnesses :
  replay_on seg_path_dump fixed_path_dump = [Some [OSeq]; Some [OSeq]] /\
  replay_on seg_path_load fixed_path_load = [Some [OSeq]; Some [OSeq]].
Proof. vm_compute. repeat split. Qed.
Print Assumptions C20_f31_repair_removes_witnesses.

(* 6c. Regression examples: the schedules that exposed the four defects repaired since (F30 hook
       scan, F32 defaults registered empty, F33 v1 catch-all pop, F34 Env.reload) now give the
       sequential results in the model (instances of C20_partial; the harness replays the same
       schedules on the implementation on every run). *)
Theorem C20_former_witnesses_sequential :
  replay_on seg_hook_scan cfg_hook_scan = [Some [OSeq]; Some [OSeq]] /\
  replay_on seg_defaults cfg_defaults = [Some [OSeq]; Some [OSeq]] /\
  replay_on seg_v1_catchall cfg_v1_catchall = [Some [OSeq]; Some [OSeq]] /\
  replay_on seg_env_reload cfg_env_reload = [Some [OSeq]; Some [OSeq]].
Proof. vm_compute. repeat split. Qed.
Print Assumptions C20_former_witnesses_sequential.

(* 6d. REBIND versus IN-PLACE.  If Env.load_environ(force_reload) refilled the shared `environ`
       dict in place (`environ.clear(); environ.update(os.environ)`) instead of rebinding the global
       to a complete copy, C20 would be violated: a plain EnvWizard() that has passed
       `name in Env.var_names` indexes the transiently empty dict -> KeyError, which neither
       sequential order gives.  (Not the current tree: the harness detects the protocol shape from
       the source and switches the model; a randomized real-thread search looks for the failing run.) *)
Theorem C20_refuted_env_inplace :
  exists sched,
    outcomes (run sched cfg_env_inplace) = [Some [OErr EKeyError]; Some [OSeq]] /\
    outcomes (run sequential2 cfg_env_inplace) = [Some [OSeq]; Some [OSeq]] /\
    outcomes (run sequential2' cfg_env_inplace) = [Some [OSeq]; Some [OSeq]].
Proof. exists (repeat 1 13 ++ repeat 0 100 ++ repeat 1 100). vm_compute. repeat split. Qed.
Print Assumptions C20_refuted_env_inplace.

(* 7. Tie T: the default dump-hook table (iteration order of the hook scan) regenerated from
      the source is the documented one; the positions the examples use are those of dict / str. *)
Theorem C20_hook_table :
  conc_dump_hook_types =
    [S "str"; S "int"; S "float"; S "bool"; S "bytes"; S "bytearray"; S "NoneType"; S "Enum"; S "UUID";
     S "set"; S "frozenset"; S "deque"; S "list"; S "tuple"; S "NamedTupleMeta"; S "defaultdict"; S "dict";
     S "Decimal"; S "datetime"; S "time"; S "date"; S "timedelta"] /\
  nth_error conc_dump_hook_types IDX_dict = Some (S "dict") /\
  nth_error conc_dump_hook_types IDX_str = Some (S "str").
Proof. repeat split. Qed.
Print Assumptions C20_hook_table.

(* 8. The v1 engine: the complete FIRST LOAD of a v1 class with nested classes as a micro-step program
      (coq/model/ConcV1Model.v lists every shared-table access in source order: CLASS_TO_LOAD_FUNC, _META,
      FIELDS x3, FIELD_TO_DEFAULT fill-then-publish, CLASS_TO_V1_LOADER, IS_V1_LOAD_CONFIG_SETUP and the set-up
      that fills the alias / path tables, the reads of the alias table during generation AND the key-case
      aliases generation writes back into it, the nested generations under the recursion guard, setattr,
      store).  For EVERY class environment without AliasPath fields - any nesting, shared nested classes,
      key-case transform or not, CatchAll field, defaults, wizard subclass or function API, loader bound at
      definition time or not - the program is memo-shaped: every write stores an admissible value and the
      result does not depend on whether any read hits or misses. *)
Theorem C20_v1_load_plain :
  forall (env : v1env) (tid c : nat) K, v1_no_paths env ->
    memo_prog R_v1 Imp_v1 K (call_v1_load tid env c) [OSeq].
Proof. exact v1_load_plain. Qed.
Print Assumptions C20_v1_load_plain.

(* ... hence (C20_memo_linearizable instantiated): any number of threads, thread i making the first (or a
   later) v1 loads of the classes pss[i] one after the other - the same class, or different classes that share
   nested classes -: under EVERY schedule every load of a finished thread returned the sequential result and no
   table holds a non-admissible value (in particular no half-initialised class is left behind) *)
Theorem C20_v1_linearizable :
  forall (env : v1env) (pss : list (list nat)), v1_no_paths env ->
  forall (sched : list nat) (i : nat) (t : thread) (os : list outcome),
    nth_error (snd (run sched (v1_scenario env pss))) i = Some t ->
    finished t = Some os ->
    (exists cs, nth_error pss i = Some cs /\ os = repeat OSeq (List.length cs)) /\
    store_ok R_v1 Imp_v1 (fst (run sched (v1_scenario env pss))).
Proof. exact v1_linearizable. Qed.
Print Assumptions C20_v1_linearizable.

(* ... and [OSeq] is what the load returns when run alone (C20_memo_sequential instantiated): it terminates *)
Theorem C20_v1_sequential :
  forall (env : v1env) (tid c : nat), v1_no_paths env ->
  forall s it, store_ok R_v1 Imp_v1 s ->
    exists n s' it', solo n s (mkT (call_v1_load tid env c) it) = (s', mkT (Ret [OSeq]) it') /\ store_ok R_v1 Imp_v1 s'.
Proof.
  intros env tid c Hnp s it Hs.
  apply (memo_sequential R_v1 Imp_v1 [] _ _ (v1_load_plain env tid c [] Hnp) s it Hs).
  intros T k [].
Qed.
Print Assumptions C20_v1_sequential.

(* non-vacuity: Inner; Outer (nested Inner, a default); a wizard class with nested Inner and a CatchAll field;
   all with a key-case transform; three threads load the three classes, a concrete interleaving finishes *)
Example C20_v1_nonvacuous : v1_no_paths env_v1_nested.
Proof. repeat constructor. Qed.
Example C20_v1_runs :
  outcomes (run (micro_of RUN_FUEL [0;1;2;0;1;2;0;1;2;0;1;2;2;2;1;1;0;0;0;0;0;0;0;1;1;1;1;2;2;2;2;0;1;2]
                   (v1_scenario env_v1_nested [[1]; [2; 0]; [0; 1]]) ++ repeat 0 400 ++ repeat 1 400 ++ repeat 2 400)
              (v1_scenario env_v1_nested [[1]; [2; 0]; [0; 1]]))
  = [Some [OSeq]; Some [OSeq; OSeq]; Some [OSeq; OSeq]].
Proof. vm_compute. reflexivity. Qed.

(* 8b. The v1 site of the open defect F31: `set_paths = False if dataclass_field_to_path else True` in
       _setup_v1_load_config_for_cls takes the AliasPath table another thread is still filling for a
       complete one; the second thread compiles the remaining path field as an ordinary key ->
       MissingFields, which neither sequential order gives. *)
Theorem C20_v1_refuted_path_fill :
  (exists sched,
     outcomes (run sched cfg_v1_paths) = [Some [OSeq]; Some [OErr EMissingFields]] /\
     outcomes (run sequential2 cfg_v1_paths) = [Some [OSeq]; Some [OSeq]] /\
     outcomes (run sequential2' cfg_v1_paths) = [Some [OSeq]; Some [OSeq]]) /\
  (* the partial function stored LAST: the class stays half-initialised, every later load fails too *)
  (exists sched,
     outcomes (run sched cfg_v1_paths_persist)
       = [Some [OSeq]; Some [OErr EMissingFields; OErr EMissingFields]; Some [OErr EMissingFields]] /\
     outcomes (run (repeat 0 400 ++ repeat 1 400 ++ repeat 2 400) cfg_v1_paths_persist)
       = [Some [OSeq]; Some [OSeq; OSeq]; Some [OSeq]]).
Proof.
  split.
  - exists (micro_of RUN_FUEL seg_v1_paths cfg_v1_paths ++ sequential2). vm_compute. repeat split.
  - exists (micro_of RUN_FUEL seg_v1_paths_persist cfg_v1_paths_persist ++ repeat 1 400 ++ repeat 2 400).
    vm_compute. repeat split.
Qed.
Print Assumptions C20_v1_refuted_path_fill.
