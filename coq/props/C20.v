(* C20 — concurrent first use and concurrent calls give the sequential results.
   Only statements closed by `exact` / short glue, and Print Assumptions.

   PARTIAL: the theorems are about the micro-step model of coq/model/ConcModel.v (one
   scheduling point per shared-table access; CPython rules R1-R4 stated there).  Missing
   for the full property: races inside a micro-step, C-extension GIL release points,
   free-threaded builds, the v1 engine as a full program (only one abstract protocol). *)
From DW Require Import PyStr T_ConcHooks ConcModel ConcProofs ConcLibProofs.
From Coq Require Import List.
Import ListNotations.

(* 1. The general theorem.  R = admissible values per table entry, Imp = publication order.
      If every thread's program is memo-shaped (writes admissible values only; result r
      independent of whether reads hit or miss), then FOR EVERY SCHEDULE - any number of
      threads, any length, preemption between any two shared-table accesses - a thread that
      has finished returned exactly r, and every table entry is admissible. *)
Theorem C20_memo_linearizable :
  forall (R : tab -> key -> val -> Prop) (Imp : tab -> key -> val -> list (tab * key))
         (ps : list prog) (rs : list (list outcome)) (s : store),
    store_ok R Imp s ->
    Forall2 (fun p r => memo_prog R Imp [] p r) ps rs ->
    forall (sched : list nat) (i : nat) (t : thread) (os : list outcome),
      nth_error (snd (run sched (s, start ps))) i = Some t ->
      finished t = Some os ->
      nth_error rs i = Some os /\ store_ok R Imp (fst (run sched (s, start ps))).
Proof. exact memo_linearizable. Qed.
Print Assumptions C20_memo_linearizable.

(* 2. ... and r is what a sequential execution returns: alone, from any consistent store,
      the program terminates (no step blocks) with r. *)
Theorem C20_memo_sequential :
  forall R Imp K p r, memo_prog R Imp K p r ->
  forall s it, store_ok R Imp s -> known s K ->
    exists n s' it', solo n s (mkT p it) = (s', mkT (Ret r) it') /\ store_ok R Imp s'.
Proof. exact memo_sequential. Qed.
Print Assumptions C20_memo_sequential.

(* 3. The memo protocols of the library, by name, are memo-shaped (with the library's
      admissible-value relation R_lib), whatever continuation follows them; `fx` = which of the
      proposed repairs are present in the tree (the statements hold for every combination). *)
Notation M := (memo_prog R_lib Imp_lib).
Definition cont_ok K (c : prog) r := forall K', incl K K' -> M K' c r.

Theorem C20_protocols :
  (* FIELDS: dataclass_fields *)
  (forall K c r, cont_ok K c r -> M K (p_fields c) r) /\
  (* CLASS_TO_LOADER: get_loader *)
  (forall tid K c r, cont_ok K c r -> M K (p_loader tid c) r) /\
  (* CLASS_TO_DUMPER: get_dumper (store, then re-read) *)
  (forall tid K c r, (forall o K', incl K K' -> M K' (c o) r) -> M K (p_dumper tid c) r) /\
  (* FIELD_NAME_TO_LOAD_PARSER + key-cache seeding: _setup_load_config_for_cls, class without JSON paths *)
  (forall fx cd K c r, no_paths cd -> cont_ok K c r -> M K (p_load_cfg fx cd c) r) /\
  (* IS_DUMP_CONFIG_SETUP (flag written AFTER the fill): setup_dump_config_for_cls_if_needed, no JSON paths *)
  (forall fx cd K c r, no_paths cd -> cont_ok K c r -> M K (p_dump_cfg fx cd c) r) /\
  (* setattr(cls, 'from_dict' / 'to_dict', generated function): _set_new_attribute *)
  (forall cd a K c r, cont_ok K c r -> M K (p_setattr cd a c) r) /\
  (* JSON key cache of the generated load function, positive and negative (ExplicitNull) entries *)
  (forall ks K c r, cont_ok K c r -> M K (key_loop ks c) r) /\
  (* FIELD_TO_DEFAULT, writer side (the READERS of a half-filled dict are refuted below) *)
  (forall fx tid cd K c r, (forall o K', incl K K' -> M K' (c o) r) -> M K (p_defaults fx tid cd c) r) /\
  (* lookups.environ: Env.load_environ() *)
  (forall tid K c r, (forall K', incl K K' -> In (T_ENVIRON, 0) K' -> M K' c r) -> M K (p_load_environ tid false c) r) /\
  (* Env.var_names (cached class property) read after environ is loaded *)
  (forall oid K c r, In (T_ENVIRON, 0) K -> (forall K', incl K K' -> M K' (c 1) r) -> M K (p_member oid c) r).
Proof.
  repeat split.
  - exact M_p_fields. - exact M_p_loader. - exact M_p_dumper. - exact M_p_load_cfg. - exact M_p_dump_cfg.
  - exact M_p_setattr. - exact M_key_loop. - exact M_p_defaults. - exact M_p_load_environ. - exact M_p_member.
Qed.
Print Assumptions C20_protocols.

(* 4. Complete programs in the safe region: CLASS_TO_LOAD_FUNC / CLASS_TO_DUMP_FUNC
      check -> generate -> store -> call, and EnvWizard.__init__. *)
Theorem C20_load_plain :
  forall fx tid cd ks K, no_paths cd -> M K (call_load fx tid cd ks) [OSeq].
Proof. exact load_plain. Qed.
Print Assumptions C20_load_plain.

Theorem C20_dump_plain :
  forall fx tid cd vals K, safe_dump cd -> vals_ok fx vals -> M K (call_dump fx tid cd vals) [OSeq].
Proof. exact dump_plain. Qed.
Print Assumptions C20_dump_plain.

Theorem C20_env_plain : forall fx tid K, M K (call_env fx tid false) [OSeq].
Proof. exact env_plain. Qed.
Print Assumptions C20_env_plain.

(* 4b. The REPAIRED hook scan (`for t in tuple(hooks)`, proposed_fixes/F30.patch) is memo-shaped for
       EVERY run-time type of the value: with the repair in the tree, first sight of a subtype is
       inside the safe region of C20_partial (vals_ok fx holds for all values). *)
Theorem C20_hook_scan_repaired :
  forall fx o v K c r, fx30 fx = true -> cont_ok K c r -> M K (p_value fx o v c) r.
Proof. exact M_p_value_repaired. Qed.
Print Assumptions C20_hook_scan_repaired.

(* 5. C20 on the safe region: any number of threads, each any list of load / dump /
      EnvWizard() calls on a class without JSON-path fields (dump: no skip_defaults together
      with default fields; values of hook-table types, or any values once the hook scan is
      repaired; no _reload) - under EVERY schedule
      every finished thread returned the sequential result of each of its calls.
      MISSING for the full property: classes outside the region (refuted below), v1. *)
Theorem C20_partial :
  forall (fx : fixes) (cd : cdesc) (pss : list (list call)),
    Forall (Forall (safe_call fx cd)) pss ->
    forall (sched : list nat) (i : nat) (t : thread) (os : list outcome),
      nth_error (snd (run sched (scenario fx cd pss))) i = Some t ->
      finished t = Some os ->
      exists cs, nth_error pss i = Some cs /\ os = repeat OSeq (List.length cs).
Proof. exact lib_linearizable. Qed.
Print Assumptions C20_partial.

(* non-vacuity: a three-field class, three threads with five calls between them *)
Example C20_partial_nonvacuous :
  let cd := mkC [mkF false false; mkF false false; mkF true false] true false false in
  Forall (Forall (safe_call no_fixes cd))
    [[CLoad [KCamel 0; KExact 1; KUnknown 0]; CDump [VTBase 1; VTBase 0; VTBase 1]];
     [CDump [VTBase 1; VTBase 1; VTBase 1]; CLoad [KExact 0]];
     [CEnv false]].
Proof.
  cbv zeta.
  assert (Hb : forall b, Nat.ltb b NBASE = true -> base_val (VTBase b)).
  { intros b H. exists b. split; [reflexivity | now apply PeanoNat.Nat.ltb_lt]. }
  repeat match goal with
         | |- Forall _ [] => constructor
         | |- Forall _ (_ :: _) => constructor
         | |- safe_call _ _ (CLoad _) => cbn; repeat constructor
         | |- safe_call _ _ (CDump _) =>
             split; [split; [repeat constructor | left; reflexivity]
                    | right; repeat constructor; apply Hb; vm_compute; reflexivity]
         | |- safe_call _ _ (CEnv _) => reflexivity
         end.
Qed.

(* ... and on it a concrete interleaving really finishes with those results *)
Example C20_partial_runs :
  let cd := mkC [mkF false false; mkF true false] false false false in
  let c := scenario no_fixes cd [[CLoad [KCamel 0; KExact 1]]; [CDump [VTBase 1; VTBase 1]]] in
  outcomes (run (micro_of RUN_FUEL [0;1;1;0;0;1;0;1;1;1;0;0;0;0;0;1;1;1;1;1;1;1;1;1;1;1;1;0;0;0;0;0;0;0] c) c)
  = [Some [OSeq]; Some [OSeq]].
Proof. vm_compute. reflexivity. Qed.

(* 6. Outside the safe region the faithful model VIOLATES C20.  Each witness is a schedule
      (micro-step schedule computed from the yield-point schedule the harness replays on the
      implementation) whose outcome differs from that of both sequential orders. *)

(* 6a. hook scan `for t in hooks: ... hooks[cls] = ...` (dumpers.py:562-574): A iterates the
       hook dict, B caches a new subtype in it, A's next iteration step raises RuntimeError. *)
Theorem C20_refuted_hook_scan :
  exists sched,
    outcomes (run sched cfg_hook_scan) = [Some [OErr ERuntime]; Some [OSeq]] /\
    outcomes (run sequential2 cfg_hook_scan) = [Some [OSeq]; Some [OSeq]] /\
    outcomes (run sequential2' cfg_hook_scan) = [Some [OSeq]; Some [OSeq]].
Proof. exists (micro_of RUN_FUEL seg_hook_scan cfg_hook_scan). vm_compute. repeat split. Qed.
Print Assumptions C20_refuted_hook_scan.

(* 6b. two-phase fill of the per-class JSON-path table read through `set_paths = False if
       field_to_path else True` (class_helper.py:155, 246): KeyError (dump) / MissingFields (load). *)
Theorem C20_refuted_path_fill :
  (exists sched,
     outcomes (run sched cfg_path_dump) = [Some [OSeq]; Some [OErr EKeyError]] /\
     outcomes (run sequential2 cfg_path_dump) = [Some [OSeq]; Some [OSeq]] /\
     outcomes (run sequential2' cfg_path_dump) = [Some [OSeq]; Some [OSeq]]) /\
  (exists sched,
     outcomes (run sched cfg_path_load) = [Some [OSeq]; Some [OErr EMissingFields]] /\
     outcomes (run sequential2 cfg_path_load) = [Some [OSeq]; Some [OSeq]] /\
     outcomes (run sequential2' cfg_path_load) = [Some [OSeq]; Some [OSeq]]).
Proof.
  split.
  - exists (micro_of RUN_FUEL seg_path_dump cfg_path_dump). vm_compute. repeat split.
  - exists (micro_of RUN_FUEL seg_path_load cfg_path_load). vm_compute. repeat split.
Qed.
Print Assumptions C20_refuted_path_fill.

(* 6c. FIELD_TO_DEFAULT[cls] registered empty, then filled (class_helper.py:504-510): a dump
       function generated meanwhile ignores skip_defaults for the fields not yet filled in. *)
Theorem C20_refuted_defaults_fill :
  exists sched,
    outcomes (run sched cfg_defaults) = [Some [OSeq]; Some [OWrong]] /\
    outcomes (run sequential2 cfg_defaults) = [Some [OSeq]; Some [OSeq]] /\
    outcomes (run sequential2' cfg_defaults) = [Some [OSeq]; Some [OSeq]].
Proof. exists (micro_of RUN_FUEL seg_defaults cfg_defaults). vm_compute. repeat split. Qed.
Print Assumptions C20_refuted_defaults_fill.

(* 6d. v1: `field_to_aliases.pop(CATCH_ALL, None)` on the shared alias table (v1/loaders.py:1052). *)
Theorem C20_refuted_v1_catchall_pop :
  exists sched,
    outcomes (run sched cfg_v1_catchall) = [Some [OErr ETypeError]; Some [OSeq]] /\
    outcomes (run sequential2 cfg_v1_catchall) = [Some [OSeq]; Some [OSeq]] /\
    outcomes (run sequential2' cfg_v1_catchall) = [Some [OSeq]; Some [OSeq]].
Proof. exists (micro_of RUN_FUEL seg_v1_catchall cfg_v1_catchall). vm_compute. repeat split. Qed.
Print Assumptions C20_refuted_v1_catchall_pop.

(* 6e. Env.reload() caches Env.var_names from an unset `environ` (environ/lookups.py:57-76). *)
Theorem C20_refuted_env_reload :
  exists sched,
    outcomes (run sched cfg_env_reload) = [Some [OErr EMissingVars]; Some [OSeq]] /\
    outcomes (run sequential2 cfg_env_reload) = [Some [OSeq]; Some [OSeq]] /\
    outcomes (run sequential2' cfg_env_reload) = [Some [OSeq]; Some [OSeq]].
Proof. exists (micro_of RUN_FUEL seg_env_reload cfg_env_reload). vm_compute. repeat split. Qed.
Print Assumptions C20_refuted_env_reload.

(* 6f. The proposed repairs (proposed_fixes/F30..F34.patch), switched on in the model, remove every
       witness: the same yield-point schedules (completed by running both threads to their end) now
       give the sequential results.  This is a statement about THESE schedules only; that the repaired
       protocols are linearizable under every schedule is established by the exhaustive bounded
       exploration of the harness on a repaired tree, not proved here. *)
Theorem C20_repairs_remove_witnesses :
  replay_on seg_hook_scan fixed_hook_scan = [Some [OSeq]; Some [OSeq]] /\
  replay_on seg_path_dump fixed_path_dump = [Some [OSeq]; Some [OSeq]] /\
  replay_on seg_path_load fixed_path_load = [Some [OSeq]; Some [OSeq]] /\
  replay_on seg_defaults fixed_defaults = [Some [OSeq]; Some [OSeq]] /\
  replay_on seg_v1_catchall fixed_v1_catchall = [Some [OSeq]; Some [OSeq]] /\
  replay_on seg_env_reload fixed_env_reload = [Some [OSeq]; Some [OSeq]].
Proof. vm_compute. repeat split. Qed.
Print Assumptions C20_repairs_remove_witnesses.

(* 7. Tie T: the default dump-hook table (iteration order of the hook scan) regenerated from
      the source is the documented one; the positions the witnesses use are those of dict / str. *)
Theorem C20_hook_table :
  conc_dump_hook_types =
    [S "str"; S "int"; S "float"; S "bool"; S "bytes"; S "bytearray"; S "NoneType"; S "Enum"; S "UUID";
     S "set"; S "frozenset"; S "deque"; S "list"; S "tuple"; S "NamedTupleMeta"; S "defaultdict"; S "dict";
     S "Decimal"; S "datetime"; S "time"; S "date"; S "timedelta"] /\
  nth_error conc_dump_hook_types IDX_dict = Some (S "dict") /\
  nth_error conc_dump_hook_types IDX_str = Some (S "str").
Proof. repeat split. Qed.
Print Assumptions C20_hook_table.
