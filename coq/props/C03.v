(* C03 — dump emits the documented wire encoding, JSON-safe, fresh.
   Only statements closed by `exact`/short glue and Print Assumptions.
   Model: coq/model/CoreDump.v (dump = model of dumpers.py, ref_encode = the documented
   encoding); registry: coq/gen/T_CoreDumpHooks.v regenerated from the source.
   Second part (C03_bind_order_table onwards): WHICH configuration is in force for a declared
   class - coq/model/CoreDumpConfig.v (the class-definition-time bind pipeline of serial_json.py /
   class_helper.py / bases_meta.py), step order coq/gen/T_CoreDumpBindOrder.v regenerated from the source. *)
From DW Require Import CoreDump T_CoreDumpHooks CoreDumpProofs.
From DW Require Import CoreDumpConfig CoreDumpConfigV0 T_CoreDumpBindOrder CoreDumpConfigProofs.
From Coq Require Import ZArith.

(* Tie T: the dump hook registry (order matters: isinstance scan in insertion order). *)
Theorem C03_hooks_table :
  dump_hooks_v0 =
    [(S "str", S "dump_with_str"); (S "int", S "dump_with_int"); (S "float", S "dump_with_float");
     (S "bool", S "dump_with_bool"); (S "bytes", S "dump_with_bytes"); (S "bytearray", S "dump_with_bytes");
     (S "NoneType", S "dump_with_null"); (S "Enum", S "dump_with_enum"); (S "UUID", S "dump_with_uuid");
     (S "set", S "dump_with_iterable"); (S "frozenset", S "dump_with_iterable"); (S "deque", S "dump_with_iterable");
     (S "list", S "dump_with_list_or_tuple"); (S "tuple", S "dump_with_list_or_tuple");
     (S "NamedTupleMeta", S "dump_with_named_tuple"); (S "defaultdict", S "dump_with_defaultdict");
     (S "dict", S "dump_with_dict"); (S "Decimal", S "dump_with_decimal"); (S "datetime", S "dump_with_datetime");
     (S "time", S "dump_with_time"); (S "date", S "dump_with_date"); (S "timedelta", S "dump_with_timedelta")]
  /\ datetime_to_members = [S "ISO_FORMAT"; S "TIMESTAMP"].
Proof. split; reflexivity. Qed.
Print Assumptions C03_hooks_table.

(* For EVERY well-formed value (any nesting, any runtime types, reached through any
   annotation incl. Any), every key transform, ISO or TIMESTAMP: what the dispatch
   machinery of dumpers.py returns is the documented encoding.  `demix` is the explicit
   coercion "an int/str-mixin Enum member is its value" (what == and json.dumps see):
   such members match `int`/`str` before `Enum` in the registry scan and are returned
   as themselves.  Both sides are `res`: the equation also covers the error cases. *)
Theorem C03_encoding :
  forall cfg v, wfv v = true ->
  rmap demix (dump dump_hooks_v0 cfg v) = ref_encode cfg v.
Proof. exact dump_refines_ref. Qed.
Print Assumptions C03_encoding.

(* ... and the encoding exists (no error) whenever field names are usable identifiers. *)
Theorem C03_encoding_total :
  forall cfg v, wfv v = true -> names_ok v = true -> exists w, ref_encode cfg v = Ok w.
Proof. exact ref_encode_total. Qed.
Print Assumptions C03_encoding_total.

(* The result is accepted by json.dumps without `default=` when dict keys are scalar-like. *)
Theorem C03_json_safe :
  forall cfg v, wfv v = true -> keys_scalar v = true ->
  forall w, dump dump_hooks_v0 cfg v = Ok w -> json_safe w = true.
Proof. exact dump_json_safe. Qed.
Print Assumptions C03_json_safe.

(* No list/dict/set of the result is an object of the input (provenance flags). *)
Theorem C03_fresh :
  forall cfg v, wfv v = true -> forall w, dump dump_hooks_v0 cfg v = Ok w -> all_new w = true.
Proof. exact dump_fresh. Qed.
Print Assumptions C03_fresh.

(* The Z rewrite `s[:-6] + 'Z' if s.endswith('+00:00') else s` (model iso_z, on the reversed texts):
   a trailing +00:00 is written as Z, every other text is left alone - for EVERY text
   (unconditional since the repair of finding F43, /repo d01048a). *)
Theorem C03_z_suffix :
  forall s,
  (ends_with_off s = true -> exists p, s = p ++ utc_off /\ iso_z s = p ++ z_suffix) /\
  (ends_with_off s = false -> iso_z s = s).
Proof. intros s; split; [apply z_suffix_written | apply z_untouched]. Qed.
Print Assumptions C03_z_suffix.

(* Regression witness of the repaired finding F43: a sub-minute offset +00:00:30 is kept. *)
Example C03_subminute_offset_kept :
  dump dump_hooks_v0 (mkCfg XCamel DtIso (S "__tag__"))
       (VTok (mkTok KDateTime (S "2020-01-01T00:00:00+00:00:30") [] 1577836770))
  = Ok (VStr (S "2020-01-01T00:00:00+00:00:30")).
Proof. reflexivity. Qed.

(* Non-vacuity: a concrete instance satisfying the hypotheses, with its encodings. *)
Definition ex_cls := mkC 1 (S "Outer") [mkF (S "my_set") None; mkF (S "when_at") (Some (S "At"))] (Some (S "outer")).
Definition ex_enum := mkE 1 (S "Color") EIntMix.
Definition ex_val : pv :=
  VInst ex_cls
    [VSeq SSet true [VInt 1; VEnum ex_enum (S "RED") (VInt 3)];
     VDict DDefault true
       [(VTok (mkTok KDateTime (S "2020-01-01T00:00:00+00:00") [] 1577836800),
         VSeq STuple true [VTok (mkTok KPath (S "/a/b") [] 0); VBytes true (S "hi") (S "aGk=")])]].
Example C03_example_hyps :
  wfv ex_val = true /\ names_ok ex_val = true /\ keys_scalar ex_val = true /\ all_new ex_val = false.
Proof. repeat split; reflexivity. Qed.
Example C03_example_dump :
  dump dump_hooks_v0 (mkCfg XCamel DtIso (S "__tag__")) ex_val =
  Ok (VDict DDict false
        [(VStr (S "mySet"), VSeq SList false [VInt 1; VEnum ex_enum (S "RED") (VInt 3)]);
         (VStr (S "At"), VDict DDict false
            [(VStr (S "2020-01-01T00:00:00Z"), VSeq STuple false [VStr (S "/a/b"); VStr (S "aGk=")])]);
         (VStr (S "__tag__"), VStr (S "outer"))]).
Proof. reflexivity. Qed.

(* ======================================================================================
   Which configuration is in force: the class-definition-time pipeline (CoreDumpConfig.v)
   ====================================================================================== *)

(* Tie T: program order of the binding statements of JSONSerializable.__init_subclass__ (the implicit
   DumpMeta of JSONPyWizard FIRST, then the inner-Meta initializer, then the LoadMeta of the class keywords),
   order of the two lookups of call_meta_initializer_if_needed, what JSONPyWizard passes, the defaults.
   Moving a bind (e.g. the implicit DumpMeta behind the initializer) breaks this obligation. *)
Theorem C03_bind_order_table :
  init_subclass_steps_v0 = [S "dump_meta_bind"; S "meta_initializer"; S "load_meta_bind"] /\
  meta_initializer_steps_v0 = [S "own"; S "base"] /\
  pywizard_key_transform_v0 = S "NONE" /\
  default_dump_transform_v0 = S "to_camel_case" /\
  default_tag_key_v0 = S "__tag__" /\
  meta_defaults_v0 = [(S "key_transform_with_dump", S "None"); (S "marshal_date_time_as", S "None");
                      (S "tag_key", S "str:__tag__")] /\
  pipeline_v0 = Some pl_doc.
Proof. repeat split; reflexivity. Qed.
Print Assumptions C03_bind_order_table.

(* ANY sequence of bind_to calls from ANY state (induction over the sequence): the dumper applies the LATEST
   explicit key transform of the sequence (else keeps its own), the timestamp hooks are on iff they were or some
   bind asks for TIMESTAMP, and the stored Meta answers the latest explicit tag key. *)
Theorem C03_bind_sequences :
  forall seq st,
  cs_xf (run_binds seq st) = match latest ms_xf seq with Some x => x | None => cs_xf st end /\
  cs_ts (run_binds seq st) = (cs_ts st || existsb sets_ts seq)%bool /\
  meta_get ms_tk (run_binds seq st) = or_else (latest ms_tk seq) (meta_get ms_tk st) /\
  meta_get ms_xf (run_binds seq st) = or_else (latest ms_xf seq) (meta_get ms_xf st).
Proof.
  intros seq st. repeat split;
    [apply run_binds_xf | apply run_binds_ts | apply (run_binds_meta ms_tk get_and_tk) | apply (run_binds_meta ms_xf get_and_xf)].
Qed.
Print Assumptions C03_bind_sequences.

(* INVARIANT over all pipelines and all declarations: the key transform stored in the class's Meta (what a
   cascade would re-bind when the class is used as a NESTED class) is the one its dumper applies. *)
Theorem C03_meta_dumper_agree :
  forall pl d, cs_xf (configure pl d) =
               match meta_get ms_xf (configure pl d) with Some x => x | None => pl_default_xf pl end.
Proof. exact configure_consistent. Qed.
Print Assumptions C03_meta_dumper_agree.

(* For EVERY declaration form (plain dataclass + bind_to, JSONWizard, JSONPyWizard, with/without key_case, with/without
   inner Meta, derived from a configured class, any number of later DumpMeta/LoadMeta binds) and EVERY explicit setting:
   the transform in force is the explicitly configured one - latest bind_to, else own inner Meta, else inherited inner
   Meta - and it wins over the implicit default of the base ...                                   (F93 region excluded) *)
Theorem C03_explicit_transform_wins_partial :
  forall d x, wf_decl d = true -> f93_xf d = false -> configured ms_xf d = Some x ->
  d_xf (effective_cfg pl_doc d) = x.
Proof. exact explicit_xf_wins. Qed.
Print Assumptions C03_explicit_transform_wins_partial.

(* ... and without explicit setting the base decides: 'NONE' for JSONPyWizard, camelCase for JSONWizard / plain. *)
Theorem C03_implicit_transform_default :
  forall d, wf_decl d = true -> configured ms_xf d = None ->
  d_xf (effective_cfg pl_doc d) = base_default_xf (dc_base d).
Proof. exact implicit_xf_default. Qed.
Print Assumptions C03_implicit_transform_default.

(* The whole dump configuration (key transform, marshal_date_time_as, tag key) of every declaration outside the regions
   of F93 / F94 is the documented one. *)
Theorem C03_effective_config_partial :
  forall d, safe_decl pl_doc d = true -> effective_cfg pl_doc d = documented_cfg d.
Proof. exact effective_cfg_documented. Qed.
Print Assumptions C03_effective_config_partial.

(* END TO END: C03_encoding composed with the pipeline - for every declaration form, every setting and every well-formed
   value, the keys and values emitted under the configuration in force for the declared class (pipeline order read from
   the source) are the documented encoding under the configuration the declaration documents. *)
Theorem C03_configured_encoding_partial :
  forall d v, safe_decl pl_doc d = true -> wfv v = true ->
  rmap demix (dump_decl dump_hooks_v0 pipeline_v0 d v) = ref_encode (documented_cfg d) v.
Proof. exact configured_dump_refines_ref. Qed.
Print Assumptions C03_configured_encoding_partial.

(* The regions are exact: inside F93 the transform in force is NOT the documented one (the base class's inner Meta is
   bound after the class's own and wins); inside F94 timestamps are written although ISO_FORMAT is configured. *)
Theorem C03_finding_regions_exact :
  (forall d, wf_decl d = true -> f93_xf d = true -> d_xf (effective_cfg pl_doc d) <> documented_xf d) /\
  (forall d, f94_dt pl_doc d = true -> d_dt (effective_cfg pl_doc d) = DtTimestamp /\ documented_dt d = DtIso).
Proof. split; [exact f93_xf_wrong | exact f94_dt_wrong]. Qed.
Print Assumptions C03_finding_regions_exact.

(* Witnesses (replayed on the implementation as F93 / F94). *)
Definition day_cls := mkC 7 (S "Sub") [mkF (S "my_day") None] (Some (S "tg")).
Definition day_val : pv := VInst day_cls [VTok (mkTok KDate (S "2020-01-01") [] 1577836800)].
(* class Sub(Base): own inner Meta key_transform_with_dump='SNAKE', Base's inner Meta says 'LISP' *)
Definition d_f93 : decl :=
  mkDecl BWizard false (Some (mkMS (Some XSnake) None None)) (Some (Some (mkMS (Some XLisp) None None))) [].
(* plain dataclass: DumpMeta(marshal_date_time_as='TIMESTAMP').bind_to(C); DumpMeta(marshal_date_time_as='ISO_FORMAT').bind_to(C) *)
Definition d_f94 : decl :=
  mkDecl BPlain false None None [mkMS None (Some DtTimestamp) None; mkMS None (Some DtIso) None].
Theorem C03_configured_encoding_refuted :
  (wf_decl d_f93 = true /\ wfv day_val = true /\
   rmap demix (dump_decl dump_hooks_v0 pipeline_v0 d_f93 day_val) <> ref_encode (documented_cfg d_f93) day_val) /\
  (wf_decl d_f94 = true /\ wfv day_val = true /\
   rmap demix (dump_decl dump_hooks_v0 pipeline_v0 d_f94 day_val) <> ref_encode (documented_cfg d_f94) day_val).
Proof. repeat split; try reflexivity; vm_compute; discriminate. Qed.
Print Assumptions C03_configured_encoding_refuted.

(* Non-vacuity: the declaration of seeded change C03-7 (JSONPyWizard subclass whose inner Meta says LISP, then an
   unrelated LoadMeta bind) is safe, the explicit LISP is in force, and the keys come out in lisp-case. *)
Definition d_ex : decl :=
  mkDecl BPyWizard true (Some (mkMS (Some XLisp) None (Some (S "kind")))) None [ms_none].
Example C03_config_example :
  safe_decl pl_doc d_ex = true /\ configured ms_xf d_ex = Some XLisp /\
  show_config pipeline_v0 d_ex = S "LISP|ISO_FORMAT|kind#LISP|-|kind" /\
  dump_decl dump_hooks_v0 pipeline_v0 d_ex day_val =
    Ok (VDict DDict false [(VStr (S "my-day"), VStr (S "2020-01-01")); (VStr (S "kind"), VStr (S "tg"))]) /\
  (* a JSONPyWizard class without any explicit setting keeps the field names *)
  show_config pipeline_v0 (mkDecl BPyWizard false None None []) = S "NONE|ISO_FORMAT|__tag__#NONE|-|-" /\
  (* a subclass without own setting inherits its base's inner Meta *)
  d_xf (effective_cfg pl_doc (mkDecl BWizard false None (Some (Some (mkMS (Some XPascal) None None))) [])) = XPascal.
Proof. repeat split; reflexivity. Qed.
