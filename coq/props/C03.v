(* C03 — dump emits the documented wire encoding, JSON-safe, fresh.
   Only statements closed by `exact`/short glue and Print Assumptions.
   Model: coq/model/CoreDump.v (dump = model of dumpers.py, ref_encode = the documented
   encoding); registry: coq/gen/T_CoreDumpHooks.v regenerated from the source. *)
From DW Require Import CoreDump T_CoreDumpHooks CoreDumpProofs.
From Coq Require Import ZArith.

(* Tie T: the dump hook registry (order matters: isinstance scan in insertion order). *)
Theorem C03_hooks_table :
  dump_hooks_v0 =
    [(S "str", S "dump_with_str"); (S "int", S "dump_with_int"); (S "float", S "dump_with_float");
     (S "bool", S "dump_with_bool"); (S "bytes", S "dump_with_bytes"); (S "bytearray", S "dump_with_bytes");
     (S "NoneType", S "dump_with_null"); (S "Enum", S "dump_with_enum"); (S "UUID", S "dump_with_uuid");
     (S "set", S "dump_with_iterable"); (S "frozenset", S "dump_with_iterable"); (S "deque", S "dump_with_iterable");
     (S "list", S "dump_with_list_or_tuple"); (S "tuple", S "dump_with_list_or_tuple");
     (S "NamedTupleMeta", S "dump_with_named_tuple"); (S "defaultdict", S "dump_with_defaultdict");
     (S "dict", S "dump_with_dict"); (S "Decimal", S "dump_with_decimal"); (S "datetime", S "dump_with_datetime");
     (S "time", S "dump_with_time"); (S "date", S "dump_with_date"); (S "timedelta", S "dump_with_timedelta")]
  /\ datetime_to_members = [S "ISO_FORMAT"; S "TIMESTAMP"].
Proof. split; reflexivity. Qed.
Print Assumptions C03_hooks_table.

(* For EVERY well-formed value (any nesting, any runtime types, reached through any
   annotation incl. Any), every key transform, ISO or TIMESTAMP: what the dispatch
   machinery of dumpers.py returns is the documented encoding.  `demix` is the explicit
   coercion "an int/str-mixin Enum member is its value" (what == and json.dumps see):
   such members match `int`/`str` before `Enum` in the registry scan and are returned
   as themselves.  Both sides are `res`: the equation also covers the error cases. *)
Theorem C03_encoding :
  forall cfg v, wfv v = true ->
  rmap demix (dump dump_hooks_v0 cfg v) = ref_encode cfg v.
Proof. exact dump_refines_ref. Qed.
Print Assumptions C03_encoding.

(* ... and the encoding exists (no error) whenever field names are usable identifiers. *)
Theorem C03_encoding_total :
  forall cfg v, wfv v = true -> names_ok v = true -> exists w, ref_encode cfg v = Ok w.
Proof. exact ref_encode_total. Qed.
Print Assumptions C03_encoding_total.

(* The result is accepted by json.dumps without `default=` when dict keys are scalar-like. *)
Theorem C03_json_safe :
  forall cfg v, wfv v = true -> keys_scalar v = true ->
  forall w, dump dump_hooks_v0 cfg v = Ok w -> json_safe w = true.
Proof. exact dump_json_safe. Qed.
Print Assumptions C03_json_safe.

(* No list/dict/set of the result is an object of the input (provenance flags). *)
Theorem C03_fresh :
  forall cfg v, wfv v = true -> forall w, dump dump_hooks_v0 cfg v = Ok w -> all_new w = true.
Proof. exact dump_fresh. Qed.
Print Assumptions C03_fresh.

(* The Z rewrite `s[:-6] + 'Z' if s.endswith('+00:00') else s` (model iso_z, on the reversed texts):
   a trailing +00:00 is written as Z, every other text is left alone - for EVERY text
   (unconditional since the repair of finding F43, /repo d01048a). *)
Theorem C03_z_suffix :
  forall s,
  (ends_with_off s = true -> exists p, s = p ++ utc_off /\ iso_z s = p ++ z_suffix) /\
  (ends_with_off s = false -> iso_z s = s).
Proof. intros s; split; [apply z_suffix_written | apply z_untouched]. Qed.
Print Assumptions C03_z_suffix.

(* Regression witness of the repaired finding F43: a sub-minute offset +00:00:30 is kept. *)
Example C03_subminute_offset_kept :
  dump dump_hooks_v0 (mkCfg XCamel DtIso (S "__tag__"))
       (VTok (mkTok KDateTime (S "2020-01-01T00:00:00+00:00:30") [] 1577836770))
  = Ok (VStr (S "2020-01-01T00:00:00+00:00:30")).
Proof. reflexivity. Qed.

(* Non-vacuity: a concrete instance satisfying the hypotheses, with its encodings. *)
Definition ex_cls := mkC 1 (S "Outer") [mkF (S "my_set") None; mkF (S "when_at") (Some (S "At"))] (Some (S "outer")).
Definition ex_enum := mkE 1 (S "Color") EIntMix.
Definition ex_val : pv :=
  VInst ex_cls
    [VSeq SSet true [VInt 1; VEnum ex_enum (S "RED") (VInt 3)];
     VDict DDefault true
       [(VTok (mkTok KDateTime (S "2020-01-01T00:00:00+00:00") [] 1577836800),
         VSeq STuple true [VTok (mkTok KPath (S "/a/b") [] 0); VBytes true (S "hi") (S "aGk=")])]].
Example C03_example_hyps :
  wfv ex_val = true /\ names_ok ex_val = true /\ keys_scalar ex_val = true /\ all_new ex_val = false.
Proof. repeat split; reflexivity. Qed.
Example C03_example_dump :
  dump dump_hooks_v0 (mkCfg XCamel DtIso (S "__tag__")) ex_val =
  Ok (VDict DDict false
        [(VStr (S "mySet"), VSeq SList false [VInt 1; VEnum ex_enum (S "RED") (VInt 3)]);
         (VStr (S "At"), VDict DDict false
            [(VStr (S "2020-01-01T00:00:00Z"), VSeq STuple false [VStr (S "/a/b"); VStr (S "aGk=")])]);
         (VStr (S "__tag__"), VStr (S "outer"))]).
Proof. reflexivity. Qed.
