(* C07 — configuration of one class never changes the behaviour of another.
   Only statements closed by `exact` and Print Assumptions. *)
From DW Require Import PyStr StrConv StateModel StatePure StateHist StateFrame StateWitness StateProps.
From DW Require Import FamModel FamLogic FamFrameProofs FamWitness.

(* FRAME THEOREM: let G be a family of classes (a predicate on class ids) and h any history.  If the tables
   are disjoint — G is closed under what its operations read (nested classes, base classes, classes of
   dumped instances), the other operations share no nested class with G, and no definition outside G uses
   a qualname (own or base) used by a definition in G; the model has no module-level Meta — and both the
   history and its projection onto G avoid the open regions, then the outcomes of G's operations in h are
   exactly the outcomes of the same operations with everything else (definitions, Meta bindings, loads,
   dumps of the other classes) deleted. *)
Theorem C07_frame :
  forall inG h,
  disjoint_tables inG h = true -> safe_history h = true -> safe_history (proj inG h) = true ->
  outs_in inG h (run_out init h) = run_out init (proj inG h).
Proof. exact frame. Qed.
Print Assumptions C07_frame.

(* non-vacuity: two families (one with cascading inner Meta and a nested class, the other with LoadMeta
   bindings, a nested class and a subclass), 13 interleaved operations *)
Example C07_frame_example :
  disjoint_tables g_frame h_frame = true /\ safe_history h_frame = true /\ safe_history (proj g_frame h_frame) = true.
Proof. exact frame_example. Qed.
Print Assumptions C07_frame_example.

(* REFUTATIONS on the faithful model: G's outcomes change although G never mentions F *)
(* F11: an unrelated class with the same qualname and no Meta inherits the first class's inner Meta
   (META_INITIALIZER keyed by qualname) *)
Theorem C07_refuted_same_qualname :
  exists inG h, disjoint_tables inG h = false /\ outs_in inG h (run_out init h) <> run_out init (proj inG h).
Proof. exists g_f11, h_f11. exact refuted_f11. Qed.
Print Assumptions C07_refuted_same_qualname.

(* F10: a nested class shared with a root of another Meta *)
Theorem C07_refuted_shared_nested :
  exists inG h, disjoint_tables inG h = false /\ outs_in inG h (run_out init h) <> run_out init (proj inG h).
Proof. exists g_f10, h_f10_all. exact refuted_f10_frame. Qed.
Print Assumptions C07_refuted_shared_nested.

(* F10: the nested class used on its own after a root with a Meta used it *)
Theorem C07_refuted_nested_alone_after :
  exists inG h, disjoint_tables inG h = false /\ outs_in inG h (run_out init h) <> run_out init (proj inG h).
Proof. exists g_f10b, h_f10b_all. exact refuted_f10b_frame. Qed.
Print Assumptions C07_refuted_nested_alone_after.

(* F40 (new): LoadMeta bound to a subclass rewrites, in place, the Meta object the subclass inherited
   from its base: the base class now raises on unknown keys and skips defaults *)
Theorem C07_refuted_subclass_bind :
  exists inG h, disjoint_tables inG h = false /\ outs_in inG h (run_out init h) <> run_out init (proj inG h).
Proof. exists g_f40, h_f40. exact refuted_f40. Qed.
Print Assumptions C07_refuted_subclass_bind.

(* ======================================================================================================
   SECOND MODEL (coq/model/FamModel.v): Meta classes as OBJECTS on a heap (`_META : class -> address`,
   allocation by LoadMeta / DumpMeta / inner Meta, in-place merge `&=`), Meta.recursive_classes (lazily generated
   nested load functions under a captured config REFERENCE), loader / dumper CLASSES with overridden hooks and the
   create-on-miss tables CLASS_TO_LOADER / CLASS_TO_DUMPER, every configuration entry point, bindings in any order
   and any repetition (also after first use).
   ====================================================================================================== *)

(* FRAME THEOREM over ALL histories of the richer state.  For every program text `env`, every family G, every
   allocation policy that hands a class only Meta objects created for that class and looks only at that class's own
   cell (`alloc_ok`; today's policy - a new object per call - is one, C07_fresh_alloc_ok), and EVERY history h:
   if the program text is statically separated (`sep_env`: the classes nested in a class are on its side of the
   border; JSONWizard classes with equal qualnames are on the same side) and every dumped value holds only instances
   of its own side (`closed_hist`), then G's outcomes are those of the history with every operation of the other
   classes deleted.  No safe-history hypothesis: the proof is a footprint argument (FamLogic.v) - every function of
   the model preserves the separation invariant, leaves the other side's cells untouched and, from two states that
   agree on its side, computes the same result. *)
Theorem C07_heap_frame :
  forall env al inG h,
  sep_env inG env = true -> alloc_ok al -> closed_hist inG h = true ->
  fouts_in inG h (frun_out env al finit h) = frun_out env al finit (fproj inG h).
Proof. intros env al inG h Hs Ha Hc. exact (fam_frame env al inG Hs Ha h Hc). Qed.
Print Assumptions C07_heap_frame.

Theorem C07_fresh_alloc_ok : alloc_ok fresh_alloc.
Proof. exact fresh_alloc_ok. Qed.
Print Assumptions C07_fresh_alloc_ok.

(* THE SEPARATION INVARIANT holds after every history: no Meta object, generated function, captured config or
   initialiser is reachable from both sides of the border, and every loader / dumper class stored for a class N
   comes from N's own declaration *)
Theorem C07_heap_separation_invariant :
  forall env al inG h,
  sep_env inG env = true -> alloc_ok al -> closed_hist inG h = true ->
  Inv env inG (frun env al finit h).
Proof. intros env al inG h Hs Ha Hc. exact (fam_sep_invariant env al inG Hs Ha h Hc). Qed.
Print Assumptions C07_heap_separation_invariant.

(* for ALL histories, without any hypothesis on the program: the loader / dumper class stored for N, and the hooks
   the parsers of N's own fields captured, are N's own (N itself when it subclasses LoadMixin / DumpMixin, else a
   subclass of the library's mixin) - never another user class's *)
Theorem C07_loader_depends_on_own_declaration :
  forall env al h, alloc_ok al ->
  forall n,
    (forall l, fc_loader (fs_cls (frun env al finit h) n) = Some l -> lc_base l = own_lbase env n) /\
    (forall l, fc_dumper (fs_cls (frun env al finit h) n) = Some l -> dc_base l = own_dbase env n) /\
    (forall ps x b, fc_parsers (fs_cls (frun env al finit h) n) = Some ps ->
                    (In (x, QInt b) ps \/ In (x, QStr b) ps) -> b = own_lbase env n).
Proof. exact fam_loader_own. Qed.
Print Assumptions C07_loader_depends_on_own_declaration.

(* non-vacuity: a LoadMixin root with recursive_classes and an inner Meta, re-bound before and after first use, next
   to a JSONPyWizard + DumpMixin root that gets recursive_classes and a later dump transform; 15 operations, 8 of G,
   none outside the modelled domain *)
Example C07_heap_frame_example :
  sep_env ex_G ex_env = true /\ closed_hist ex_G ex_h = true /\
  forallb no_model_error (frun_out ex_env fresh_alloc finit ex_h) = true /\
  List.length (fproj ex_G ex_h) = 8.
Proof. exact frame_example_fam. Qed.
Print Assumptions C07_heap_frame_example.

(* one Meta object referenced from both sides of a border contradicts the invariant ... *)
Theorem C07_shared_meta_not_separated :
  forall env inG s c c' a,
  inG c <> inG c' -> fc_meta (fs_cls s c) = Some a -> fc_meta (fs_cls s c') = Some a -> ~ Inv env inG s.
Proof. exact shared_meta_not_separated. Qed.
Print Assumptions C07_shared_meta_not_separated.

(* ... and BREAKS THE FRAME: under an allocation policy that memoises LoadMeta(..) by settings (not `alloc_ok`), two
   unrelated classes bound with equal settings share one object; a second binding to F merges into it in place and G,
   statically separated from F, starts to skip defaults.  With today's policy the same program is framed. *)
Theorem C07_refuted_shared_meta_object :
  exists env inG h,
  sep_env inG env = true /\ closed_hist inG h = true /\
  fouts_in inG h (frun_out env memo_alloc finit h) <> frun_out env memo_alloc finit (fproj inG h) /\
  fc_meta (fs_cls (frun env memo_alloc finit h) 1) = fc_meta (fs_cls (frun env memo_alloc finit h) 2) /\
  fouts_in inG h (frun_out env fresh_alloc finit h) = frun_out env fresh_alloc finit (fproj inG h).
Proof. exists memo_env, memo_G, memo_h. exact refuted_memo_alloc. Qed.
Print Assumptions C07_refuted_shared_meta_object.

Theorem C07_memo_alloc_not_ok : ~ alloc_ok memo_alloc.
Proof. exact memo_alloc_not_ok. Qed.
Print Assumptions C07_memo_alloc_not_ok.

(* F11 in the heap model: the second class picks up the ADDRESS of the first class's inner Meta through the shared
   qualname (sep_env = false); F's later binding reconfigures G *)
Theorem C07_refuted_heap_same_qualname :
  exists env inG h,
  sep_env inG env = false /\ closed_hist inG h = true /\
  fouts_in inG h (frun_out env fresh_alloc finit h) <> frun_out env fresh_alloc finit (fproj inG h) /\
  fc_meta (fs_cls (frun env fresh_alloc finit h) 2) = Some (1, 0).
Proof. exists qn_env, qn_G, qn_h. exact refuted_qualname. Qed.
Print Assumptions C07_refuted_heap_same_qualname.

(* F10 under recursive_classes: the nested class's lazily generated load function captures the key transform that
   the other root's cascade wrote to the nested class's loader (sep_env = false: the nested class is shared) *)
Theorem C07_refuted_shared_nested_recursive_classes :
  exists env inG h,
  sep_env inG env = false /\ closed_hist inG h = true /\
  fouts_in inG h (frun_out env fresh_alloc finit h) <> frun_out env fresh_alloc finit (fproj inG h).
Proof. exists rc_env, rc_G, rc_h. exact refuted_shared_nested_rc. Qed.
Print Assumptions C07_refuted_shared_nested_recursive_classes.
