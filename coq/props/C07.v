(* C07 — configuration of one class never changes the behaviour of another.
   Only statements closed by `exact` and Print Assumptions. *)
From DW Require Import PyStr StrConv StateModel StatePure StateHist StateFrame StateWitness StateProps.

(* FRAME THEOREM: let G be a family of classes (a predicate on class ids) and h any history.  If the tables
   are disjoint — G is closed under what its operations read (nested classes, base classes, classes of
   dumped instances), the other operations share no nested class with G, and no definition outside G uses
   a qualname (own or base) used by a definition in G; the model has no module-level Meta — and both the
   history and its projection onto G avoid the open regions, then the outcomes of G's operations in h are
   exactly the outcomes of the same operations with everything else (definitions, Meta bindings, loads,
   dumps of the other classes) deleted. *)
Theorem C07_frame :
  forall inG h,
  disjoint_tables inG h = true -> safe_history h = true -> safe_history (proj inG h) = true ->
  outs_in inG h (run_out init h) = run_out init (proj inG h).
Proof. exact frame. Qed.
Print Assumptions C07_frame.

(* non-vacuity: two families (one with cascading inner Meta and a nested class, the other with LoadMeta
   bindings, a nested class and a subclass), 13 interleaved operations *)
Example C07_frame_example :
  disjoint_tables g_frame h_frame = true /\ safe_history h_frame = true /\ safe_history (proj g_frame h_frame) = true.
Proof. exact frame_example. Qed.
Print Assumptions C07_frame_example.

(* REFUTATIONS on the faithful model: G's outcomes change although G never mentions F *)
(* F11: an unrelated class with the same qualname and no Meta inherits the first class's inner Meta
   (META_INITIALIZER keyed by qualname) *)
Theorem C07_refuted_same_qualname :
  exists inG h, disjoint_tables inG h = false /\ outs_in inG h (run_out init h) <> run_out init (proj inG h).
Proof. exists g_f11, h_f11. exact refuted_f11. Qed.
Print Assumptions C07_refuted_same_qualname.

(* F10: a nested class shared with a root of another Meta *)
Theorem C07_refuted_shared_nested :
  exists inG h, disjoint_tables inG h = false /\ outs_in inG h (run_out init h) <> run_out init (proj inG h).
Proof. exists g_f10, h_f10_all. exact refuted_f10_frame. Qed.
Print Assumptions C07_refuted_shared_nested.

(* F10: the nested class used on its own after a root with a Meta used it *)
Theorem C07_refuted_nested_alone_after :
  exists inG h, disjoint_tables inG h = false /\ outs_in inG h (run_out init h) <> run_out init (proj inG h).
Proof. exists g_f10b, h_f10b_all. exact refuted_f10b_frame. Qed.
Print Assumptions C07_refuted_nested_alone_after.

(* F40 (new): LoadMeta bound to a subclass rewrites, in place, the Meta object the subclass inherited
   from its base: the base class now raises on unknown keys and skips defaults *)
Theorem C07_refuted_subclass_bind :
  exists inG h, disjoint_tables inG h = false /\ outs_in inG h (run_out init h) <> run_out init (proj inG h).
Proof. exists g_f40, h_f40. exact refuted_f40. Qed.
Print Assumptions C07_refuted_subclass_bind.
