(* C02 — dump-then-load is the identity (v1 engine); loader generation never fails.
   Statements only (closed by `exact` / short glue) + Print Assumptions.
   Model: coq/model/V1Base.v V1Gen.v V1Errors.v V1Eval.v; proofs: coq/proofs/V1Gen*.v V1RtProofs.v *)
From DW Require Import PyStr V1Base V1Gen V1Errors V1Eval V1Show V1GenInv V1GenSound V1GenNames V1GenTotal V1RtProofs V1Annot V1AnnotProofs.
From Coq Require Import ZArith List Bool.
Import ListNotations.

(* (a) Generation totality: every supported annotation generates, at EVERY position
   (any TypeInfo: variable index, parent index, prefix, field index), in every generator
   state, provided the class budget covers the classes not yet in the recursion guard. *)
Theorem C02_gen_total :
  forall ct, supported_ct ct = true ->
  forall t, supported ct t = true ->
  forall n ti cn g, unguarded ct (g_guard g) <= n ->
  exists c g', gen_expr ct n t ti cn g = Ok (c, g').
Proof. exact gen_expr_total. Qed.
Print Assumptions C02_gen_total.

Theorem C02_gen_main_total :
  forall ct, supported_ct ct = true ->
  forall c, c < List.length ct ->
  exists f g, gen_main ct (Datatypes.S (List.length ct)) c = Ok (f, g).
Proof. exact gen_main_total. Qed.
Print Assumptions C02_gen_main_total.

(* (b) Generator soundness, compiler-correctness style.  For every class table, every class,
   every oracle, every document and every call budget: running the generated program equals
   the semantic specification.  After the repairs of F18 (index composition), F22 (helper
   names), F23 (guard keys) and F48 (prefix reset) NO condition on positions remains: every
   TypeInfo (variable index, chain of parent indexes, prefix), every nesting.
   The ONE remaining premise is about function NAMES: the names recorded in the recursion
   guard are pairwise distinct.  It is a decidable check on the generator's output and it
   fails only when two different helper-compiled types are given the same function name —
   the open defect F9: NamedTuple / TypedDict / dataclass helpers are named after the type's
   __name__ (refuted below with two NamedTuples named P). *)
Theorem C02_gen_sound :
  forall Or ct gn c f g,
  gen_main ct gn c = Ok (f, g) -> names_distinct g = true ->
  forall n o, run_main Or ct gn n c o = load_cls Or ct n c o.
Proof.
  intros Or ct gn c f g Hg Hd.
  exact (run_main_sound Or ct gn c f g Hg (names_distinct_coherent ct gn c f g Hg Hd)).
Qed.
Print Assumptions C02_gen_sound.

(* the same with the weaker premise `coherent g`: every guard entry's function was generated
   for that entry's type (implied by distinct names) *)
Theorem C02_gen_sound_coherent :
  forall Or ct gn c f g,
  gen_main ct gn c = Ok (f, g) -> coherent g = true ->
  forall n o, run_main Or ct gn n c o = load_cls Or ct n c o.
Proof. exact run_main_sound. Qed.
Print Assumptions C02_gen_sound_coherent.

(* The position-level statement: an expression generated at ANY TypeInfo ti, evaluated in ANY
   environment, computes the specification applied to whatever the variable access `ti.v()`
   evaluates to.  (Gf is the final generator state the expression is linked against.) *)
Theorem C02_gen_expr_sound :
  forall Or ct gn t ti cn g c g',
  gen_expr ct gn t ti cn g = Ok (c, g') ->
  forall Gf, ext (g_guard g') (g_guard Gf) -> coherent Gf = true ->
    fns_ok (g_guard Gf) ct (g_fns Gf) ->
    forall n en,
      eval Or (run_fn Or ct (g_fns Gf) n) en c =
      load_v1_r Or ct n t (ti_opt ti) (eval Or (run_fn Or ct (g_fns Gf) n) en (tiv ti)).
Proof. exact gen_expr_sound. Qed.
Print Assumptions C02_gen_expr_sound.

(* (c) Round trip: load_v1 t (dump v) = v for every conforming v over leaves, list, tuple
   (variadic and fixed), set, frozenset, deque, dict, defaultdict, Optional, Literal,
   NamedTuple and (mutually / self-) recursive dataclasses, for every budget.
   Leaf laws are hypotheses on the oracle, for the values `good` selects
   (`_partial`: negative timedelta does not satisfy the law — F3; Union and TypedDict are
   outside `conforms`). *)
Theorem C02_roundtrip_partial :
  forall Or ct good,
  (forall rec l o v, good l v = true -> load_r Or rec (TLeaf l) o (Ok (dump Or ct v)) = Ok v) ->
  (forall l v, good l v = true -> is_none v = false -> is_none (dump Or ct v) = false) ->
  forallb keys_ok ct = true ->
  forall n t v, conforms ct good n t v = true -> load_v1 Or ct n t (dump Or ct v) = Ok v.
Proof. exact rt_load_v1. Qed.
Print Assumptions C02_roundtrip_partial.

(* (b)+(c): the GENERATED program inverts the dumper on conforming instances *)
Theorem C02_roundtrip_code_partial :
  forall Or ct good gn c f g,
  (forall rec l o v, good l v = true -> load_r Or rec (TLeaf l) o (Ok (dump Or ct v)) = Ok v) ->
  (forall l v, good l v = true -> is_none v = false -> is_none (dump Or ct v) = false) ->
  forallb keys_ok ct = true ->
  gen_main ct gn c = Ok (f, g) -> names_distinct g = true ->
  forall n v, conforms ct good n (TData c) v = true ->
  run_main Or ct gn n c (dump Or ct v) = Ok v.
Proof.
  intros Or ct good gn c f g H1 H2 H3 Hg Hd n v Hv.
  rewrite (run_main_sound Or ct gn c f g Hg (names_distinct_coherent ct gn c f g Hg Hd)).
  exact (rt_load_v1 Or ct good H1 H2 H3 n (TData c) v Hv).
Qed.
Print Assumptions C02_roundtrip_code_partial.

(* ---- witnesses ---------------------------------------------------------------------- *)
Definition fd (n : string) (t : ty) : fdecl :=
  {| f_name := S n; f_ty := t; f_default := None; f_keys := [S n]; f_dkey := S n |}.
Definition tI := TLeaf LInt.
Definition tS := TLeaf LStr.
Definition pair (a b : ty) : tys := TCons [] a (TCons [] b TNil).
(* toy oracle: int and str load as themselves, anything else is a ValueError *)
Definition toy : oracle :=
  {| conv := fun l _ v => match l, v with
                          | LInt, VInt _ | LStr, VStr _ => Ok v
                          | _, _ => bare "ValueError" end;
     dumpleaf := fun v => v |}.
Definition toy_good (l : leaf) (v : pv) : bool :=
  match l, v with LInt, VInt _ | LStr, VStr _ => true | _, _ => false end.
Definition doc1 (k : string) (v : pv) : pv := VDict None [(VStr (S k), v)].

(* F9 (open): x: P, y: P' — two different NamedTuples both named P share the helper name
   _load_C_named_tuple_P; the second definition replaces the first *)
Definition tP1 := TNamed (S "P") (TCons (S "a") tI TNil).
Definition tP2 := TNamed (S "P") (TCons (S "a") tS (TCons (S "b") tI TNil)).
Definition ct_F9 : ctable := [{| c_name := S "C"; c_fields := [fd "x" tP1; fd "y" tP2] |}].
Definition doc_F9 := VDict None [(VStr (S "x"), VSeq KList [VInt 1]);
                                 (VStr (S "y"), VSeq KList [VStr (S "s"); VInt 2])].
Theorem C02_refuted_F9 :
  exists f g e v,
    gen_main ct_F9 2 0 = Ok (f, g) /\ names_distinct g = false /\ coherent g = false /\
    run_main toy ct_F9 2 3 0 doc_F9 = Err e /\ load_cls toy ct_F9 3 0 doc_F9 = Ok v.
Proof. vm_compute. do 4 eexists. repeat split; reflexivity. Qed.
Print Assumptions C02_refuted_F9.

(* The shapes of the repaired defects are inside the theorem now: names are distinct and the
   generated program computes the specification's value. *)
Definition in_scope (ct : ctable) (doc : pv) : Prop :=
  exists f g v, gen_main ct 2 0 = Ok (f, g) /\ names_distinct g = true /\
                run_main toy ct 2 3 0 doc = Ok v /\ load_cls toy ct 3 0 doc = Ok v.
(* F18: x: tuple[tuple[int, str], str] *)
Definition ct_F18 : ctable := [{| c_name := S "F"; c_fields := [fd "x" (TTuple (pair (TTuple (pair tI tS)) tS))] |}].
Definition doc_F18 := doc1 "x" (VSeq KList [VSeq KList [VInt 1; VStr (S "a")]; VStr (S "b")]).
Example C02_ex_F18_shape : in_scope ct_F18 doc_F18.
Proof. vm_compute. do 3 eexists. repeat split; reflexivity. Qed.
(* F22: x: tuple[Literal['a'], Literal['b']] *)
Definition ct_F22 : ctable :=
  [{| c_name := S "A"; c_fields := [fd "x" (TTuple (pair (TLit [LitStr (S "a")]) (TLit [LitStr (S "b")])))] |}].
Definition doc_F22 := doc1 "x" (VSeq KList [VStr (S "a"); VStr (S "b")]).
Example C02_ex_F22_shape : in_scope ct_F22 doc_F22.
Proof. vm_compute. do 3 eexists. repeat split; reflexivity. Qed.
(* F23: x: Literal[1]; y: Literal[True] *)
Definition ct_F23 : ctable :=
  [{| c_name := S "C"; c_fields := [fd "x" (TLit [LitInt 1]); fd "y" (TLit [LitBool true])] |}].
Definition doc_F23 := VDict None [(VStr (S "x"), VInt 1); (VStr (S "y"), VBool true)].
Example C02_ex_F23_shape : in_scope ct_F23 doc_F23.
Proof. vm_compute. do 3 eexists. repeat split; reflexivity. Qed.
(* F48: x: dict[tuple[int, ...], int] *)
Definition ct_F48 : ctable :=
  [{| c_name := S "K"; c_fields := [fd "x" (TDict None (TSeq KTuple tI) tI)] |}].
Definition doc_F48 := doc1 "x" (VDict None [(VSeq KTuple [VInt 1; VInt 2], VInt 3)]).
Example C02_ex_F48_shape : in_scope ct_F48 doc_F48.
Proof. vm_compute. do 3 eexists. repeat split; reflexivity. Qed.

(* ---- non-vacuity: a class table with a self-referential class, a NamedTuple inside a
   list inside a dict, Optional, Literal and a fixed tuple satisfies every hypothesis ------ *)
Definition tNT := TNamed (S "P") (TCons (S "a") tI (TCons (S "b") (TSeq KList tS) TNil)).
Definition ct_ex : ctable :=
  [{| c_name := S "Node";
      c_fields := [fd "v" tI;
                   fd "kids" (TSeq KList (TData 0));
                   fd "m" (TDict None tS (TSeq KList tNT));
                   fd "o" (TOpt (TTuple (pair tI (TLit [LitStr (S "q")]))));
                   fd "e" (TData 1)] |};
   {| c_name := S "Leafy"; c_fields := [fd "s" (TSeq KSet tS)] |}].
Definition v_ex : pv :=
  VInst 0 [(S "v", VInt 1);
           (S "kids", VSeq KList [VInst 0 [(S "v", VInt 2); (S "kids", VSeq KList []);
                                           (S "m", VDict None []); (S "o", VNone);
                                           (S "e", VInst 1 [(S "s", VSeq KSet [])])]]);
           (S "m", VDict None [(VStr (S "k"), VSeq KList [VNamed (S "P") [VInt 7; VSeq KList [VStr (S "z")]]])]);
           (S "o", VSeq KTuple [VInt 3; VStr (S "q")]);
           (S "e", VInst 1 [(S "s", VSeq KSet [VStr (S "x"); VStr (S "y")])])].

Example C02_ex_supported : supported_ct ct_ex = true /\ forallb keys_ok ct_ex = true.
Proof. split; reflexivity. Qed.
Example C02_ex_generates_distinct_names :
  exists f g, gen_main ct_ex 3 0 = Ok (f, g) /\ names_distinct g = true /\ coherent g = true.
Proof. vm_compute. do 2 eexists. repeat split; reflexivity. Qed.
Example C02_ex_conforms : conforms ct_ex toy_good 4 (TData 0) v_ex = true.
Proof. reflexivity. Qed.
Example C02_ex_toy_laws :
  (forall rec l o v, toy_good l v = true -> load_r toy rec (TLeaf l) o (Ok (dump toy ct_ex v)) = Ok v) /\
  (forall l v, toy_good l v = true -> is_none v = false -> is_none (dump toy ct_ex v) = false).
Proof.
  split.
  - intros rec l o v H. destruct l, v; cbn in H; try discriminate; reflexivity.
  - intros l v H _. destruct l, v; cbn in H; try discriminate; reflexivity.
Qed.
Example C02_ex_roundtrip : run_main toy ct_ex 3 4 0 (dump toy ct_ex v_ex) = Ok v_ex.
Proof. vm_compute. reflexivity. Qed.

(* ======================================================================================================
   (d) The annotation-resolution FRONT END (model/V1Annot.v): what a field holds after class definition
   is a SURFACE annotation — class / alias objects, Annotated[...], Required / NotRequired / ReadOnly[...],
   `type X = ...` aliases and strings / ForwardRefs still to be evaluated in a module namespace.
   `resolve` transcribes get_string_for_annotation's single pass (evaluate a top-level string; strip ONE
   Annotated or else ONE qualifier; then resolve ONE alias; dispatch) and its recursion through the
   hooks; `walk` transcribes load_func_for_dataclass entering nested classes on a copy of extras with
   extras['cls'] switched to the nested class.  `denotes` is the reference semantics: what the annotation
   means whatever the nesting order of the wrappers and whichever module is current.
   ====================================================================================================== *)

(* Resolution succeeds and yields the denotation, for EVERY program, module, annotation and depth, inside
   the decidable region okb: at every component reached (through type arguments, NamedTuple fields,
   TypedDict keys, alias values) the wrappers are in an order the single pass handles and every string
   is well scoped in the module that will be used.  `_partial`: outside okb the pinned code does fail on
   annotations that denote a type (refuted below) — a second wrapper of the same phase, a qualifier
   below Annotated, a string or a generic below a wrapper, an alias of an alias. *)
Theorem C02_resolve_total_partial :
  forall fuel E cur a, okb fuel E cur a = true ->
  exists t, resolve fuel E cur a = Ok t /\ denotes E a t.
Proof. exact resolve_total. Qed.
Print Assumptions C02_resolve_total_partial.

(* the executable reference used by the harness is sound for the relation *)
Theorem C02_denote_sound : forall fuel E a t, denote fuel E a = Ok t -> denotes E a t.
Proof. exact denote_denotes. Qed.
Print Assumptions C02_denote_sound.

(* A nested dataclass is resolved in ITS OWN module: whatever the root, the path by which the class is
   reached and the depth, the entry the walk makes for a class is the resolution of its fields with the
   strings evaluated in the class's own module (never the module of the class that was current). *)
Theorem C02_nested_own_namespace :
  forall rf E root ct, surface_table true rf E root = Ok ct ->
  forall c sc, nth_error (e_cls E) c = Some sc ->
    nth_error ct c = Some {| c_name := sc_name sc; c_fields := [] |} (* not reached from the root *) \/
    exists d, nth_error ct c = Some d /\ resolve_class rf E (sc_mod sc) sc = Ok d.
Proof. exact surface_table_own. Qed.
Print Assumptions C02_nested_own_namespace.

Theorem C02_walk_own_namespace :
  forall fuel rf E x c acc acc', walk true fuel rf E x c acc = Ok acc' ->
  Forall (own rf E) acc -> Forall (own rf E) acc'.
Proof. exact walk_own_namespace. Qed.
Print Assumptions C02_walk_own_namespace.

(* Loader generation = resolution of the surface program + code generation.  It never fails, for any
   number of modules, classes and any nesting, when every class of the program is inside okb in its own
   module; the table handed to the generator is inside the generator's grammar. *)
Theorem C02_surface_gen_total_partial :
  forall rf E root,
  (forall sc, In sc (e_cls E) -> class_ok rf E sc = true) -> root < List.length (e_cls E) ->
  exists ct f g, surface_table true rf E root = Ok ct /\
                 gen_main ct (Datatypes.S (List.length ct)) root = Ok (f, g).
Proof. exact surface_gen_total. Qed.
Print Assumptions C02_surface_gen_total_partial.

(* ... and every class of that table denotes what was written *)
Theorem C02_surface_class_denotes :
  forall fuel E sc, class_ok fuel E sc = true ->
  exists d, resolve_class fuel E (sc_mod sc) sc = Ok d /\ class_denotes E sc d.
Proof. exact resolve_class_total. Qed.
Print Assumptions C02_surface_class_denotes.

(* the generated program of a resolved surface program equals the specification on the resolved table *)
Theorem C02_surface_sound :
  forall Or rf E root ct gn f g,
  surface_table true rf E root = Ok ct ->
  gen_main ct gn root = Ok (f, g) -> names_distinct g = true ->
  forall n o, run_main Or ct gn n root o = load_cls Or ct n root o.
Proof. intros Or rf E root ct gn f g _ Hg Hd. exact (C02_gen_sound Or ct gn root f g Hg Hd). Qed.
Print Assumptions C02_surface_sound.

(* ---- witnesses ------------------------------------------------------------------------------------------ *)
Definition sI := SLeaf LInt.
Definition sfd (n : string) (a : sann) : sfield :=
  {| sf_name := S n; sf_ann := a; sf_default := None; sf_keys := [S n]; sf_dkey := S n |}.

(* two modules.  Module 0 ("shapes"): Leaf, Tree (mutually recursive through quoted names inside generics),
   the alias `type AL = list[int]`, TypedDict Event with `payload: NotRequired[AL]`.
   Module 1: Forest, which nests shapes.Tree and does NOT have the names Leaf / Tree in its globals. *)
Definition rLeaf := SRef (RData 1).
Definition rTree := SRef (RData 2).
Definition E_ex : senv := {|
  e_cls := [ {| sc_name := S "Forest"; sc_mod := 1;
                sc_fields := [sfd "label" (SLeaf LStr); sfd "roots" (SSeq KList rTree);
                              sfd "events" (SSeq KList (SRef (RTyped 0)));
                              sfd "note" (SAnn (SRef (RAlias 0)))] |};
             {| sc_name := S "Leaf"; sc_mod := 0;
                sc_fields := [sfd "payload" (SLeaf LBytes); sfd "owner" (SOpt (SStr None rTree))] |};
             {| sc_name := S "Tree"; sc_mod := 0;
                sc_fields := [sfd "name" (SLeaf LStr); sfd "leaves" (SSeq KList (SStr None rLeaf));
                              sfd "children" (SSeq KList (SStr None rTree));
                              sfd "index" (SDict None (SLeaf LStr) (SStr None rTree))] |} ];
  e_nts := [];
  e_tds := [ {| st_name := S "Event"; st_req := [(S "name", SLeaf LStr)];
                st_opt := [(S "payload", SQual QNotRequired (SRef (RAlias 0)))] |} ];
  e_als := [ {| sa_name := S "AL"; sa_value := SSeq KList sI |} ];
  e_ns := [ [(S "Leaf", RData 1); (S "Tree", RData 2); (S "AL", RAlias 0); (S "Event", RTyped 0)];
            [(S "Forest", RData 0)] ]
|}.

Example C02_ex_surface_in_region : forallb (class_ok 10 E_ex) (e_cls E_ex) = true.
Proof. vm_compute. reflexivity. Qed.
(* resolution succeeds, the generator accepts the table, names are distinct, and class Tree (module 0,
   reached from module 1 at depth 2) got its quoted names resolved to the classes of module 0 *)
Definition ex_surface_check : bool :=
  match surface_table true 10 E_ex 0 with
  | Ok ct =>
      match gen_main ct 4 0 with Ok (f, g) => names_distinct g | Err _ => false end &&
      match nth_error ct 2 with
      | Some d => ftys_eqb (c_fields d)
                    [fd "name" tS; fd "leaves" (TSeq KList (TData 1)); fd "children" (TSeq KList (TData 2));
                     fd "index" (TDict None tS (TData 2))]
      | None => false
      end
  | Err _ => false
  end.
Example C02_ex_surface_generates : ex_surface_check = true.
Proof. vm_compute. reflexivity. Qed.

(* what the theorem excludes, 1: were extras['cls'] NOT switched on entering the nested class (sw = false),
   the quoted names of module 0 would be evaluated in module 1, where they are unbound *)
Example C02_ex_stale_cls_fails :
  surface_table false 10 E_ex 0 = Err (XBare (S "NameError")).
Proof. vm_compute. reflexivity. Qed.

(* what the theorem excludes, 2: were the alias resolved BEFORE the Annotated / qualifier step instead of
   after it, the alias below NotRequired would reach the dispatch unresolved *)
Definition head_alias_first (E : senv) (cur : nat) (a : sann) : result sann :=
  do a1 <- match a with SStr pin e => ev E (pin_or pin cur) e | _ => Ok a end;
  do a2 <- unalias E a1;
  dispatch (strip1 a2).
Example C02_ex_alias_first_fails :
  head_res E_ex 1 (SQual QNotRequired (SRef (RAlias 0))) = Ok (SSeq KList sI) /\
  head_alias_first E_ex 1 (SQual QNotRequired (SRef (RAlias 0))) = Err (XBare (S "TypeError")).
Proof. split; reflexivity. Qed.

(* Refuted outside okb: each annotation below denotes a type, every name in it is bound, and the single
   pass of the pinned code fails on it (open finding F58; witnesses replayed on the implementation).
   AI = `type AI = int`, AA = `type AA = AI`, AnL = `type AnL = Annotated[list[int], ...]`. *)
Definition E_w : senv := {|
  e_cls := []; e_nts := []; e_tds := [];
  e_als := [ {| sa_name := S "AI"; sa_value := sI |}; {| sa_name := S "AA"; sa_value := SRef (RAlias 0) |};
             {| sa_name := S "AnL"; sa_value := SAnn (SSeq KList sI) |} ];
  e_ns := [ [(S "AI", RAlias 0); (S "AA", RAlias 1); (S "AnL", RAlias 2)] ] |}.
Definition refuted_at (a : sann) : Prop :=
  (exists t, denotes E_w a t) /\ scoped E_w 0 a = true /\ forall fuel, exists e, resolve fuel E_w 0 a = Err e.
Theorem C02_resolve_refuted :
  refuted_at (SAnn (SQual QNotRequired sI))                 (* Annotated[NotRequired[int], ...] *)
  /\ refuted_at (SQual QReadOnly (SQual QRequired sI))      (* ReadOnly[Required[int]] *)
  /\ refuted_at (SRef (RAlias 1))                           (* type AA = AI *)
  /\ refuted_at (SQual QRequired (SStr None sI))            (* Required['int'] *)
  /\ refuted_at (SAnn (SStr None (SRef (RAlias 0))))        (* Annotated['AI', ...] *)
  /\ refuted_at (SQual QNotRequired (SAnn (SSeq KList sI))) (* NotRequired[Annotated[list[int], ...]] *)
  /\ refuted_at (SRef (RAlias 2)).                          (* type AnL = Annotated[list[int], ...] *)
Proof.
  repeat split;
    try (eexists; repeat (econstructor; try reflexivity); fail);
    try (intros [|f]; eexists; reflexivity).
Qed.
Print Assumptions C02_resolve_refuted.
