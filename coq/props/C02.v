(* C02 — dump-then-load is the identity (v1 engine); loader generation never fails.
   Statements only (closed by `exact` / short glue) + Print Assumptions.
   Model: coq/model/V1Base.v V1Gen.v V1Errors.v V1Eval.v; proofs: coq/proofs/V1Gen*.v V1RtProofs.v *)
From DW Require Import PyStr V1Base V1Gen V1Errors V1Eval V1GenInv V1GenSound V1GenNames V1GenTotal V1RtProofs.
From Coq Require Import ZArith List Bool.
Import ListNotations.

(* (a) Generation totality: every supported annotation generates, at EVERY position
   (any TypeInfo: variable index, parent index, prefix, field index), in every generator
   state, provided the class budget covers the classes not yet in the recursion guard. *)
Theorem C02_gen_total :
  forall ct, supported_ct ct = true ->
  forall t, supported ct t = true ->
  forall n ti cn g, unguarded ct (g_guard g) <= n ->
  exists c g', gen_expr ct n t ti cn g = Ok (c, g').
Proof. exact gen_expr_total. Qed.
Print Assumptions C02_gen_total.

Theorem C02_gen_main_total :
  forall ct, supported_ct ct = true ->
  forall c, c < List.length ct ->
  exists f g, gen_main ct (Datatypes.S (List.length ct)) c = Ok (f, g).
Proof. exact gen_main_total. Qed.
Print Assumptions C02_gen_main_total.

(* (b) Generator soundness, compiler-correctness style.  For every class table, every class,
   every oracle, every document and every call budget: running the generated program equals
   the semantic specification.  After the repairs of F18 (index composition), F22 (helper
   names), F23 (guard keys) and F48 (prefix reset) NO condition on positions remains: every
   TypeInfo (variable index, chain of parent indexes, prefix), every nesting.
   The ONE remaining premise is about function NAMES: the names recorded in the recursion
   guard are pairwise distinct.  It is a decidable check on the generator's output and it
   fails only when two different helper-compiled types are given the same function name —
   the open defect F9: NamedTuple / TypedDict / dataclass helpers are named after the type's
   __name__ (refuted below with two NamedTuples named P). *)
Theorem C02_gen_sound :
  forall Or ct gn c f g,
  gen_main ct gn c = Ok (f, g) -> names_distinct g = true ->
  forall n o, run_main Or ct gn n c o = load_cls Or ct n c o.
Proof.
  intros Or ct gn c f g Hg Hd.
  exact (run_main_sound Or ct gn c f g Hg (names_distinct_coherent ct gn c f g Hg Hd)).
Qed.
Print Assumptions C02_gen_sound.

(* the same with the weaker premise `coherent g`: every guard entry's function was generated
   for that entry's type (implied by distinct names) *)
Theorem C02_gen_sound_coherent :
  forall Or ct gn c f g,
  gen_main ct gn c = Ok (f, g) -> coherent g = true ->
  forall n o, run_main Or ct gn n c o = load_cls Or ct n c o.
Proof. exact run_main_sound. Qed.
Print Assumptions C02_gen_sound_coherent.

(* The position-level statement: an expression generated at ANY TypeInfo ti, evaluated in ANY
   environment, computes the specification applied to whatever the variable access `ti.v()`
   evaluates to.  (Gf is the final generator state the expression is linked against.) *)
Theorem C02_gen_expr_sound :
  forall Or ct gn t ti cn g c g',
  gen_expr ct gn t ti cn g = Ok (c, g') ->
  forall Gf, ext (g_guard g') (g_guard Gf) -> coherent Gf = true ->
    fns_ok (g_guard Gf) ct (g_fns Gf) ->
    forall n en,
      eval Or (run_fn Or ct (g_fns Gf) n) en c =
      load_v1_r Or ct n t (ti_opt ti) (eval Or (run_fn Or ct (g_fns Gf) n) en (tiv ti)).
Proof. exact gen_expr_sound. Qed.
Print Assumptions C02_gen_expr_sound.

(* (c) Round trip: load_v1 t (dump v) = v for every conforming v over leaves, list, tuple
   (variadic and fixed), set, frozenset, deque, dict, defaultdict, Optional, Literal,
   NamedTuple and (mutually / self-) recursive dataclasses, for every budget.
   Leaf laws are hypotheses on the oracle, for the values `good` selects
   (`_partial`: negative timedelta does not satisfy the law — F3; Union and TypedDict are
   outside `conforms`). *)
Theorem C02_roundtrip_partial :
  forall Or ct good,
  (forall rec l o v, good l v = true -> load_r Or rec (TLeaf l) o (Ok (dump Or ct v)) = Ok v) ->
  (forall l v, good l v = true -> is_none v = false -> is_none (dump Or ct v) = false) ->
  forallb keys_ok ct = true ->
  forall n t v, conforms ct good n t v = true -> load_v1 Or ct n t (dump Or ct v) = Ok v.
Proof. exact rt_load_v1. Qed.
Print Assumptions C02_roundtrip_partial.

(* (b)+(c): the GENERATED program inverts the dumper on conforming instances *)
Theorem C02_roundtrip_code_partial :
  forall Or ct good gn c f g,
  (forall rec l o v, good l v = true -> load_r Or rec (TLeaf l) o (Ok (dump Or ct v)) = Ok v) ->
  (forall l v, good l v = true -> is_none v = false -> is_none (dump Or ct v) = false) ->
  forallb keys_ok ct = true ->
  gen_main ct gn c = Ok (f, g) -> names_distinct g = true ->
  forall n v, conforms ct good n (TData c) v = true ->
  run_main Or ct gn n c (dump Or ct v) = Ok v.
Proof.
  intros Or ct good gn c f g H1 H2 H3 Hg Hd n v Hv.
  rewrite (run_main_sound Or ct gn c f g Hg (names_distinct_coherent ct gn c f g Hg Hd)).
  exact (rt_load_v1 Or ct good H1 H2 H3 n (TData c) v Hv).
Qed.
Print Assumptions C02_roundtrip_code_partial.

(* ---- witnesses ---------------------------------------------------------------------- *)
Definition fd (n : string) (t : ty) : fdecl :=
  {| f_name := S n; f_ty := t; f_default := None; f_keys := [S n]; f_dkey := S n |}.
Definition tI := TLeaf LInt.
Definition tS := TLeaf LStr.
Definition pair (a b : ty) : tys := TCons [] a (TCons [] b TNil).
(* toy oracle: int and str load as themselves, anything else is a ValueError *)
Definition toy : oracle :=
  {| conv := fun l _ v => match l, v with
                          | LInt, VInt _ | LStr, VStr _ => Ok v
                          | _, _ => bare "ValueError" end;
     dumpleaf := fun v => v |}.
Definition toy_good (l : leaf) (v : pv) : bool :=
  match l, v with LInt, VInt _ | LStr, VStr _ => true | _, _ => false end.
Definition doc1 (k : string) (v : pv) : pv := VDict None [(VStr (S k), v)].

(* F9 (open): x: P, y: P' — two different NamedTuples both named P share the helper name
   _load_C_named_tuple_P; the second definition replaces the first *)
Definition tP1 := TNamed (S "P") (TCons (S "a") tI TNil).
Definition tP2 := TNamed (S "P") (TCons (S "a") tS (TCons (S "b") tI TNil)).
Definition ct_F9 : ctable := [{| c_name := S "C"; c_fields := [fd "x" tP1; fd "y" tP2] |}].
Definition doc_F9 := VDict None [(VStr (S "x"), VSeq KList [VInt 1]);
                                 (VStr (S "y"), VSeq KList [VStr (S "s"); VInt 2])].
Theorem C02_refuted_F9 :
  exists f g e v,
    gen_main ct_F9 2 0 = Ok (f, g) /\ names_distinct g = false /\ coherent g = false /\
    run_main toy ct_F9 2 3 0 doc_F9 = Err e /\ load_cls toy ct_F9 3 0 doc_F9 = Ok v.
Proof. vm_compute. do 4 eexists. repeat split; reflexivity. Qed.
Print Assumptions C02_refuted_F9.

(* The shapes of the repaired defects are inside the theorem now: names are distinct and the
   generated program computes the specification's value. *)
Definition in_scope (ct : ctable) (doc : pv) : Prop :=
  exists f g v, gen_main ct 2 0 = Ok (f, g) /\ names_distinct g = true /\
                run_main toy ct 2 3 0 doc = Ok v /\ load_cls toy ct 3 0 doc = Ok v.
(* F18: x: tuple[tuple[int, str], str] *)
Definition ct_F18 : ctable := [{| c_name := S "F"; c_fields := [fd "x" (TTuple (pair (TTuple (pair tI tS)) tS))] |}].
Definition doc_F18 := doc1 "x" (VSeq KList [VSeq KList [VInt 1; VStr (S "a")]; VStr (S "b")]).
Example C02_ex_F18_shape : in_scope ct_F18 doc_F18.
Proof. vm_compute. do 3 eexists. repeat split; reflexivity. Qed.
(* F22: x: tuple[Literal['a'], Literal['b']] *)
Definition ct_F22 : ctable :=
  [{| c_name := S "A"; c_fields := [fd "x" (TTuple (pair (TLit [LitStr (S "a")]) (TLit [LitStr (S "b")])))] |}].
Definition doc_F22 := doc1 "x" (VSeq KList [VStr (S "a"); VStr (S "b")]).
Example C02_ex_F22_shape : in_scope ct_F22 doc_F22.
Proof. vm_compute. do 3 eexists. repeat split; reflexivity. Qed.
(* F23: x: Literal[1]; y: Literal[True] *)
Definition ct_F23 : ctable :=
  [{| c_name := S "C"; c_fields := [fd "x" (TLit [LitInt 1]); fd "y" (TLit [LitBool true])] |}].
Definition doc_F23 := VDict None [(VStr (S "x"), VInt 1); (VStr (S "y"), VBool true)].
Example C02_ex_F23_shape : in_scope ct_F23 doc_F23.
Proof. vm_compute. do 3 eexists. repeat split; reflexivity. Qed.
(* F48: x: dict[tuple[int, ...], int] *)
Definition ct_F48 : ctable :=
  [{| c_name := S "K"; c_fields := [fd "x" (TDict None (TSeq KTuple tI) tI)] |}].
Definition doc_F48 := doc1 "x" (VDict None [(VSeq KTuple [VInt 1; VInt 2], VInt 3)]).
Example C02_ex_F48_shape : in_scope ct_F48 doc_F48.
Proof. vm_compute. do 3 eexists. repeat split; reflexivity. Qed.

(* ---- non-vacuity: a class table with a self-referential class, a NamedTuple inside a
   list inside a dict, Optional, Literal and a fixed tuple satisfies every hypothesis ------ *)
Definition tNT := TNamed (S "P") (TCons (S "a") tI (TCons (S "b") (TSeq KList tS) TNil)).
Definition ct_ex : ctable :=
  [{| c_name := S "Node";
      c_fields := [fd "v" tI;
                   fd "kids" (TSeq KList (TData 0));
                   fd "m" (TDict None tS (TSeq KList tNT));
                   fd "o" (TOpt (TTuple (pair tI (TLit [LitStr (S "q")]))));
                   fd "e" (TData 1)] |};
   {| c_name := S "Leafy"; c_fields := [fd "s" (TSeq KSet tS)] |}].
Definition v_ex : pv :=
  VInst 0 [(S "v", VInt 1);
           (S "kids", VSeq KList [VInst 0 [(S "v", VInt 2); (S "kids", VSeq KList []);
                                           (S "m", VDict None []); (S "o", VNone);
                                           (S "e", VInst 1 [(S "s", VSeq KSet [])])]]);
           (S "m", VDict None [(VStr (S "k"), VSeq KList [VNamed (S "P") [VInt 7; VSeq KList [VStr (S "z")]]])]);
           (S "o", VSeq KTuple [VInt 3; VStr (S "q")]);
           (S "e", VInst 1 [(S "s", VSeq KSet [VStr (S "x"); VStr (S "y")])])].

Example C02_ex_supported : supported_ct ct_ex = true /\ forallb keys_ok ct_ex = true.
Proof. split; reflexivity. Qed.
Example C02_ex_generates_distinct_names :
  exists f g, gen_main ct_ex 3 0 = Ok (f, g) /\ names_distinct g = true /\ coherent g = true.
Proof. vm_compute. do 2 eexists. repeat split; reflexivity. Qed.
Example C02_ex_conforms : conforms ct_ex toy_good 4 (TData 0) v_ex = true.
Proof. reflexivity. Qed.
Example C02_ex_toy_laws :
  (forall rec l o v, toy_good l v = true -> load_r toy rec (TLeaf l) o (Ok (dump toy ct_ex v)) = Ok v) /\
  (forall l v, toy_good l v = true -> is_none v = false -> is_none (dump toy ct_ex v) = false).
Proof.
  split.
  - intros rec l o v H. destruct l, v; cbn in H; try discriminate; reflexivity.
  - intros l v H _. destruct l, v; cbn in H; try discriminate; reflexivity.
Qed.
Example C02_ex_roundtrip : run_main toy ct_ex 3 4 0 (dump toy ct_ex v_ex) = Ok v_ex.
Proof. vm_compute. reflexivity. Qed.
