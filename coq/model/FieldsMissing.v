(* FieldsMissing.v — class-level field assembly when keys are ABSENT (property C09).

   What is modelled (both engines):
   * a dataclass = name + list of field declarations (name, Required | Default v |
     Factory id, init flag, kind = leaf of some type | nested dataclass | list of
     dataclass); classes form a finite tree (no recursive classes);
   * a document = JSON-like tree; dicts are association lists in document order;
   * the dataclass-generated `__init__( **kwargs)`: TypeError when a required
     argument is missing (checked before the body runs), otherwise the body assigns
     the fields in declaration order, calling each default_factory that is needed
     (a factory product carries the value of a global allocation counter = its
     identity); init=False fields never read kwargs; init=False without default
     leaves the attribute unset;
   * default engine (loaders.py load_func_for_dataclass, generated `cls_fromdict`):
     loop over the DOCUMENT keys, `init_kwargs[field] = field_to_parser[field](o[key])`
     (field_to_parser holds the init fields only; a nested failure propagates
     unchanged), then `cls( **init_kwargs)`; TypeError -> MissingFields(e, o, cls,
     cls_fields, init_kwargs), whose lists are computed as errors.py
     MissingFields.__init__ does (`fields = list(cls_kwargs)`, `missing_fields =
     [f.name for f in cls_fields if f.name not in fields and f.init and no default]`);
   * v1 engine (v1/loaders.py): loop over the init FIELDS in declaration order,
     `v = o.get(name, MISSING)`; found: `init_kwargs[name] = ...` (field has a default)
     or `__name = ...` (required); then `cls(__a, __b, **init_kwargs)`;
     UnboundLocalError -> raise_missing_fields(locals(), ...): `missing_fields =
     [f.name for f in fields if f.init and '__'+f.name not in locals and no default]`
     and MissingFields.__init__ with that list: `fields = [f.name for f in cls_fields
     if f.name not in missing and f.init and no default]`.
   Keyword-only fields: the Section variable `kwonly cn fn`; irrelevant for the default engine,
   but the v1 engine passes required fields positionally, so a class with a required
   keyword-only field yields a bare TypeError (EBareType, finding F43), which an enclosing v1
   level wraps into ParseError (v1_reraise).
   Per-field leaf conversion is the Section variable `conv` (None = ParseError).
   Keys are matched by exact field name (the complete document of C09 uses the field
   names; key spelling is C08/C10); keys that are no init field are skipped.
   No proofs in this file. *)
From DW Require Export PyStr.

Set Implicit Arguments.

(* ---- association lists keyed by pstr (Python dict with str keys) ------------ *)
Fixpoint assoc {A} (k : pstr) (l : list (pstr * A)) : option A :=
  match l with
  | [] => None
  | (k', v) :: r => if pstr_eqb k k' then Some v else assoc k r
  end.

Definition has_key {A} (k : pstr) (l : list (pstr * A)) : bool :=
  match assoc k l with Some _ => true | None => false end.

Definition keys {A} (l : list (pstr * A)) : list pstr := map fst l.

(* d[k] = v : update in place when k is present, else append *)
Fixpoint dict_set {A} (k : pstr) (v : A) (l : list (pstr * A)) : list (pstr * A) :=
  match l with
  | [] => [(k, v)]
  | (k', v') :: r => if pstr_eqb k k' then (k', v) :: r else (k', v') :: dict_set k v r
  end.

Inductive engine := V0 | V1.

Inductive err :=
  | EMissingFields (cn : pstr) (provided missing : list pstr)
  | EParse (cn fn : pstr)          (* leaf conversion failed / wrong shape for a field *)
  | EShape (cn : pstr)             (* the object given for a dataclass is not a dict *)
  | EBareType (cn : pstr).         (* a bare TypeError raised by cn.__init__ escapes the loader *)

Inductive res (A : Type) := Ok (a : A) | Err (e : err).
Arguments Err {A} e.

Section Fields.
Variables ty raw V : Type.
Variable conv : ty -> raw -> option V.
(* declaration attribute: field `fn` of class `cn` is keyword-only (field(kw_only=True) or
   @dataclass(kw_only=True)).  Irrelevant for the default engine, which calls
   cls( **init_kwargs); the v1 engine passes the required fields POSITIONALLY. *)
Variable kwonly : pstr -> pstr -> bool.

Inductive dflt := Required | Default (v : V) | Factory (fid : N).

Inductive kind (C : Type) := KLeaf (t : ty) | KNested (c : C) | KList (c : C).
Arguments KLeaf {C} t.

Inductive fdecl (C : Type) := FD (name : pstr) (d : dflt) (init : bool) (k : kind C).

Inductive cls := Cls (cname : pstr) (cfields : list (fdecl cls)).

Definition fname {C} (f : fdecl C) := match f with FD n _ _ _ => n end.
Definition fdef {C} (f : fdecl C) := match f with FD _ d _ _ => d end.
Definition finit {C} (f : fdecl C) := match f with FD _ _ i _ => i end.
Definition fkind {C} (f : fdecl C) := match f with FD _ _ _ k => k end.
Definition cname (c : cls) := match c with Cls n _ => n end.
Definition cfields (c : cls) := match c with Cls _ fs => fs end.

Definition is_required (d : dflt) : bool := match d with Required => true | _ => false end.

(* documents *)
Inductive jv := JAtom (r : raw) | JDict (m : list (pstr * jv)) | JList (l : list jv).

(* loaded values; PFac fid id = product of default_factory `fid` created by
   allocation number `id` (identity of the object) *)
Inductive pv :=
  | PVal (v : V)
  | PFac (fid id : N)
  | PInst (cn : pstr) (attrs : list (pstr * pv))
  | PList (l : list pv).

Definition parser := jv -> N -> res pv * N.

(* ---- dataclass-generated __init__ ------------------------------------------- *)
Definition missing_args {C} (fs : list (fdecl C)) (kw : list (pstr * pv)) : list (fdecl C) :=
  filter (fun f => finit f && is_required (fdef f) && negb (has_key (fname f) kw)) fs.

Fixpoint init_body {C} (fs : list (fdecl C)) (kw : list (pstr * pv)) (n : N)
  : list (pstr * pv) * N :=
  match fs with
  | [] => ([], n)
  | f :: r =>
      let passed := if finit f then assoc (fname f) kw else None in
      let '(slot, n1) :=
        match passed with
        | Some v => (Some v, n)
        | None => match fdef f with
                  | Required => (None, n)            (* init=False, no default: unset *)
                  | Default v => (Some (PVal v), n)
                  | Factory fid => (Some (PFac fid n), (n + 1)%N)
                  end
        end in
      let '(rest, n2) := init_body r kw n1 in
      (match slot with Some v => (fname f, v) :: rest | None => rest end, n2)
  end.

(* None = TypeError("missing N required positional arguments") *)
Definition construct {C} (cn : pstr) (fs : list (fdecl C)) (kw : list (pstr * pv)) (n : N)
  : option (pv * N) :=
  match missing_args fs kw with
  | [] => let '(attrs, n') := init_body fs kw n in Some (PInst cn attrs, n')
  | _ :: _ => None
  end.

(* ---- field parsers ---------------------------------------------------------- *)
Definition leaf_parser (cn fn : pstr) (t : ty) : parser := fun v n =>
  match v with
  | JAtom r => match conv t r with Some x => (Ok (PVal x), n) | None => (Err (EParse cn fn), n) end
  | _ => (Err (EParse cn fn), n)
  end.

Fixpoint list_run (p : parser) (l : list jv) (n : N) : res (list pv) * N :=
  match l with
  | [] => (Ok [], n)
  | x :: r =>
      match p x n with
      | (Ok v, n1) => match list_run p r n1 with
                      | (Ok vs, n2) => (Ok (v :: vs), n2)
                      | (Err e, n2) => (Err e, n2)
                      end
      | (Err e, n1) => (Err e, n1)
      end
  end.

Definition list_parser (cn fn : pstr) (p : parser) : parser := fun v n =>
  match v with
  | JList l => match list_run p l n with
               | (Ok vs, n') => (Ok (PList vs), n')
               | (Err e, n') => (Err e, n')
               end
  | _ => (Err (EParse cn fn), n)
  end.

Definition kind_parser (ld : cls -> parser) (cn fn : pstr) (k : kind cls) : parser :=
  match k with
  | KLeaf t => leaf_parser cn fn t
  | KNested c => ld c
  | KList c => list_parser cn fn (ld c)
  end.

(* field_to_parser: init fields only, declaration order *)
Definition parsers_of (ld : cls -> parser) (cn : pstr)
  : list (fdecl cls) -> list (pstr * parser) :=
  fix go fs :=
  match fs with
  | [] => []
  | FD nm _ ini k :: r =>
      if ini then (nm, kind_parser ld cn nm k) :: go r
      else go r
  end.

(* ---- default engine ----------------------------------------------------------- *)
Fixpoint v0_loop (ps : list (pstr * parser)) (items : list (pstr * jv))
         (kw : list (pstr * pv)) (n : N) : res (list (pstr * pv)) * N :=
  match items with
  | [] => (Ok kw, n)
  | (k, v) :: r =>
      match assoc k ps with
      | None => v0_loop ps r kw n                       (* no such field: key skipped *)
      | Some p => match p v n with
                  | (Ok x, n1) => v0_loop ps r (dict_set k x kw) n1
                  | (Err e, n1) => (Err e, n1)           (* propagates unchanged *)
                  end
      end
  end.

(* errors.py MissingFields.__init__, `missing_fields` argument empty *)
Definition v0_missing {C} (fs : list (fdecl C)) (provided : list pstr) : list pstr :=
  map fname (filter (fun f => negb (mem_str (fname f) provided) && finit f
                              && is_required (fdef f)) fs).

Definition v0_finish (cn : pstr) (fs : list (fdecl cls)) (kw : list (pstr * pv)) (n : N)
  : res pv * N :=
  match construct cn fs kw n with
  | Some (i, n') => (Ok i, n')
  | None => (Err (EMissingFields cn (keys kw) (v0_missing fs (keys kw))), n)
  end.

Definition v0_body (cn : pstr) (fs : list (fdecl cls)) (ps : list (pstr * parser)) : parser :=
  fun d n =>
  match d with
  | JDict items =>
      match v0_loop ps items [] n with
      | (Ok kw, n1) => v0_finish cn fs kw n1
      | (Err e, n1) => (Err e, n1)
      end
  | _ => (Err (EShape cn), n)
  end.

Fixpoint v0_load (c : cls) : parser :=
  match c with
  | Cls cn fs => v0_body cn fs (parsers_of v0_load cn fs)
  end.

(* ---- v1 engine ---------------------------------------------------------------- *)
Definition has_default (d : dflt) : bool := negb (is_required d).

(* the generated per-field statements; `bound` = the local variables __name that got
   assigned, `kw` = init_kwargs *)
(* re_raise(e, cls, o, fields, field, value): a library error passes through unchanged; any
   other exception (here: the bare TypeError of a nested constructor, F43) is wrapped into a
   ParseError attributed to this class and field *)
Definition v1_reraise (cn fn : pstr) (e : err) : err :=
  match e with EBareType _ => EParse cn fn | _ => e end.

Fixpoint v1_loop (cn : pstr) (ps : list (pstr * parser)) (fs : list (fdecl cls)) (o : list (pstr * jv))
         (bound kw : list (pstr * pv)) (n : N)
  : res (list (pstr * pv) * list (pstr * pv)) * N :=
  match fs with
  | [] => (Ok (bound, kw), n)
  | f :: r =>
      if finit f then
        match assoc (fname f) o, assoc (fname f) ps with
        | Some v, Some p =>
            match p v n with
            | (Ok x, n1) =>
                if has_default (fdef f)
                then v1_loop cn ps r o bound (dict_set (fname f) x kw) n1
                else v1_loop cn ps r o (dict_set (fname f) x bound) kw n1
            | (Err e, n1) => (Err (v1_reraise cn (fname f) e), n1)
            end
        | _, _ => v1_loop cn ps r o bound kw n    (* o.get(name, MISSING) is MISSING *)
        end
      else v1_loop cn ps r o bound kw n
  end.

(* check_and_raise_missing_fields *)
Definition v1_missing {C} (fs : list (fdecl C)) (bound : list (pstr * pv)) : list pstr :=
  map fname (filter (fun f => finit f && negb (has_key (fname f) bound)
                              && is_required (fdef f)) fs).

(* MissingFields.__init__ with a non-empty `missing_fields` argument *)
Definition v1_provided {C} (fs : list (fdecl C)) (missing : list pstr) : list pstr :=
  map fname (filter (fun f => negb (mem_str (fname f) missing) && finit f
                              && is_required (fdef f)) fs).

(* required init fields, the positional arguments of the generated call *)
Definition positional {C} (fs : list (fdecl C)) : list (fdecl C) :=
  filter (fun f => finit f && is_required (fdef f)) fs.

Definition all_bound {C} (fs : list (fdecl C)) (bound : list (pstr * pv)) : bool :=
  forallb (fun f => has_key (fname f) bound) (positional fs).

(* some required init field is keyword-only *)
Definition kw_required {C} (cn : pstr) (fs : list (fdecl C)) : bool :=
  existsb (fun f => finit f && is_required (fdef f) && kwonly cn (fname f)) fs.

Definition v1_finish (cn : pstr) (fs : list (fdecl cls)) (bound kw : list (pstr * pv)) (n : N)
  : res pv * N :=
  if all_bound fs bound then
    if kw_required cn fs then
      (* cls(__a, __k, ...): a keyword-only parameter never receives its value; CPython
         raises TypeError (too many positional arguments / multiple values / missing
         keyword-only argument), which the generated code does not catch (finding F43) *)
      (Err (EBareType cn), n)
    else
    match construct cn fs (bound ++ kw) n with
    | Some (i, n') => (Ok i, n')
    | None => (Err (EShape cn), n)     (* unreachable: every required argument is bound *)
    end
  else  (* UnboundLocalError *)
    let ms := v1_missing fs bound in
    (Err (EMissingFields cn (v1_provided fs ms) ms), n).

Definition v1_body (cn : pstr) (fs : list (fdecl cls)) (ps : list (pstr * parser)) : parser :=
  fun d n =>
  match d with
  | JDict o =>
      match v1_loop cn ps fs o [] [] n with
      | (Ok (bound, kw), n1) => v1_finish cn fs bound kw n1
      | (Err e, n1) => (Err e, n1)
      end
  | _ => (Err (EShape cn), n)
  end.

Fixpoint v1_load (c : cls) : parser :=
  match c with
  | Cls cn fs => v1_body cn fs (parsers_of v1_load cn fs)
  end.

Definition load (e : engine) : cls -> parser :=
  match e with V0 => v0_load | V1 => v1_load end.

(* ---- identities of factory products ------------------------------------------ *)
Fixpoint ids (v : pv) : list N :=
  match v with
  | PVal _ => []
  | PFac _ id => [id]
  | PInst _ attrs => flat_map (fun kv => ids (snd kv)) attrs
  | PList l => flat_map ids l
  end.

(* forget identities (the specification does not predict allocation numbers) *)
Fixpoint erase (v : pv) : pv :=
  match v with
  | PVal x => PVal x
  | PFac fid _ => PFac fid 0
  | PInst cn attrs => PInst cn (map (fun kv => (fst kv, erase (snd kv))) attrs)
  | PList l => PList (map erase l)
  end.

Definition erase_res (r : res pv) : res pv :=
  match r with Ok v => Ok (erase v) | Err e => Err e end.

(* ================= specification (written from the property text) ============== *)

(* the omitted required init fields of a class for the keys of a document, in
   declaration order *)
Definition omitted_required {C} (fs : list (fdecl C)) (present : list pstr) : list pstr :=
  map fname (filter (fun f => finit f && is_required (fdef f)
                              && negb (mem_str (fname f) present)) fs).

(* what an omitted / non-init field holds *)
Definition default_slot (d : dflt) : option pv :=
  match d with
  | Required => None
  | Default v => Some (PVal v)
  | Factory fid => Some (PFac fid 0)
  end.

(* attributes of the expected instance: a present init field holds its loaded
   value, every other field its default *)
Definition spec_attrs {C} (fs : list (fdecl C)) (vals : list (pstr * pv)) : list (pstr * pv) :=
  flat_map (fun f =>
    match (if finit f then assoc (fname f) vals else None) with
    | Some v => [(fname f, v)]
    | None => match default_slot (fdef f) with Some v => [(fname f, v)] | None => [] end
    end) fs.

Definition sparser := jv -> res pv.

Definition spec_leaf (cn fn : pstr) (t : ty) : sparser := fun v =>
  match v with
  | JAtom r => match conv t r with Some x => Ok (PVal x) | None => Err (EParse cn fn) end
  | _ => Err (EParse cn fn)
  end.

(* first error of a list of results, else all the values *)
Fixpoint collect {K} (l : list (K * res pv)) : res (list (K * pv)) :=
  match l with
  | [] => Ok []
  | (k, Ok v) :: r => match collect r with Ok vs => Ok ((k, v) :: vs) | Err e => Err e end
  | (_, Err e) :: _ => Err e
  end.

Definition spec_list (cn fn : pstr) (s : sparser) : sparser := fun v =>
  match v with
  | JList l => match collect (map (fun x => (tt, s x)) l) with
               | Ok vs => Ok (PList (map snd vs))
               | Err e => Err e
               end
  | _ => Err (EParse cn fn)
  end.

Definition spec_kind (sp : cls -> sparser) (cn fn : pstr) (k : kind cls) : sparser :=
  match k with
  | KLeaf t => spec_leaf cn fn t
  | KNested c => sp c
  | KList c => spec_list cn fn (sp c)
  end.

Definition sparsers_of (sp : cls -> sparser) (cn : pstr)
  : list (fdecl cls) -> list (pstr * sparser) :=
  fix go fs :=
  match fs with
  | [] => []
  | FD nm _ ini k :: r =>
      if ini then (nm, spec_kind sp cn nm k) :: go r
      else go r
  end.

(* results of the present init fields, in the order the engine visits them:
   document order (default engine) / declaration order (v1) *)
Definition visit (e : engine) (ss : list (pstr * sparser)) (m : list (pstr * jv))
  : list (pstr * res pv) :=
  match e with
  | V0 => flat_map (fun kv => match assoc (fst kv) ss with
                              | Some s => [(fst kv, s (snd kv))] | None => [] end) m
  | V1 => flat_map (fun ks => match assoc (fst ks) m with
                              | Some v => [(fst ks, (snd ks) v)] | None => [] end) ss
  end.

(* the `.fields` ("Provided") list of the error *)
Definition spec_provided {C} (e : engine) (fs : list (fdecl C)) (visited : list pstr) : list pstr :=
  match e with
  | V0 => visited
  | V1 => map fname (filter (fun f => finit f && is_required (fdef f)
                                      && mem_str (fname f) visited) fs)
  end.

Definition spec_body (e : engine) (cn : pstr) (fs : list (fdecl cls))
           (ss : list (pstr * sparser)) : sparser := fun d =>
  match d with
  | JDict m =>
      match collect (visit e ss m) with
      | Err err => Err err                          (* a nested failure, unchanged *)
      | Ok vals =>
          match omitted_required fs (keys m) with
          | [] => Ok (PInst cn (spec_attrs fs vals))
          | ms => Err (EMissingFields cn (spec_provided e fs (keys vals)) ms)
          end
      end
  | _ => Err (EShape cn)
  end.

Fixpoint spec (e : engine) (c : cls) : sparser :=
  match c with
  | Cls cn fs => spec_body e cn fs (sparsers_of (spec e) cn fs)
  end.

(* region of finding F43: the v1 engine and a class (at any depth) with a required
   keyword-only init field *)
Fixpoint kw_safe (e : engine) (c : cls) : bool :=
  match e with
  | V0 => true
  | V1 =>
      match c with
      | Cls cn fs =>
          negb (kw_required cn fs) &&
          forallb (fun f => match fkind f with
                            | KLeaf _ => true | KNested c' => kw_safe e c' | KList c' => kw_safe e c' end) fs
      end
  end.

(* ---- the documents the property quantifies over ------------------------------- *)
Fixpoint nodup_str (l : list pstr) : bool :=
  match l with [] => true | x :: r => negb (mem_str x r) && nodup_str r end.

Definition init_names {C} (fs : list (fdecl C)) : list pstr :=
  map fname (filter (fun f => finit f) fs).

(* class declarations: field names pairwise distinct, at every depth *)
Fixpoint wf_cls (c : cls) : bool :=
  match c with
  | Cls _ fs =>
      nodup_str (map fname fs) &&
      forallb (fun f => match fkind f with
                        | KLeaf _ => true | KNested c' => wf_cls c' | KList c' => wf_cls c' end) fs
  end.

(* a COMPLETE document for a class: exactly one key per init field (any order), leaf
   values convertible, nested values complete for the nested class *)
Inductive complete : cls -> jv -> Prop :=
  | complete_intro cn fs m :
      NoDup (keys m) ->
      (forall k, In k (keys m) <-> In k (init_names fs)) ->
      (forall f v, In f fs -> finit f = true -> assoc (fname f) m = Some v ->
                   complete_kind (fkind f) v) ->
      complete (Cls cn fs) (JDict m)
with complete_kind : kind cls -> jv -> Prop :=
  | ck_leaf t r x : conv t r = Some x -> complete_kind (KLeaf t) (JAtom r)
  | ck_nested c v : complete c v -> complete_kind (KNested c) v
  | ck_list c l : (forall v, In v l -> complete c v) -> complete_kind (KList c) (JList l).

(* the domain of the refinement theorem: keys are unique in every dict that sits at
   a dataclass position (always true of a Python dict); nothing else is assumed *)
Inductive uniq : cls -> jv -> Prop :=
  | uniq_dict cn fs m :
      NoDup (keys m) ->
      (forall f v, In f fs -> finit f = true -> assoc (fname f) m = Some v ->
                   uniq_kind (fkind f) v) ->
      uniq (Cls cn fs) (JDict m)
  | uniq_atom c r : uniq c (JAtom r)
  | uniq_nodict c l : uniq c (JList l)
with uniq_kind : kind cls -> jv -> Prop :=
  | uk_leaf t v : uniq_kind (KLeaf t) v
  | uk_nested c v : uniq c v -> uniq_kind (KNested c) v
  | uk_list c l : (forall v, In v l -> uniq c v) -> uniq_kind (KList c) (JList l)
  | uk_list_atom c r : uniq_kind (KList c) (JAtom r)
  | uk_list_dict c m : uniq_kind (KList c) (JDict m).

(* d' is obtained from d by deleting any set of keys, at any depth (dict entries of
   dataclass positions; list elements are kept, each possibly with deletions) *)
Inductive sub_items (R : jv -> jv -> Prop) : list (pstr * jv) -> list (pstr * jv) -> Prop :=
  | si_nil : sub_items R [] []
  | si_drop k v m' m : sub_items R m' m -> sub_items R m' ((k, v) :: m)
  | si_keep k v' v m' m : R v' v -> sub_items R m' m -> sub_items R ((k, v') :: m') ((k, v) :: m).

Inductive deleted : jv -> jv -> Prop :=
  | del_atom r : deleted (JAtom r) (JAtom r)
  | del_dict m' m : sub_items deleted m' m -> deleted (JDict m') (JDict m)
  | del_list l' l : Forall2 deleted l' l -> deleted (JList l') (JList l).

(* the documents "complete minus deletions" (lemma deleted_partial): unique keys,
   every present init field well-shaped and convertible; nothing said about WHICH
   keys are present *)
Inductive partial : cls -> jv -> Prop :=
  | partial_intro cn fs m :
      NoDup (keys m) ->
      (forall f v, In f fs -> finit f = true -> assoc (fname f) m = Some v ->
                   partial_kind (fkind f) v) ->
      partial (Cls cn fs) (JDict m)
with partial_kind : kind cls -> jv -> Prop :=
  | pk_leaf t r x : conv t r = Some x -> partial_kind (KLeaf t) (JAtom r)
  | pk_nested c v : partial c v -> partial_kind (KNested c) v
  | pk_list c l : (forall v, In v l -> partial c v) -> partial_kind (KList c) (JList l).

(* top-level deletion of an explicit key set S *)
Definition remove_keys {A} (S : list pstr) (m : list (pstr * A)) : list (pstr * A) :=
  filter (fun kv => negb (mem_str (fst kv) S)) m.

(* the required init fields among S, in declaration order *)
Definition required_in {C} (fs : list (fdecl C)) (S : list pstr) : list pstr :=
  map fname (filter (fun f => finit f && is_required (fdef f) && mem_str (fname f) S) fs).

(* dataclass positions of a document: (class, dict) pairs reachable through nested
   and list-of-dataclass init fields *)
Inductive position : cls -> jv -> cls -> list (pstr * jv) -> Prop :=
  | pos_here cn fs m : position (Cls cn fs) (JDict m) (Cls cn fs) m
  | pos_nested cn fs m f c' v c'' m'' :
      In f fs -> finit f = true -> fkind f = KNested c' -> assoc (fname f) m = Some v ->
      position c' v c'' m'' -> position (Cls cn fs) (JDict m) c'' m''
  | pos_list cn fs m f c' l v c'' m'' :
      In f fs -> finit f = true -> fkind f = KList c' -> assoc (fname f) m = Some (JList l) ->
      In v l -> position c' v c'' m'' -> position (Cls cn fs) (JDict m) c'' m''.

End Fields.

Arguments KLeaf {ty C} t.
Arguments KNested {ty C} c.
Arguments KList {ty C} c.
Arguments Required {V}.
Arguments Factory {V} fid.
Arguments PFac {V} fid id.
Arguments fname {ty V C} f.
Arguments fdef {ty V C} f.
Arguments finit {ty V C} f.
Arguments fkind {ty V C} f.
Arguments erase {V} v.
Arguments ids {V} v.
Arguments erase_res {V} r.
Arguments cname {ty V} c.
Arguments cfields {ty V} c.
