(* FamShow.v — text encoder of the outcomes of a FamModel run for the correspondence harness
   (harness/props/c07.py `fam_*`; same outcome syntax as StateShow.v).  No proofs. *)
From DW Require Import PyStr StrConv StateModel StateShow FamModel.

Definition show_frun (env : denv) (h : list fop) : pstr :=
  join (S ";") (map show_outcome (frun_out env fresh_alloc finit h)).
