(* CoerceModel.v — code-shaped model of the scalar coercions of
   dataclass_wizard/utils/type_conv.py and of the load hooks that call them:
   loaders.py (default engine, V0), v1/loaders.py (V1 code templates) and
   environ/loaders.py (EnvWizard, Env).  No proofs in this file.

   Inputs are JSON-ish values [jv]; results are Python values [pv] or an error
   class.  Functions of the standard library / third parties that the library
   merely CALLS are fields of the record [oracles], a Section variable:
   str(float|list|dict), datetime/date/time.fromisoformat, fromtimestamp,
   pytimeparse.parse, timedelta(seconds=), Decimal(str), b64decode, json.loads.
   For execution the harness passes finite tables computed by the real
   functions ([tbl_*] at the end); a missing entry is the distinguished error
   [EMissing], never a default.

   Modelled concretely (standard library, ASCII input): int(str) for decimal
   strings (surrounding C whitespace, sign, single underscores between digits),
   float(str) and float(int) with the correct rounding of binary64 (CoerceFloat.v:
   which strings take the detour through float and what precision that costs is
   part of the model), round() half-to-even and float.is_integer() on exact dyadic
   floats, str(int), str.strip/lstrip/split/lower/isdigit/replace(old,new,1).

   Not modelled: non-ASCII strings (the harness feeds ASCII), -0.0 (identified
   with 0.0), int strings above sys.int_max_str_digits,
   sets / NamedTuple / TypedDict / Union / nested dataclasses, the open defect
   F18 (v1 fixed tuple directly inside a fixed tuple). *)
From DW Require Import PyStr T_Truthy.
From DW Require Export CoerceFloat.
From Coq Require Import DecimalString DecimalZ.

Fixpoint mapM {A B} (f : A -> res B) (l : list A) : res (list B) :=
  match l with
  | [] => Ok []
  | x :: r => bind (f x) (fun y => bind (mapM f r) (fun ys => Ok (y :: ys)))
  end.

(* zip(fs, xs) then apply: stops at the shorter list *)
Fixpoint zipM {A B T} (f : T -> A -> res B) (ts : list T) (l : list A) : res (list B) :=
  match ts, l with
  | t :: ts', x :: l' => bind (f t x) (fun y => bind (zipM f ts' l') (fun ys => Ok (y :: ys)))
  | _, _ => Ok []
  end.

(* (f t0 v[0], f t1 v[1], ...): running out of elements is an IndexError *)
Fixpoint idxM {A B T} (f : T -> A -> res B) (ts : list T) (l : list A) : res (list B) :=
  match ts with
  | [] => Ok []
  | t :: ts' =>
      match l with
      | [] => Err EOther
      | x :: l' => bind (f t x) (fun y => bind (idxM f ts' l') (fun ys => Ok (y :: ys)))
      end
  end.

(* ---- JSON-ish inputs, Python outputs --------------------------------- *)
Inductive jv :=
| JNone | JBool (b : bool) | JInt (z : Z) | JFloat (f : fl) | JStr (s : pstr)
| JList (l : list jv) | JDict (d : list (pstr * jv)).

Inductive num := NInt (z : Z) | NFloat (f : fl).

(* datetime-like results are the canonical text computed by the oracle
   (isoformat(), which tells naive from aware; "days,seconds,micros"; str(Decimal)) *)
Inductive pv :=
| VNone | VBool (b : bool) | VInt (z : Z) | VFloat (f : fl) | VStr (s : pstr) | VBytes (s : pstr)
| VList (l : list pv) | VTuple (l : list pv) | VDict (d : list (pv * pv))
| VDateTime (s : pstr) | VDate (s : pstr) | VTime (s : pstr) | VTimedelta (s : pstr)
| VDecimal (s : pstr) | VEnum (name : pstr).

Fixpoint jv_eqb (a b : jv) {struct a} : bool :=
  match a, b with
  | JNone, JNone => true
  | JBool x, JBool y => Bool.eqb x y
  | JInt x, JInt y => Z.eqb x y
  | JFloat x, JFloat y => fl_eqb x y
  | JStr x, JStr y => pstr_eqb x y
  | JList x, JList y =>
      (fix go (x y : list jv) : bool :=
         match x, y with
         | [], [] => true
         | a' :: x', b' :: y' => jv_eqb a' b' && go x' y'
         | _, _ => false
         end) x y
  | JDict x, JDict y =>
      (fix go (x : list (pstr * jv)) (y : list (pstr * jv)) : bool :=
         match x, y with
         | [], [] => true
         | (k, a') :: x', (k', b') :: y' => pstr_eqb k k' && jv_eqb a' b' && go x' y'
         | _, _ => false
         end) x y
  | _, _ => false
  end.

Definition num_eqb (a b : num) : bool :=
  match a, b with
  | NInt x, NInt y => Z.eqb x y
  | NFloat x, NFloat y => fl_eqb x y
  | _, _ => false
  end.

(* Python == between JSON scalars (bool is an int; int/float compare by value) *)
Definition jv_py_eqb (a b : jv) : bool :=
  let as_num (j : jv) : option num :=
    match j with
    | JBool b => Some (NInt (if b then 1 else 0)%Z)
    | JInt z => Some (NInt z)
    | JFloat f => Some (NFloat f)
    | _ => None
    end in
  match as_num a, as_num b with
  | Some (NInt x), Some (NInt y) => Z.eqb x y
  | Some (NInt x), Some (NFloat f) => fl_eq_Z f x
  | Some (NFloat f), Some (NInt y) => fl_eq_Z f y
  | Some (NFloat f), Some (NFloat g) => match f, g with FNan, _ => false | _, FNan => false | _, _ => fl_eqb f g end
  | None, None =>
      match a, b with
      | JNone, JNone => true
      | JStr x, JStr y => pstr_eqb x y
      | _, _ => false
      end
  | _, _ => false
  end.

(* ---- str methods on ASCII -------------------------------------------- *)
(* str.split(sep) for a one-character separator: never returns [] *)
Fixpoint split_on (sep : ascii) (s : pstr) : list pstr :=
  match s with
  | [] => [[]]
  | c :: r =>
      if ascii_eqb c sep then [] :: split_on sep r
      else match split_on sep r with
           | w :: ws => (c :: w) :: ws
           | [] => [[c]]
           end
  end.

(* str.split(sep, 1): at most two parts *)
Fixpoint split_once (sep : ascii) (s : pstr) : pstr * option pstr :=
  match s with
  | [] => ([], None)
  | c :: r =>
      if ascii_eqb c sep then ([], Some r)
      else let (a, b) := split_once sep r in (c :: a, b)
  end.

Definition contains_char (c : ascii) (s : pstr) : bool := existsb (ascii_eqb c) s.

(* str.isdigit() on ASCII *)
Definition py_isdigit (s : pstr) : bool :=
  match s with [] => false | _ => forallb is_digit s end.

(* o.replace('.', '', 1).isdigit() *)
Definition numeric_form (s : pstr) : bool := py_isdigit (replace_first [c_dot] [] s).

Definition first_is (c : ascii) (s : pstr) : bool :=
  match s with x :: _ => ascii_eqb x c | [] => false end.

(* ---- int(str), str(int) ------------------------------------------------ *)
Fixpoint int_body (acc : Z) (prev_digit : bool) (s : pstr) : option Z :=
  match s with
  | [] => if prev_digit then Some acc else None
  | c :: r =>
      if is_digit c then int_body (10 * acc + Z.of_N (code c - 48))%Z true r
      else if ascii_eqb c c_us then (if prev_digit then int_body acc false r else None)
      else None
  end.

Definition py_int_of_str (s : pstr) : res Z :=
  let body (t : pstr) : res Z :=
    match int_body 0 false t with Some z => Ok z | None => Err EValue end in
  match cstrip s with
  | [] => Err EValue
  | c :: r =>
      if ascii_eqb c c_dash then rmap Z.opp (body r)
      else if ascii_eqb c "+"%char then body r
      else body (c :: r)
  end.

Definition str_of_Z (z : Z) : pstr :=
  list_ascii_of_string (NilZero.string_of_int (Z.to_int z)).

(* ---- types -------------------------------------------------------------- *)
Inductive sty :=
| SStr | SInt | SFloat | SBool | SBytes | SDateTime | SDate | STime | STimedelta | SDecimal
| SEnum (members : list (jv * pstr))           (* (value, member name) in definition order *)
| SStrEnum (members : list (jv * pstr)).       (* class X(str, Enum) / enum.StrEnum: a str subclass *)

(* dict key annotations in the model: dict KEYS are coercion positions too (str, int, and Enum /
   str-mixin Enum / StrEnum classes, all loaded by value) *)
Inductive kty := KStr | KInt | KEnum (members : list (jv * pstr)) | KStrEnum (members : list (jv * pstr)).
Definition sty_of_kty (k : kty) : sty :=
  match k with KStr => SStr | KInt => SInt | KEnum ms => SEnum ms | KStrEnum ms => SStrEnum ms end.

Inductive ty :=
| TS (s : sty)
| TOpt (t : ty)                                  (* Optional[t] *)
| TList (t : ty)                                 (* list[t] *)
| TTupV (t : ty)                                 (* tuple[t, ...] *)
| TTup (ts : list ty)                            (* tuple[t1, ..., tn] *)
| TDict (k : kty) (v : ty).                      (* dict[k, v] *)

Inductive engine := V0 | V1 | Env.

Definition is_opt (t : ty) : bool := match t with TOpt _ => true | _ => false end.

(* ---- oracles ------------------------------------------------------------- *)
Record oracles := {
  o_str : jv -> res pstr;                     (* str(o) for float / list / dict *)
  o_dt_iso : pstr -> res pstr;                (* datetime.fromisoformat(s).isoformat() *)
  o_date_iso : pstr -> res pstr;
  o_time_iso : pstr -> res pstr;
  o_dt_fromts : bool -> num -> res pstr;      (* datetime.fromtimestamp(x, tz=utc if b else None) *)
  o_date_fromts : num -> res pstr;            (* date.fromtimestamp(x) *)
  o_timeparse : pstr -> res (option num);     (* pytimeparse.parse(s): None when unparsable *)
  o_timedelta : num -> res pstr;              (* timedelta(seconds=x) *)
  o_decimal : pstr -> res pstr;               (* Decimal(s) *)
  o_b64 : pstr -> res pstr;                   (* base64.b64decode(s) *)
  o_json : pstr -> res jv                     (* json.loads(s) *)
}.

Section Model.
Variable O : oracles.

(* str(o) *)
Definition py_str (j : jv) : res pstr :=
  match j with
  | JStr s => Ok s
  | JNone => Ok (S "None")
  | JBool b => Ok (if b then S "True" else S "False")
  | JInt z => Ok (str_of_Z z)
  | _ => o_str O j
  end.

(* bool(o) is False? (`not o`) *)
Definition py_falsy (j : jv) : bool :=
  match j with
  | JNone => true
  | JBool b => negb b
  | JInt z => Z.eqb z 0
  | JFloat f => fl_eq_Z f 0
  | JStr s => match s with [] => true | _ => false end
  | JList l => match l with [] => true | _ => false end
  | JDict d => match d with [] => true | _ => false end
  end.

(* o == 1 *)
Definition py_eq_one (j : jv) : bool := jv_py_eqb j (JInt 1).

(* type_conv.as_bool *)
Definition as_bool (j : jv) : bool :=
  match j with
  | JBool b => b
  | JStr s => mem_str (lower s) truthy_values
  | _ => py_eq_one j
  end.

(* v1 load_to_bool template: o.lower() in __TRUTHY if o.__class__ is str else o == 1 *)
Definition load_bool_v1 (j : jv) : bool :=
  match j with
  | JStr s => mem_str (lower s) truthy_values
  | _ => py_eq_one j
  end.

(* type_conv.as_str (v1 template: '' if o is None else str(o)) *)
Definition as_str (j : jv) : res pstr :=
  match j with JNone => Ok [] | _ => py_str j end.

(* type_conv.as_int with base_type=int, default=0, raise_=True *)
Definition as_int (j : jv) : res Z :=
  match j with
  | JInt z => Ok z
  | JStr s =>
      match s with
      | [] => Ok 0%Z
      | _ => if contains_char c_dot s
             then bind (py_float_of_str s) fl_round
             else py_int_of_str s
      end
  | JFloat f => fl_round f
  | JBool _ => Err EType
  | _ => (* int(o) raises TypeError for None / list / dict *)
      if py_falsy j then Ok 0%Z else Err EType
  end.

(* type_conv.as_int_v1 (o not an int, not a str) *)
Definition as_int_v1 (j : jv) : res Z :=
  match j with
  | JFloat f => if fl_is_integer f then fl_trunc f else Err EValue
  | JBool _ => Err EType
  | JInt z => Ok z
  | JStr s => py_int_of_str s
  | _ => Err EType
  end.

(* v1 load_to_int template *)
Definition load_int_v1 (j : jv) : res Z :=
  match j with
  | JInt z => Ok z
  | JStr s =>
      if contains_char c_dot s
      then bind (py_float_of_str s)
                (fun f => if fl_is_integer f then fl_trunc f else py_int_of_str s)
      else py_int_of_str s
  | _ => as_int_v1 j
  end.

(* float(o) *)
Definition py_float (j : jv) : res fl :=
  match j with
  | JFloat f => Ok f
  | JInt z => fl_of_Z z
  | JBool b => Ok (FDy (if b then 1 else 0) 0)
  | JStr s => py_float_of_str s
  | _ => Err EType
  end.

(* t in NUMBERS: int or float, not bool *)
Definition as_number (j : jv) : option num :=
  match j with
  | JInt z => Some (NInt z)
  | JFloat f => Some (NFloat f)
  | _ => None
  end.

Definition z_rewrite (s : pstr) : pstr := replace_first (S "Z") (S "+00:00") s.

(* type_conv.as_datetime *)
Definition as_datetime (j : jv) : res pstr :=
  match j with
  | JStr s => o_dt_iso O (z_rewrite s)
  | _ => match as_number j with
         | Some x => o_dt_fromts O true x
         | None => Err EType
         end
  end.

(* type_conv.as_date *)
Definition as_date (j : jv) : res pstr :=
  match j with
  | JStr s => o_date_iso O s
  | _ => match as_number j with
         | Some x => o_date_fromts O x
         | None => Err EType
         end
  end.

(* type_conv.as_time *)
Definition as_time (j : jv) : res pstr :=
  match j with
  | JStr s => o_time_iso O (z_rewrite s)
  | _ => Err EType
  end.

(* v1 _load_to_date for datetime (Python >= 3.11: no Z rewrite) + as_datetime_v1, whose tz
   argument defaults to timezone.utc: fromtimestamp(o, utc); bool is an int there *)
Definition load_datetime_v1 (j : jv) : res pstr :=
  match j with
  | JStr s => o_dt_iso O s
  | JInt z => o_dt_fromts O true (NInt z)
  | JFloat f => o_dt_fromts O true (NFloat f)
  | JBool b => o_dt_fromts O true (NInt (if b then 1 else 0))
  | _ => Err EType
  end.

Definition load_date_v1 (j : jv) : res pstr :=
  match j with
  | JStr s => o_date_iso O s
  | JInt z => o_date_fromts O (NInt z)
  | JFloat f => o_date_fromts O (NFloat f)
  | JBool b => o_date_fromts O (NInt (if b then 1 else 0))
  | _ => Err EType
  end.

Definition load_time_v1 (j : jv) : res pstr :=
  match j with
  | JStr s => o_time_iso O s
  | _ => Err EType
  end.

(* environ/loaders.py load_to_datetime / load_to_date *)
Definition load_datetime_env (j : jv) : res pstr :=
  match j with
  | JStr s =>
      if numeric_form s
      then bind (py_float_of_str s) (fun f => o_dt_fromts O true (NFloat f))
      else o_dt_iso O (z_rewrite s)
  | _ => as_datetime j
  end.

Definition load_date_env (j : jv) : res pstr :=
  match j with
  | JStr s =>
      if numeric_form s
      then bind (py_float_of_str s) (fun f => o_date_fromts O (NFloat f))
      else o_date_iso O s
  | _ => as_date j
  end.

(* type_conv.as_timedelta *)
Definition as_timedelta (j : jv) : res pstr :=
  match j with
  | JStr s =>
      if numeric_form s
      then bind (py_float_of_str s) (fun f => o_timedelta O (NFloat f))
      else bind (o_timeparse O s)
                (fun r => match r with
                          | Some x => o_timedelta O x
                          | None => Err EValue       (* timedelta(seconds=None): TypeError -> ValueError *)
                          end)
  | _ => match as_number j with
         | Some x => o_timedelta O x
         | None => Err EType
         end
  end.

(* EnumClass(o): lookup by value *)
Fixpoint enum_lookup (members : list (jv * pstr)) (j : jv) : res pstr :=
  match members with
  | [] => Err EValue
  | (v, name) :: r => if jv_py_eqb v j then Ok name else enum_lookup r j
  end.

(* Decimal(str(o)) -- default engine and Env *)
Definition load_decimal_v0 (j : jv) : res pstr := bind (py_str j) (o_decimal O).

(* v1: Decimal(str(o) if o.__class__ is float else o) *)
Definition load_decimal_v1 (j : jv) : res pstr :=
  match j with
  | JFloat _ => bind (py_str j) (o_decimal O)
  | JStr s => o_decimal O s
  | JInt z => o_decimal O (str_of_Z z)
  | JBool b => o_decimal O (if b then S "1" else S "0")
  | _ => Err EType
  end.

(* bytes: v0 load_after_type_check (a JSON value is never bytes); v1 b64decode; Env bytes(o,'utf-8') *)
Definition load_bytes (e : engine) (j : jv) : res pstr :=
  match e with
  | V0 => Err EOther
  | V1 => match j with JStr s => o_b64 O s | _ => Err EType end
  | Env => match j with JStr s => Ok s | _ => Err EType end
  end.

Definition load_scalar (e : engine) (s : sty) (j : jv) : res pv :=
  match s with
  | SStr => rmap VStr (as_str j)
  | SInt => rmap VInt (match e with V1 => load_int_v1 j | _ => as_int j end)
  | SFloat => rmap VFloat (py_float j)
  | SBool => Ok (VBool (match e with V1 => load_bool_v1 j | _ => as_bool j end))
  | SBytes => rmap VBytes (load_bytes e j)
  | SDateTime => rmap VDateTime (match e with V0 => as_datetime j | V1 => load_datetime_v1 j | Env => load_datetime_env j end)
  | SDate => rmap VDate (match e with V0 => as_date j | V1 => load_date_v1 j | Env => load_date_env j end)
  | STime => rmap VTime (match e with V1 => load_time_v1 j | _ => as_time j end)
  | STimedelta => rmap VTimedelta (as_timedelta j)
  | SDecimal => rmap VDecimal (match e with V1 => load_decimal_v1 j | _ => load_decimal_v0 j end)
  | SEnum ms => rmap VEnum (enum_lookup ms j)
  | SStrEnum ms =>
      (* default engine / Env: the Enum hook X(o).  v1: a str subclass takes the str template
         `X() if o is None else X(o)`, and X() is a TypeError *)
      rmap VEnum (match e, j with V1, JNone => Err EType | _, _ => enum_lookup ms j end)
  end.

(* ---- EnvWizard string splitting (type_conv.as_list / as_dict) ---------- *)
Definition as_list (j : jv) : res jv :=
  match j with
  | JStr s =>
      if first_is "["%char (lstrip s) then o_json O s
      else Ok (JList (map (fun w => JStr (strip w)) (split_on ","%char s)))
  | _ => Ok j
  end.

Fixpoint jdict_set (k : pstr) (v : jv) (d : list (pstr * jv)) : list (pstr * jv) :=
  match d with
  | [] => [(k, v)]
  | (k', v') :: r => if pstr_eqb k k' then (k', v) :: r else (k', v') :: jdict_set k v r
  end.

(* dict(map(str.strip, pair.split('=', 1)) for pair in o.split(',')) *)
Fixpoint pairs_to_dict (ps : list pstr) (acc : list (pstr * jv)) : res (list (pstr * jv)) :=
  match ps with
  | [] => Ok acc
  | p :: r =>
      match split_once "="%char p with
      | (a, Some b) => pairs_to_dict r (jdict_set (strip a) (JStr (strip b)) acc)
      | (_, None) => Err EValue
      end
  end.

Definition as_dict (j : jv) : res jv :=
  match j with
  | JStr s =>
      if first_is "{"%char (lstrip s) then o_json O s
      else rmap JDict (pairs_to_dict (split_on ","%char s) [])
  | _ => Ok j
  end.

(* ---- containers ----------------------------------------------------------- *)
(* `for x in o`: lists, str (characters), dict (keys) *)
Definition py_iter (j : jv) : res (list jv) :=
  match j with
  | JList l => Ok l
  | JStr s => Ok (map (fun c => JStr [c]) s)
  | JDict d => Ok (map (fun kv => JStr (fst kv)) d)
  | _ => Err EType
  end.

(* len(o) *)
Definition py_len (j : jv) : res nat :=
  match j with
  | JList l => Ok (List.length l)
  | JStr s => Ok (List.length s)
  | JDict d => Ok (List.length d)
  | _ => Err EType
  end.

(* o.items() *)
Definition py_items (j : jv) : res (list (pstr * jv)) :=
  match j with JDict d => Ok d | _ => Err EOther end.

Definition env_list (e : engine) (j : jv) : res jv :=
  match e with Env => as_list j | _ => Ok j end.
Definition env_dict (e : engine) (j : jv) : res jv :=
  match e with Env => as_dict j | _ => Ok j end.

Definition key_eqb (a b : pv) : bool :=
  match a, b with
  | VStr x, VStr y => pstr_eqb x y
  | VInt x, VInt y => Z.eqb x y
  | VEnum x, VEnum y => pstr_eqb x y
  | _, _ => false
  end.

Fixpoint dict_set (k v : pv) (d : list (pv * pv)) : list (pv * pv) :=
  match d with
  | [] => [(k, v)]
  | (k', v') :: r => if key_eqb k k' then (k', v) :: r else (k', v') :: dict_set k v r
  end.

(* {load_k(k): load_v(v) for k, v in items}: key first, then value; later duplicates win *)
Fixpoint build_dict (fk : jv -> res pv) (fv : jv -> res pv) (items : list (pstr * jv))
         (acc : list (pv * pv)) : res (list (pv * pv)) :=
  match items with
  | [] => Ok acc
  | (k, v) :: r =>
      bind (fk (JStr k)) (fun k' => bind (fv v) (fun v' => build_dict fk fv r (dict_set k' v' acc)))
  end.

(* TupleParser: required_count <= len(o) <= total_count; Optional elements are not required *)
Definition tuple_count_ok (ts : list ty) (n : nat) : bool :=
  (List.length (filter (fun t => negb (is_opt t)) ts) <=? n)%nat && (n <=? List.length ts)%nat.

Fixpoint load (e : engine) (t : ty) (j : jv) {struct t} : res pv :=
  match t with
  | TS s => load_scalar e s j
  | TOpt t' => match j with JNone => Ok VNone | _ => load e t' j end
  | TList t' =>
      bind (env_list e j) (fun j' => bind (py_iter j') (fun l => rmap VList (mapM (load e t') l)))
  | TTupV t' =>
      match e with
      | V1 => bind (py_iter j) (fun l => rmap VTuple (mapM (load e t') l))
      | _ =>
          (* VariadicTupleParser: one parser per len(o) of the RAW value, then zip *)
          bind (py_len j) (fun n =>
          bind (env_list e j) (fun j' =>
          bind (py_iter j') (fun l => rmap VTuple (mapM (load e t') (firstn n l)))))
      end
  | TTup ts =>
      match e with
      | V1 =>
          (* (load(v[0]), load(v[1]), ..., ) *)
          match ts with
          | [] => Ok (VTuple [])
          | _ =>
              match j with
              | JDict _ => Err EOther
              | _ =>
                  bind (py_iter j) (fun l =>
                  rmap VTuple
                    ((fix go (ts : list ty) (l : list jv) : res (list pv) :=
                        match ts with
                        | [] => Ok []
                        | t1 :: ts' =>
                            match l with
                            | [] => Err EOther
                            | x :: l' => bind (load e t1 x) (fun y => bind (go ts' l') (fun ys => Ok (y :: ys)))
                            end
                        end) ts l))
              end
          end
      | _ =>
          (* count check on the RAW value, then (Env: as_list) zip(parsers, o) *)
          bind (py_len j) (fun n =>
          if tuple_count_ok ts n then
            bind (env_list e j) (fun j' =>
            bind (py_iter j') (fun l =>
            rmap VTuple
              ((fix go (ts : list ty) (l : list jv) : res (list pv) :=
                  match ts, l with
                  | t1 :: ts', x :: l' => bind (load e t1 x) (fun y => bind (go ts' l') (fun ys => Ok (y :: ys)))
                  | _, _ => Ok []
                  end) ts l)))
          else Err EOther)
      end
  | TDict k v =>
      bind (env_dict e j) (fun j' =>
      bind (py_items j') (fun items =>
      rmap VDict (build_dict (load_scalar e (sty_of_kty k)) (load e v) items [])))
  end.

End Model.

(* ---- finite oracle tables (execution only) -------------------------------- *)
Fixpoint assoc {K A} (eqb : K -> K -> bool) (k : K) (l : list (K * A)) : option A :=
  match l with
  | [] => None
  | (k', a) :: r => if eqb k k' then Some a else assoc eqb k r
  end.
Definition tbl {K A} (eqb : K -> K -> bool) (l : list (K * res A)) (k : K) : res A :=
  match assoc eqb k l with Some r => r | None => Err EMissing end.

(* string-keyed table with a shared key domain: keys of [dom] without an entry answer [Err dflt]
   (most strings are rejected by most parsers); keys outside [dom] are missing *)
Definition tbld {A} (dom : list pstr) (dflt : err) (l : list (pstr * res A)) (k : pstr) : res A :=
  match assoc pstr_eqb k l with
  | Some r => r
  | None => if mem_str k dom then Err dflt else Err EMissing
  end.

Definition tbl_oracles (dom : list pstr)
  (t_str : list (jv * res pstr))
  (t_dt_iso t_date_iso t_time_iso : list (pstr * res pstr))
  (t_dt_ts_utc t_dt_ts_local t_date_ts : list (num * res pstr))
  (t_timeparse : list (pstr * res (option num))) (t_timedelta : list (num * res pstr))
  (t_decimal t_b64 : list (pstr * res pstr)) (t_json : list (pstr * res jv)) : oracles :=
  {| o_str := tbl jv_eqb t_str;
     o_dt_iso := tbld dom EValue t_dt_iso;
     o_date_iso := tbld dom EValue t_date_iso;
     o_time_iso := tbld dom EValue t_time_iso;
     o_dt_fromts := fun utc => tbl num_eqb (if utc then t_dt_ts_utc else t_dt_ts_local);
     o_date_fromts := tbl num_eqb t_date_ts;
     o_timeparse := tbld dom EMissing t_timeparse;
     o_timedelta := tbl num_eqb t_timedelta;
     o_decimal := tbld dom EOther t_decimal;
     o_b64 := tbld dom EValue t_b64;
     o_json := tbl pstr_eqb t_json |}.

(* ---- output encoding for the correspondence harness ----------------------- *)
Definition show_Z (z : Z) : pstr := str_of_Z z.

Definition show_fl (f : fl) : pstr :=
  match fl_norm f with
  | FDy m e => show_Z m ++ S "p" ++ show_Z e
  | FInf n => if n then S "-inf" else S "inf"
  | FNan => S "nan"
  end.

Fixpoint show_pv (v : pv) : pstr :=
  match v with
  | VNone => S "N"
  | VBool b => if b then S "B1" else S "B0"
  | VInt z => S "I" ++ show_Z z ++ S ";"
  | VFloat f => S "F" ++ show_fl f ++ S ";"
  | VStr s => S "S" ++ hex s ++ S ";"
  | VBytes s => S "Y" ++ hex s ++ S ";"
  | VList l => S "L[" ++ flat_map show_pv l ++ S "]"
  | VTuple l => S "T[" ++ flat_map show_pv l ++ S "]"
  | VDict d => S "D[" ++ flat_map (fun kv => match kv with (k, x) => show_pv k ++ show_pv x end) d ++ S "]"
  | VDateTime s => S "Pdt" ++ hex s ++ S ";"
  | VDate s => S "Pd" ++ hex s ++ S ";"
  | VTime s => S "Pt" ++ hex s ++ S ";"
  | VTimedelta s => S "Ptd" ++ hex s ++ S ";"
  | VDecimal s => S "Pdec" ++ hex s ++ S ";"
  | VEnum n => S "M" ++ hex n ++ S ";"
  end.

Definition show_err (e : err) : pstr :=
  match e with
  | EType => S "ET" | EValue => S "EV" | EOverflow => S "EO" | EOther => S "EX" | EMissing => S "E?"
  end.

Definition show_res (r : res pv) : pstr :=
  match r with Ok v => S "O" ++ show_pv v | Err e => show_err e end.

Definition show_resZ (r : res Z) : pstr :=
  match r with Ok z => S "O" ++ show_Z z | Err e => show_err e end.

Definition show_resF (r : res fl) : pstr :=
  match r with Ok f => S "O" ++ show_fl f | Err e => show_err e end.

(* a JSON value seen as the Python value it already is (harness: results of as_list / as_dict) *)
Fixpoint pv_of_jv (j : jv) : pv :=
  match j with
  | JNone => VNone
  | JBool b => VBool b
  | JInt z => VInt z
  | JFloat f => VFloat f
  | JStr s => VStr s
  | JList l => VList (map pv_of_jv l)
  | JDict d => VDict (map (fun kv => match kv with (k, x) => (VStr k, pv_of_jv x) end) d)
  end.
