(* StatePure.v — the cache-free reference semantics of one load / dump call
   (computed from the class declarations and the Meta objects only), and the
   decidable predicates that carve the open regions out of the set of
   histories (F2, F10, F40 for C06; F10, F11, F40 for C07).  No proofs. *)
From DW Require Import PyStr StrConv StateModel.

(* ---------------------------------------------------------------- trees *)
Definition field_children (fs : list (pstr * fty cdecl * option dval)) : list cdecl :=
  flat_map (fun x => match snd (fst x) with TNested d => [d] | _ => [] end) fs.
Definition children (d : cdecl) : list cdecl := field_children (d_fields d).

(* all proper sub-declarations (nested classes at any depth) *)
Fixpoint proper_subtrees (d : cdecl) : list cdecl :=
  match d with
  | CDecl _ fs =>
      (fix go (l : list (pstr * fty cdecl * option dval)) : list cdecl :=
         match l with
         | [] => []
         | (_, TNested dm, _) :: r => dm :: proper_subtrees dm ++ go r
         | _ :: r => go r
         end) fs
  end.
Definition proper_ids (d : cdecl) : list cid := map d_id (proper_subtrees d).

Definition field_type (d : cdecl) (x : pstr) : option (fty cdecl) :=
  assoc_s x (map (fun f => (fst (fst f), snd (fst f))) (d_fields d)).

(* class ids of the dataclass instances strictly inside a value *)
Fixpoint inst_ids (v : iv) : list cid :=
  match v with
  | VInst c fs =>
      c :: (fix go (l : list (pstr * iv)) : list cid :=
              match l with [] => [] | (_, w) :: r => inst_ids w ++ go r end) fs
  | _ => []
  end.
Definition field_inst_ids (fs : list (pstr * iv)) : list cid := flat_map (fun p => inst_ids (snd p)) fs.

(* ---------------------------------------------------------------- pure load *)
(* En n = Meta in force for nested class n;  e = Meta in force for the class of d *)
Fixpoint pure_load (En : cid -> meta) (e : meta) (d : cdecl) (doc : jv) {struct doc} : res iv :=
  match doc with
  | JNull => Er ERawNone
  | JInt _ => Er ERawType
  | JStr _ => Er EModel
  | JDict kv =>
      let n := d_id d in
      let fix loop (kv : list (pstr * jv)) (kw : list (pstr * iv)) {struct kv} : res (list (pstr * iv)) :=
        match kv with
        | [] => Ok kw
        | (k, v) :: rest =>
            match resolve_pure (d_names d) (m_ltr e) k with
            | RIndex => Er EIndex
            | RUnknown => if raise_of e then Er (EUnknownKey n k) else loop rest kw
            | RField x =>
                match field_type d x with
                | None => Er EModel
                | Some ty =>
                    match (match ty with
                           | TInt => conv_int v
                           | TStr => conv_str v
                           | TNested dm => attribute n x (pure_load En (En (d_id dm)) dm v)
                           end) with
                    | Er err => Er err
                    | Ok w => loop rest (set_assoc_s x w kw)
                    end
                end
            end
        end in
      match loop kv [] with
      | Er err => Er err
      | Ok kw => construct d kw
      end
  end.

(* ---------------------------------------------------------------- pure dump *)
Fixpoint keys_of (t : tr) (names : list pstr) : option (list (pstr * pstr)) :=
  match names with
  | [] => Some []
  | x :: r => match apply_tr t x, keys_of t r with
              | Some k, Some ks => Some ((x, k) :: ks)
              | _, _ => None
              end
  end.

Fixpoint pure_body (skip : bool) (defaults : list (pstr * dval)) (rs : list (pstr * res jv)) (vals : list (pstr * iv))
         (keys : list (pstr * pstr)) : res (list (pstr * jv)) :=
  match keys with
  | [] => Ok []
  | (x, k) :: rest =>
      match assoc_s x rs, assoc_s x vals with
      | Some r, Some v =>
          if skip && match assoc_s x defaults with Some dv => val_eq_default v dv | None => false end
          then pure_body skip defaults rs vals rest
          else match r with
               | Er e => Er e
               | Ok j => match pure_body skip defaults rs vals rest with
                         | Er e => Er e
                         | Ok js => Ok ((k, j) :: js)
                         end
               end
      | _, _ => Er EAttr
      end
  end.

Definition pure_inst (e : meta) (d : cdecl) (rs : list (pstr * res jv)) (vals : list (pstr * iv)) : res jv :=
  match keys_of (tr_dump (m_dtr e)) (d_names d) with
  | None => Er EIndex
  | Some ks => match pure_body (skip_of e) (d_defaults d) rs vals ks with
               | Ok js => Ok (JDict js)
               | Er err => Er err
               end
  end.

Fixpoint pure_dumpv (D : cid -> option cdecl) (En : cid -> meta) (v : iv) {struct v} : res jv :=
  match v with
  | VNone => Ok JNull
  | VInt z => Ok (JInt z)
  | VStr t => Ok (JStr t)
  | VSub t z => Ok (apply_hook (hook_pure t) t z)
  | VInst m fs =>
      let rs := (fix mk (fs : list (pstr * iv)) : list (pstr * res jv) :=
                   match fs with [] => [] | (x, fv) :: r => (x, pure_dumpv D En fv) :: mk r end) fs in
      match D m with
      | None => Er EModel
      | Some dm => pure_inst (En m) dm rs fs
      end
  end.
Definition pure_results (D : cid -> option cdecl) (En : cid -> meta) (fs : list (pstr * iv)) : list (pstr * res jv) :=
  map (fun p => (fst p, pure_dumpv D En (snd p))) fs.

(* ---------------------------------------------------------------- pure outcome of an operation *)
Definition decl_of (s : sigma) (c : cid) : option cdecl := cs_decl (st_cls s c).
Definition om (s : sigma) (c : cid) : meta := opt_meta (own_meta s c).
(* Meta in force for class n when reached from root c *)
Definition En_of (s : sigma) (c : cid) (n : cid) : meta := eff (own_meta s n) (cfg_of (own_meta s c)).

(* outcome of a load / dump computed from declarations and Meta objects alone *)
Definition pure_op (s : sigma) (o : op) : outcome :=
  match o with
  | OLoad c attr doc =>
      match decl_of s c with
      | None => OErr EModel
      | Some d => if attr && negb (ci_wiz (d_info d)) then OErr EModel
                  else out_of_iv (pure_load (En_of s c) (om s c) d (JDict doc))
      end
  | ODump attr (VInst c fs) =>
      match decl_of s c with
      | None => OErr EModel
      | Some d => if attr && negb (ci_wiz (d_info d)) then OErr EModel
                  else out_of_jv (pure_inst (om s c) d (pure_results (decl_of s) (En_of s c) fs) fs)
      end
  | ODump _ _ => OErr EModel
  | _ => ODone
  end.

(* ---------------------------------------------------------------- safe histories *)
Definition opt_eqb {A} (eqb : A -> A -> bool) (a b : option A) : bool :=
  match a, b with Some x, Some y => eqb x y | None, None => true | _, _ => false end.
Definition tr_eqb (a b : tr) : bool :=
  match a, b with
  | TrSnake, TrSnake | TrCamel, TrCamel | TrPascal, TrPascal | TrLisp, TrLisp | TrNone, TrNone => true
  | _, _ => false
  end.
Definition meta_eqb (a b : meta) : bool :=
  opt_eqb tr_eqb (m_ltr a) (m_ltr b) && opt_eqb tr_eqb (m_dtr a) (m_dtr b) &&
  opt_eqb Bool.eqb (m_raise a) (m_raise b) && opt_eqb Bool.eqb (m_skipdef a) (m_skipdef b) &&
  opt_eqb Bool.eqb (m_rec a) (m_rec b).

(* ghost: the Meta under which the tables of a class have (possibly) been written *)
Definition gov := cid -> option meta.
Definition g0 : gov := fun _ => None.
Definition gset (G : gov) (n : cid) (e : meta) : gov :=
  fun x => if Nat.eqb x n then match G x with Some e' => Some e' | None => Some e end else G x.
Definition gset_all (G : gov) (ids : list cid) (E : cid -> meta) : gov :=
  fold_left (fun G n => gset G n (E n)) ids G.
Definition agree1 (G : gov) (n : cid) (e : meta) : bool :=
  match G n with None => true | Some e' => meta_eqb e' e end.

(* F2: a from_dict / to_dict call through the class attribute must not resolve
   to a function specialised for a proper ancestor *)
Definition f2_ok {A} (s : sigma) (get : cstate -> option A) (c : cid) (d : cdecl) (attr : bool) : bool :=
  if attr && ci_wiz (d_info d) then
    match get (st_cls s c) with
    | Some _ => true
    | None => match attr_lookup s get (ci_mro (d_info d)) with Some _ => false | None => true end
    end
  else true.

(* F10: every class whose tables the call reads or writes has so far been
   generated only under the Meta this call puts in force for it *)
Definition f10_ok (s : sigma) (G : gov) (c : cid) (nested : list cid) : bool :=
  agree1 G c (om s c) && forallb (fun n => agree1 G n (En_of s c n)) nested.

Definition mref_opt_eqb := opt_eqb mref_eqb.

(* BindMeta: before first use, and the Meta object of the class is not shared
   with another class (F40 / F11 aliasing) *)
Definition bind_ok (s : sigma) (G : gov) (defined : list cid) (c : cid) : bool :=
  match G c with Some _ => false | None => true end &&
  match cs_meta (st_cls s c) with
  | None => true
  | Some r => forallb (fun n => Nat.eqb n c || negb (mref_opt_eqb (cs_meta (st_cls s n)) (Some r))) defined
  end.

(* DefineClass: the class id is new to the history, and a JSONWizard class without an inner
   Meta must not find a Meta initialiser left under its qualname by another class
   (F11: it would share that class's Meta object) *)
Definition define_ok (s : sigma) (G : gov) (cd : cdef) : bool :=
  match G (ci_id (cd_info cd)) with Some _ => false | None => true end &&
  (if ci_wiz (cd_info cd) then
     match ci_inner (cd_info cd) with
     | Some _ => true
     | None => match st_minit s (ci_qn (cd_info cd)) with None => true | Some _ => false end
     end
   else true).

Definition safe_op (s : sigma) (G : gov) (defined : list cid) (o : op) : bool :=
  match o with
  | ODefine cd => define_ok s G cd
  | OBind c _ => bind_ok s G defined c
  | OLoad c attr _ =>
      match decl_of s c with
      | None => true
      | Some d => f2_ok s cs_from_dict c d attr && f10_ok s G c (proper_ids d)
      end
  | ODump attr (VInst c fs) =>
      match decl_of s c with
      | None => true
      | Some d => f2_ok s cs_to_dict c d attr && f10_ok s G c (field_inst_ids fs)
      end
  | ODump _ _ => true
  end.

Definition gstep (s : sigma) (G : gov) (o : op) : gov :=
  match o with
  | OLoad c _ _ =>
      match decl_of s c with
      | None => G
      | Some d => gset_all (gset G c (om s c)) (proper_ids d) (En_of s c)
      end
  | ODump _ (VInst c fs) =>
      match decl_of s c with
      | None => G
      | Some d => gset_all (gset G c (om s c)) (field_inst_ids fs) (En_of s c)
      end
  | _ => G
  end.

Definition dstep (defined : list cid) (o : op) : list cid :=
  match o with ODefine cd => ci_id (cd_info cd) :: defined | _ => defined end.

Fixpoint safe_from (s : sigma) (G : gov) (defined : list cid) (h : list op) : bool :=
  match h with
  | [] => true
  | o :: r => safe_op s G defined o && safe_from (fst (step s o)) (gstep s G o) (dstep defined o) r
  end.

(* a history that stays outside the open regions F2 / F10 / F11 / F40 and binds Meta only before first use *)
Definition safe_history (h : list op) : bool := safe_from init g0 [] h.

(* ---------------------------------------------------------------- class families (C07) *)
Definition op_class (o : op) : option cid :=
  match o with
  | ODefine cd => Some (ci_id (cd_info cd))
  | OBind c _ => Some c
  | OLoad c _ _ => Some c
  | ODump _ (VInst c _) => Some c
  | ODump _ _ => None
  end.
Definition op_in (inG : cid -> bool) (o : op) : bool :=
  match op_class o with Some c => inG c | None => false end.
Definition proj (inG : cid -> bool) (h : list op) : list op := filter (op_in inG) h.

Fixpoint outs_in (inG : cid -> bool) (h : list op) (outs : list outcome) : list outcome :=
  match h, outs with
  | o :: h', x :: outs' => if op_in inG o then x :: outs_in inG h' outs' else outs_in inG h' outs'
  | _, _ => []
  end.

Definition nested_refs (cd : cdef) : list cid :=
  flat_map (fun f => match snd (fst f) with FNested c => [c] | _ => [] end) (cd_fields cd).
Definition mem_nat (x : nat) (l : list nat) : bool := existsb (Nat.eqb x) l.

(* qualnames a class definition reads or writes in META_INITIALIZER *)
Definition def_qns (cd : cdef) : list nat :=
  ci_qn (cd_info cd) :: match ci_base_qn (cd_info cd) with Some q => [q] | None => [] end.
Definition family_qns (inG : cid -> bool) (h : list op) : list nat :=
  flat_map (fun o => match o with ODefine cd => if inG (ci_id (cd_info cd)) then def_qns cd else [] | _ => [] end) h.

(* the family G is closed under what its operations read (nested classes, base classes,
   classes of dumped instances), the other operations share no nested class with it, and the
   definitions outside G use no qualname of G  (no module-level Meta exists in the model) *)
Definition disjoint_tables (inG : cid -> bool) (h : list op) : bool :=
  let qg := family_qns inG h in
  forallb (fun o =>
    match o with
    | ODefine cd =>
        if inG (ci_id (cd_info cd))
        then forallb inG (nested_refs cd) && forallb inG (ci_mro (cd_info cd))
        else forallb (fun c => negb (inG c)) (nested_refs cd) &&
             forallb (fun q => negb (mem_nat q qg)) (def_qns cd)
    | ODump _ (VInst c fs) =>
        if inG c then forallb inG (field_inst_ids fs) else forallb (fun c => negb (inG c)) (field_inst_ids fs)
    | _ => true
    end) h.
