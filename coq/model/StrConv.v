(* StrConv.v — model of dataclass_wizard/utils/string_conv.py
   (normalize, replace_multi_with_single, to_snake_case, to_lisp_case,
    to_camel_case, to_pascal_case, possible_json_keys).
   Hand-written; tied to the code by the correspondence check (harness/props/c08.py),
   which sweeps a small alphabet exhaustively and samples random ASCII strings.
   Python's IndexError on `string[0]` for the empty string is the explicit
   `None` result of to_camel/to_pascal.  No proofs in this file. *)
From DW Require Export PyStr.

(* string.replace('-', '').replace('_', '').upper() *)
Definition normalize (s : pstr) : pstr :=
  upper (remove_char c_us (remove_char c_dash s)).

(* replace_multi_with_single(s, c): `while cc in s: s = s.replace(cc, c)`.
   Its fixpoint collapses every run of c to a single c. *)
Fixpoint collapse (c : ascii) (s : pstr) : pstr :=
  match s with
  | [] => []
  | x :: r =>
      match r with
      | y :: _ => if ascii_eqb x c && ascii_eqb y c then collapse c r
                  else x :: collapse c r
      | [] => [x]
      end
  end.

Definition next_is_lower (s : pstr) : bool :=
  match s with c :: _ => is_lower c | [] => false end.

(* re.sub(r'((?!^)(?<!SEP)[A-Z][a-z]+|(?<=[a-z0-9])[A-Z])', r'SEP\1', s)
   as a left-to-right scan carrying the previous character of the *input*.
   A match can only start at an upper-case letter; the lower-case letters the
   first alternative consumes are copied unchanged, which is also what the
   scan does with a character that starts no match, so one step per character
   suffices. *)
Fixpoint resub (sep : ascii) (prev : option ascii) (s : pstr) : pstr :=
  match s with
  | [] => []
  | c :: r =>
      let hit :=
        is_upper c &&
        match prev with
        | None => false
        | Some p => (negb (ascii_eqb p sep) && next_is_lower r) || is_lower_or_digit p
        end in
      if hit then sep :: c :: resub sep (Some c) r
      else c :: resub sep (Some c) r
  end.

Definition to_sep_case (sep other : ascii) (s : pstr) : pstr :=
  let s1 := replace_char c_sp sep (replace_char other sep s) in
  if py_islower s1 then collapse sep s1
  else collapse sep (lower (resub sep None s1)).

Definition to_snake (s : pstr) : pstr := to_sep_case c_us c_dash s.
Definition to_lisp  (s : pstr) : pstr := to_sep_case c_dash c_us s.

(* re.sub(r"(?:_)(.)", lambda m: m.group(1).upper(), s); `.` excludes "\n". *)
Fixpoint camel_sub (s : pstr) : pstr :=
  match s with
  | [] => []
  | c :: r =>
      if ascii_eqb c c_us then
        match r with
        | d :: r' => if ascii_eqb d c_nl then c :: camel_sub r
                     else to_upper d :: camel_sub r'
        | [] => [c]
        end
      else c :: camel_sub r
  end.

Definition camel_pre (s : pstr) : pstr :=
  collapse c_us (replace_char c_sp c_us (replace_char c_dash c_us s)).

Definition to_camel (s : pstr) : option pstr :=
  match camel_pre s with
  | [] => None                      (* IndexError *)
  | c :: r => Some (to_lower c :: camel_sub r)
  end.

Definition to_pascal (s : pstr) : option pstr :=
  match camel_pre s with
  | [] => None
  | c :: r => Some (to_upper c :: camel_sub r)
  end.

Definition cap_first (s : pstr) : pstr :=
  match s with [] => [] | c :: r => to_upper c :: r end.

(* possible_json_keys(field); None = IndexError on the empty field name. *)
Definition possible_json_keys (f : pstr) : option (list pstr) :=
  match to_camel f with
  | None => None
  | Some k1 =>
      match k1 with
      | [] => None
      | _ =>
        let k2 := cap_first k1 in
        let k3 := to_lisp f in
        let k4 := title k3 in
        let k5 := replace_char c_dash c_us k4 in
        let k6 := lower k5 in
        let ks := [k1; k2; k3; k4; k5; k6] in
        Some (if mem_str f ks then remove_first f ks else ks)
      end
  end.

(* The six documented letter-casings of a field name, as the dump side and
   the documentation produce them. *)
Inductive casing := Camel | Pascal | Kebab | UpperKebab | UpperSnake | Screaming.
Definition all_casings := [Camel; Pascal; Kebab; UpperKebab; UpperSnake; Screaming].

Definition apply_casing (c : casing) (n : pstr) : option pstr :=
  match c with
  | Camel => to_camel n
  | Pascal => to_pascal n
  | Kebab => Some (to_lisp n)
  | UpperKebab => Some (title (to_lisp n))
  | UpperSnake => Some (replace_char c_dash c_us (title (to_lisp n)))
  | Screaming => Some (upper n)
  end.

(* Default-engine key resolution (loaders.py cls_fromdict): exact field name,
   else case-insensitive match of to_snake_case(key) against the field names
   (DictWithLowerStore.get_key: last field with that lower-cased name wins). *)
Fixpoint find_last_lower (k : pstr) (fields : list pstr) (acc : option pstr) : option pstr :=
  match fields with
  | [] => acc
  | f :: r => find_last_lower k r (if pstr_eqb (lower f) k then Some f else acc)
  end.

Definition resolve_key_v0 (fields : list pstr) (key : pstr) : option pstr :=
  if mem_str key fields then Some key
  else find_last_lower (lower (to_snake key)) fields None.
